"""
Minimum-length analysis for bytes values: which constant-index reads / fixed-format unpack_from calls
are covered by a dominating length fact.  Used by C03 (receive path) and C06 (classifier shape).
"""
from __future__ import annotations

import ast
import struct

from .cfg import CFG
from .match import Fact, facts_at, local_defs, single_def
from .model import NOCONST, ClassInfo, FuncInfo, Repo, chain, enclosing_stmt, norm, parent, strip_cast, walk_no_nested

INF = 10 ** 9


def annotation_text(fi: FuncInfo, name: str) -> str | None:
    a = fi.node.args
    for p in a.posonlyargs + a.args + a.kwonlyargs:
        if p.arg == name and p.annotation is not None:
            ann = p.annotation
            if isinstance(ann, ast.Constant) and isinstance(ann.value, str):
                return ann.value.replace(" ", "")
            return norm(ann).replace(" ", "")
    return None


class BytesTyper:
    """Strict 'is this expression a bytes value' inference (unknown => False)."""

    def __init__(self, repo: Repo, fi: FuncInfo) -> None:
        self.repo = repo
        self.fi = fi

    def var_class(self, name: str) -> ClassInfo | None:
        return self.repo.type_of_expr(self.fi, ast.Name(id=name, ctx=ast.Load()))

    def is_bytes(self, e: ast.AST, depth: int = 0) -> bool:
        if depth > 6:
            return False
        e = strip_cast(e)
        fi = self.fi
        if isinstance(e, ast.Constant):
            return isinstance(e.value, bytes)
        if isinstance(e, ast.Name):
            ann = annotation_text(fi, e.id)
            if ann is not None:
                return ann in ("bytes", "bytes|None", "bytes|bytearray", "bytearray")
            defs = local_defs(fi, e.id)
            if not defs:
                return False
            for _, val, idx in defs:
                if val is None:
                    return False
                if idx is None:
                    if not self.is_bytes(val, depth + 1):
                        return False
                else:
                    if not self.tuple_elem_is_bytes(val, idx, depth + 1):
                        return False
            return True
        if isinstance(e, ast.Subscript):
            if isinstance(e.slice, ast.Slice):
                return self.is_bytes(e.value, depth + 1)
            if isinstance(e.slice, ast.Constant) and isinstance(e.slice.value, int):
                return self.tuple_elem_is_bytes(e.value, e.slice.value, depth + 1)
            return False
        if isinstance(e, ast.Attribute):
            if isinstance(e.value, ast.Name):
                c = self.var_class(e.value.id)
                if c is not None:
                    # attribute assigned in __init__ from a parameter annotated bytes
                    init = c.lookup("__init__")
                    if init is not None:
                        for n in walk_no_nested(init.node):
                            if isinstance(n, ast.Assign) and len(n.targets) == 1 and chain(n.targets[0]) == f"self.{e.attr}" \
                                    and isinstance(n.value, ast.Name):
                                return annotation_text(init, n.value.id) == "bytes"
            return False
        if isinstance(e, ast.BinOp) and isinstance(e.op, ast.Add):
            return self.is_bytes(e.left, depth + 1) or self.is_bytes(e.right, depth + 1)
        return False

    def tuple_elem_is_bytes(self, val: ast.AST, idx: int, depth: int) -> bool:
        val = strip_cast(val)
        if isinstance(val, ast.Name):
            ann = annotation_text(self.fi, val.id)
            if ann is not None and ann.startswith("tuple[") and ann.endswith("]"):
                parts = _split_top(ann[6:-1])
                if 0 <= idx < len(parts):
                    return parts[idx] == "bytes"
        if isinstance(val, ast.Tuple) and 0 <= idx < len(val.elts):
            return self.is_bytes(val.elts[idx], depth + 1)
        return False


def _split_top(s: str) -> list[str]:
    out, depth, cur = [], 0, ""
    for ch in s:
        if ch == "[":
            depth += 1
        elif ch == "]":
            depth -= 1
        if ch == "," and depth == 0:
            out.append(cur)
            cur = ""
        else:
            cur += ch
    out.append(cur)
    return out


class LengthAnalysis:
    def __init__(self, repo: Repo, fi: FuncInfo, cfg: CFG, param_min: dict[str, int] | None = None) -> None:
        self.repo = repo
        self.fi = fi
        self.cfg = cfg
        self.param_min = param_min or {}
        self.typer = BytesTyper(repo, fi)

    # ---- kills
    def _kill_nodes(self, key: str):
        """CFG nodes after which a length fact about `key` (a chain like `data` or `cell.message`) may be stale."""
        base = key.split(".")[0]
        out = []
        for n in walk_no_nested(self.fi.node):
            st = None
            if isinstance(n, (ast.Assign, ast.AugAssign, ast.AnnAssign)):
                tgts = n.targets if isinstance(n, ast.Assign) else [n.target]
                for t in tgts:
                    for e in (t.elts if isinstance(t, (ast.Tuple, ast.List)) else [t]):
                        c = chain(e)
                        if c is not None and (c == key or c == base):
                            st = n
            elif isinstance(n, ast.Call) and "." in key:
                # the object is handed to another function which may rewrite the attribute
                for a in list(n.args) + [k.value for k in n.keywords]:
                    if isinstance(a, ast.Name) and a.id == base:
                        if not self._callee_pure_for(n, key.split(".", 1)[1]):
                            st = enclosing_stmt(n)
                f = n.func
                if isinstance(f, ast.Attribute) and isinstance(f.value, ast.Name) and f.value.id == base:
                    if not self._method_pure(base, f.attr, key.split(".", 1)[1]):
                        st = enclosing_stmt(n)
            if st is not None:
                out.extend(self.cfg.nodes_for(n if isinstance(n, ast.Call) else st))
        return out

    def _method_pure(self, var: str, meth: str, attr: str) -> bool:
        c = self.typer.var_class(var)
        if c is None:
            return False
        m = c.lookup(meth)
        if m is None:
            return False
        return not any(chain(t) == f"self.{attr}" for n in walk_no_nested(m.node)
                       if isinstance(n, (ast.Assign, ast.AugAssign)) for t in (n.targets if isinstance(n, ast.Assign) else [n.target]))

    def _callee_pure_for(self, call: ast.Call, attr: str) -> bool:
        targets = self.repo.resolve_call(self.fi, call)
        if not targets:
            return False
        for t in targets:
            for n in ast.walk(t.node):
                if isinstance(n, (ast.Assign, ast.AugAssign)):
                    for tg in (n.targets if isinstance(n, ast.Assign) else [n.target]):
                        c = chain(tg)
                        if c is not None and c.endswith("." + attr):
                            return False
                if isinstance(n, ast.Call) and n is not call:
                    # passes the object further: assume impure unless it is a logger call
                    pass
        # transitively: callee may pass the object on; check one more level for direct stores
        return all(self._no_store_transitive(t, attr, 3) for t in targets)

    def _no_store_transitive(self, fi: FuncInfo, attr: str, depth: int) -> bool:
        for n in walk_no_nested(fi.node):
            if isinstance(n, (ast.Assign, ast.AugAssign)):
                for tg in (n.targets if isinstance(n, ast.Assign) else [n.target]):
                    c = chain(tg)
                    if c is not None and c.endswith("." + attr):
                        return False
        if depth <= 0:
            return True
        for c in [x for x in walk_no_nested(fi.node) if isinstance(x, ast.Call)]:
            for t in self.repo.resolve_call(fi, c):
                if t.node is fi.node:
                    continue
                if not self._no_store_transitive(t, attr, depth - 1):
                    return False
        return True

    # ---- facts
    def _const(self, e: ast.AST):
        v = self.repo.resolve_const(self.fi.module, e, self.fi.cls)
        return v if isinstance(v, int) and not isinstance(v, bool) else None

    def _len_of(self, e: ast.AST) -> str | None:
        e = strip_cast(e)
        if isinstance(e, ast.Call) and chain(e.func) == "len" and len(e.args) == 1:
            return chain(e.args[0])
        return None

    def fact_min(self, f: Fact, key: str) -> int:
        """Lower bound on len(key) implied by fact f (0 if none)."""
        if f.op == "truthy":
            if f.pos and chain(f.left) == key:
                return 1
            return 0
        if f.op == "lt":
            l, r = self._len_of(f.left), self._len_of(f.right)
            if l == key:
                n = self._const(f.right)
                if n is not None and not f.pos:
                    return n            # not (len < n)  => len >= n
            if r == key:
                n = self._const(f.left)
                if n is not None and f.pos:
                    return n + 1        # n < len
            return 0
        if f.op == "eq" and f.pos:
            l, r = self._len_of(f.left), self._len_of(f.right)
            if l == key and self._const(f.right) is not None:
                return self._const(f.right)
            if r == key and self._const(f.left) is not None:
                return self._const(f.left)
        return 0

    def min_len(self, e: ast.AST, site: ast.AST) -> tuple[int, list[str]]:
        e = strip_cast(e)
        used: list[str] = []
        if isinstance(e, ast.Subscript) and isinstance(e.slice, ast.Slice) and e.slice.step is None:
            lo = self._const(e.slice.lower) if e.slice.lower is not None else 0
            inner, used = self.min_len(e.value, site)
            if e.slice.upper is None and lo is not None and lo >= 0:
                return max(0, inner - lo), used
            up = self._const(e.slice.upper) if e.slice.upper is not None else None
            if up is not None and lo is not None and 0 <= lo <= up:
                return max(0, min(inner, up) - lo), used
            return 0, used
        key = chain(e)
        if key is None:
            return 0, used
        best = 0
        if isinstance(e, ast.Name) and e.id in self.param_min and not local_defs(self.fi, e.id):
            best = self.param_min[e.id]
            if best:
                used.append(f"caller guarantees len({key}) >= {best}")
        # a local alias of a slice:  y = x[a:]
        if isinstance(e, ast.Name):
            d = single_def(self.fi, e.id)
            if d is not None and d[1] is None and isinstance(strip_cast(d[0]), ast.Subscript):
                v, u = self.min_len(d[0], enclosing_stmt(d[0]))
                if v > best:
                    best, used = v, u
        site_nodes = self.cfg.nodes_for(site)
        kills = None
        for f in facts_at(self.cfg, site):
            m = self.fact_min(f, key)
            if m <= best:
                continue
            if kills is None:
                kills = self._kill_nodes(key)
            guard_nodes = self.cfg.by_ast.get(id(f.atom), [])
            stale = False
            if kills:
                starts = [v for k in kills for v, lab in k.succ]
                r = self.cfg.reach(starts, cut_nodes=guard_nodes)
                # kill node must itself come after the guard to matter
                after_guard = self.cfg.reach([v for g in guard_nodes for v, _ in g.succ])
                if any(s in r for s in site_nodes) and any(k in after_guard for k in kills):
                    stale = True
            if not stale:
                best = m
                used = [str(f)]
        return best, used

    # ---- sites
    def index_sites(self):
        """(subscript node, base expr, needed length) for constant-index reads of bytes values."""
        for n in walk_no_nested(self.fi.node):
            if isinstance(n, ast.Subscript) and isinstance(n.ctx, ast.Load) and not isinstance(n.slice, ast.Slice):
                idx = self._const(n.slice)
                if idx is None:
                    continue
                if self.typer.is_bytes(n.value):
                    yield n, n.value, (idx + 1 if idx >= 0 else -idx)

    def unpack_sites(self):
        for n in walk_no_nested(self.fi.node):
            if isinstance(n, ast.Call) and chain(n.func) in ("unpack_from", "struct.unpack_from") and len(n.args) >= 2:
                fmt = self.repo.resolve_const(self.fi.module, n.args[0], self.fi.cls)
                off = 0
                offe = n.args[2] if len(n.args) > 2 else next((k.value for k in n.keywords if k.arg == "offset"), None)
                if offe is not None:
                    off = self._const(offe)
                if isinstance(fmt, str) and off is not None:
                    try:
                        yield n, n.args[1], off + struct.calcsize(fmt)
                    except struct.error:
                        continue


def protected(node: ast.AST, fi: FuncInfo) -> bool:
    """Is the node inside the body of a try whose handlers catch Exception / everything?"""
    from .cfg import _catches_all
    cur = node
    p = parent(cur)
    while p is not None and cur is not fi.node:
        if isinstance(p, ast.Try) and any(cur is s for s in p.body) and any(_catches_all(h) for h in p.handlers):
            return True
        cur, p = p, parent(p)
    return False
