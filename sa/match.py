"""Semantic fingerprints: recognise calls, guards and def-use links without matching text or positions."""
from __future__ import annotations

import ast
from dataclasses import dataclass

from .cfg import CFG, Node
from .model import FuncInfo, chain, norm, strip_cast, walk_no_nested


# ------------------------------------------------------------------------------------ calls
def calls(fi_or_node, pattern=None, nested: bool = False):
    """Calls inside a function whose callee chain equals `pattern`, ends with '.'+pattern, or satisfies it."""
    node = fi_or_node.node if isinstance(fi_or_node, FuncInfo) else fi_or_node
    it = ast.walk(node) if nested else walk_no_nested(node)
    out = []
    for n in it:
        if isinstance(n, ast.Call):
            c = chain(n.func)
            if pattern is None or _match_chain(c, pattern):
                out.append(n)
    out.sort(key=lambda n: (n.lineno, n.col_offset))
    return out


def _match_chain(c: str | None, pattern) -> bool:
    if c is None:
        return False
    if callable(pattern):
        return bool(pattern(c))
    if isinstance(pattern, (list, tuple, set, frozenset)):
        return any(_match_chain(c, p) for p in pattern)
    return c == pattern or c.endswith("." + pattern)


def call_name(call: ast.Call) -> str | None:
    f = call.func
    return f.attr if isinstance(f, ast.Attribute) else f.id if isinstance(f, ast.Name) else None


def arg(call: ast.Call, index: int, name: str | None = None) -> ast.expr | None:
    if index is not None and index < len(call.args) and not any(isinstance(a, ast.Starred) for a in call.args[: index + 1]):
        return call.args[index]
    if name:
        for k in call.keywords:
            if k.arg == name:
                return k.value
    return None


def mentions(expr: ast.AST, pattern) -> bool:
    """Does expr contain a sub-expression whose chain matches pattern?"""
    for n in ast.walk(expr):
        if isinstance(n, (ast.Name, ast.Attribute, ast.Call, ast.Subscript)) and _match_chain(chain(n), pattern):
            return True
    return False


def names_in(expr: ast.AST) -> set[str]:
    return {n.id for n in ast.walk(expr) if isinstance(n, ast.Name)}


# ------------------------------------------------------------------------------------ def-use
def local_defs(fi: FuncInfo, name: str) -> list[tuple[ast.stmt, ast.expr | None, int | None]]:
    """
    Definitions of local `name` in fi: (stmt, value expr, tuple index or None).
    For-loop targets, with-as, except-as, walrus and augmented assignments are included with value None
    unless the value is directly known.
    """
    out = []
    for n in walk_no_nested(fi.node):
        if isinstance(n, ast.Assign):
            for t in n.targets:
                _collect_target(t, n, n.value, name, out)
        elif isinstance(n, ast.AnnAssign) and n.value is not None:
            _collect_target(n.target, n, n.value, name, out)
        elif isinstance(n, ast.AugAssign):
            if isinstance(n.target, ast.Name) and n.target.id == name:
                out.append((n, None, None))
        elif isinstance(n, (ast.For, ast.AsyncFor)):
            if name in names_in(n.target):
                out.append((n, None, None))
        elif isinstance(n, (ast.With, ast.AsyncWith)):
            for i in n.items:
                if i.optional_vars is not None and name in names_in(i.optional_vars):
                    out.append((n, None, None))
        elif isinstance(n, ast.NamedExpr):
            if n.target.id == name:
                from .model import enclosing_stmt
                out.append((enclosing_stmt(n), n.value, None))
        elif isinstance(n, ast.ExceptHandler):
            if n.name == name:
                out.append((n, None, None))
    return out


def _collect_target(t, stmt, value, name, out) -> None:
    if isinstance(t, ast.Name):
        if t.id == name:
            out.append((stmt, value, None))
    elif isinstance(t, (ast.Tuple, ast.List)):
        for i, e in enumerate(t.elts):
            if isinstance(e, ast.Name) and e.id == name:
                if isinstance(value, (ast.Tuple, ast.List)) and len(value.elts) == len(t.elts):
                    out.append((stmt, value.elts[i], None))
                else:
                    out.append((stmt, value, i))
            elif isinstance(e, ast.Starred) and isinstance(e.value, ast.Name) and e.value.id == name:
                out.append((stmt, value, i))


def is_param(fi: FuncInfo, name: str) -> bool:
    return name in fi.params()


def single_def(fi: FuncInfo, name: str):
    """(value, tuple_index) if `name` is a non-parameter local assigned exactly once, else None."""
    if is_param(fi, name):
        return None
    d = local_defs(fi, name)
    if len(d) == 1 and d[0][1] is not None:
        return d[0][1], d[0][2]
    return None


def resolve(fi: FuncInfo, expr: ast.AST, depth: int = 4) -> ast.AST:
    """Follow single-assignment local aliases: `x = self.t.get(k)` ... `x` -> the `get` call."""
    if expr is None:
        return None
    expr = strip_cast(expr)
    while depth > 0 and isinstance(expr, ast.Name):
        d = single_def(fi, expr.id)
        if d is None or d[1] is not None:
            break
        expr = strip_cast(d[0])
        depth -= 1
    return expr


def rchain(fi: FuncInfo, expr: ast.AST) -> str | None:
    """chain() after alias resolution of the base name(s)."""
    expr = strip_cast(expr)
    if isinstance(expr, ast.Name):
        r = resolve(fi, expr)
        return chain(r) if r is not expr else expr.id
    if isinstance(expr, ast.Attribute):
        b = rchain(fi, expr.value)
        return None if b is None else b + "." + expr.attr
    if isinstance(expr, ast.Call):
        b = rchain(fi, expr.func)
        return None if b is None else b + "()"
    if isinstance(expr, ast.Subscript):
        b = rchain(fi, expr.value)
        return None if b is None else b + "[]"
    return chain(expr)


# ------------------------------------------------------------------------------------ facts
@dataclass
class Fact:
    op: str            # truthy | eq | in | lt | is | isinstance
    left: ast.AST
    right: ast.AST | None
    pos: bool
    atom: ast.AST

    def __str__(self) -> str:
        if self.op == "truthy":
            return ("" if self.pos else "not ") + norm(self.left)
        sym = {"eq": ("==", "!="), "in": ("in", "not in"), "lt": ("<", ">="), "is": ("is", "is not")}[self.op]
        return f"{norm(self.left)} {sym[0] if self.pos else sym[1]} {norm(self.right)}"


def fact_of(atom: ast.AST, pol: bool) -> Fact:
    if isinstance(atom, ast.Compare) and len(atom.ops) == 1:
        l, op, r = atom.left, atom.ops[0], atom.comparators[0]
        if isinstance(op, ast.Eq):
            return Fact("eq", l, r, pol, atom)
        if isinstance(op, ast.NotEq):
            return Fact("eq", l, r, not pol, atom)
        if isinstance(op, ast.In):
            return Fact("in", l, r, pol, atom)
        if isinstance(op, ast.NotIn):
            return Fact("in", l, r, not pol, atom)
        if isinstance(op, ast.Is):
            return Fact("is", l, r, pol, atom)
        if isinstance(op, ast.IsNot):
            return Fact("is", l, r, not pol, atom)
        if isinstance(op, ast.Lt):
            return Fact("lt", l, r, pol, atom)
        if isinstance(op, ast.GtE):
            return Fact("lt", l, r, not pol, atom)
        if isinstance(op, ast.Gt):
            return Fact("lt", r, l, pol, atom)
        if isinstance(op, ast.LtE):
            return Fact("lt", r, l, not pol, atom)
    return Fact("truthy", atom, None, pol, atom)


def expr_context_facts(site: ast.AST) -> list[Fact]:
    """Facts implied by short-circuit evaluation around an expression (a and SITE, c if t else SITE, ...)."""
    from .model import parent
    out: list[Fact] = []
    cur = site
    p = parent(cur)
    while p is not None and isinstance(p, ast.expr):
        if isinstance(p, ast.BoolOp):
            idx = next((i for i, v in enumerate(p.values) if v is cur), None)
            if idx:
                for v in p.values[:idx]:
                    out.extend(_atoms_with_polarity(v, isinstance(p.op, ast.And)))
        elif isinstance(p, ast.IfExp):
            if cur is p.body:
                out.extend(_atoms_with_polarity(p.test, True))
            elif cur is p.orelse:
                out.extend(_atoms_with_polarity(p.test, False))
        elif isinstance(p, (ast.Lambda, ast.ListComp, ast.SetComp, ast.DictComp, ast.GeneratorExp)):
            break
        cur, p = p, parent(p)
    return out


def _atoms_with_polarity(e: ast.AST, pol: bool) -> list[Fact]:
    """e is known to be truthy (pol) / falsy (not pol): split into atom facts where that is sound."""
    if isinstance(e, ast.UnaryOp) and isinstance(e.op, ast.Not):
        return _atoms_with_polarity(e.operand, not pol)
    if isinstance(e, ast.BoolOp):
        if isinstance(e.op, ast.And) and pol:
            return [f for v in e.values for f in _atoms_with_polarity(v, True)]
        if isinstance(e.op, ast.Or) and not pol:
            return [f for v in e.values for f in _atoms_with_polarity(v, False)]
        return []
    if isinstance(e, ast.Compare) and len(e.ops) > 1 and pol:
        # a <= b <= c  truthy  =>  both links hold
        out = []
        left = e.left
        for op, right in zip(e.ops, e.comparators):
            out.append(fact_of(ast.Compare(left=left, ops=[op], comparators=[right]), True))
            left = right
        return out
    return [fact_of(e, pol)]


def facts_at(cfg: CFG, site: ast.AST | Node) -> list[Fact]:
    extra = [] if isinstance(site, Node) else expr_context_facts(site)
    return extra + _cfg_facts_at(cfg, site)


def _cfg_facts_at(cfg: CFG, site: ast.AST | Node) -> list[Fact]:
    nodes = [site] if isinstance(site, Node) else cfg.nodes_for(site)
    if not nodes:
        return []
    # facts common to all CFG copies of the site (finally duplication)
    per = []
    for n in nodes:
        if not cfg.reachable(n):
            continue
        per.append([(a, p) for a, p in cfg.facts_at(n)])
    if not per:
        return []
    common = [x for x in per[0] if all(any(x[0] is y[0] and x[1] == y[1] for y in other) for other in per[1:])]
    return [fact_of(a, p) for a, p in common if not isinstance(a, (ast.For, ast.AsyncFor, ast.While))]


def loop_facts(cfg: CFG, site: ast.AST) -> list[tuple[ast.AST, bool]]:
    nodes = cfg.nodes_for(site)
    out = []
    for n in nodes:
        for a, p in cfg.facts_at(n):
            if isinstance(a, (ast.For, ast.AsyncFor, ast.While)):
                out.append((a, p))
    return out


def has_fact(facts: list[Fact], pred) -> Fact | None:
    for f in facts:
        try:
            if pred(f):
                return f
        except Exception:  # noqa: BLE001
            continue
    return None


def same_expr(a: ast.AST, b: ast.AST) -> bool:
    return ast.dump(strip_cast(a)) == ast.dump(strip_cast(b))


def same_resolved(fi: FuncInfo, a: ast.AST, b: ast.AST) -> bool:
    if same_expr(a, b):
        return True
    ra, rb = rchain(fi, a), rchain(fi, b)
    if ra is not None and ra == rb:
        return True
    return same_expr(resolve(fi, a), resolve(fi, b))


def stmts_in_order(fi: FuncInfo):
    return sorted((n for n in walk_no_nested(fi.node) if isinstance(n, ast.stmt) and n is not fi.node),
                  key=lambda n: (n.lineno, n.col_offset))


def stores(fi_or_node, pattern) -> list[tuple[ast.stmt, ast.AST]]:
    """Statements that store into a target whose chain matches pattern (``self.t[]`` for subscripts)."""
    node = fi_or_node.node if isinstance(fi_or_node, FuncInfo) else fi_or_node
    out = []
    for n in walk_no_nested(node):
        targets = []
        if isinstance(n, ast.Assign):
            targets = n.targets
        elif isinstance(n, (ast.AugAssign, ast.AnnAssign)):
            targets = [n.target]
        elif isinstance(n, ast.Delete):
            targets = n.targets
        for t in targets:
            for e in (t.elts if isinstance(t, (ast.Tuple, ast.List)) else [t]):
                if _match_chain(chain(e), pattern):
                    out.append((n, e))
    return out


def unreachable_assuming(cfg: CFG, site, contradicts) -> bool:
    """
    True iff `site` cannot be reached from the function entry by paths that never take a condition edge whose fact
    contradicts an assumption: contradicts(Fact) -> bool is asked for every (atom, outcome) edge.  This decides guards
    written as one compound test (`if a and not b and not c: return`), which leave no single dominating atom fact.
    """
    nodes = cfg.nodes_for(site) if not isinstance(site, Node) else [site]

    def cut(u, v, lab):
        if u.kind in ("cond", "loop") and lab in (True, False) and u.ast is not None:
            return bool(contradicts(fact_of(u.ast, lab)))
        return False
    r = cfg.reach(cut_edge=cut)
    return not any(n in r for n in nodes)

