"""
Behaviour-preserving normalisation of /repo's syntax trees towards the shape of the reviewed tree, applied at load time
(before any rule runs).  Every rewrite here is a semantics-preserving program transformation, so a verdict about the
normalised function is a verdict about the original; the only thing these passes can change is how often a rule fails to
recognise a construct (false alarm / lost anchor) after a refactoring.

  1. inline_new_helpers   a function or method that the reviewed tree does not have (sa/tables/local_names.json,
                          "__all__") and that is only ever *called* is inlined at its call sites - "extract method"
                          undone.  Early returns are removed by nesting the remaining statements into the other branch
                          (no fake loops); a boolean helper used as an `if` test is inlined by control flow
                          (`return True` -> then-branch, `return False` -> else-branch).  Anything that cannot be
                          inlined exactly (returns inside loops/try, *args, generators, recursion) is left alone.
  2. (sa/localnames.recover)  locals renamed back to the reviewed spelling.
  3. eliminate_new_aliases  a local the reviewed tree does not have, assigned once from a pure expression and used only
                          where nothing could have changed that expression's value in between, is substituted -
                          "hoist into a local" undone.  A snapshot taken before an await/call/attribute store is NOT
                          substituted: that would change behaviour (and hide e.g. a stale-flag defect).
"""
from __future__ import annotations

import ast

from .model import clone as _clone

DUP_LIMIT = 12          # max statements duplicated by one control-flow inlining

PURE_CALLS = {"len", "isinstance", "hasattr", "getattr", "int", "bytes", "bool", "str", "tuple", "list", "set", "frozenset",
              "dict", "sorted", "min", "max", "abs", "hexlify", "unhexlify", "repr", "type", "id", "range", "enumerate", "zip",
              "sum", "any", "all"}
PURE_METHODS = {"get", "keys", "values", "items", "key_to_bin", "get_hash", "get_prefix", "copy", "startswith", "endswith",
                "encode", "decode", "hex", "bit_length", "to_database_tuple", "get_plaintext", "get_plaintext_signed",
                "union", "intersection", "difference", "issubset", "count", "index", "format", "join", "split", "strip",
                "time", "pub", "isdisjoint", "lower", "upper"}
LOG_ROOTS = {"logger", "logging", "_logger"}


# ------------------------------------------------------------------------------------------------ helpers

def _params(fn) -> list[ast.arg]:
    a = fn.args
    return a.posonlyargs + a.args + a.kwonlyargs


def _contains(node_or_list, types) -> bool:
    nodes = node_or_list if isinstance(node_or_list, list) else [node_or_list]
    for n in nodes:
        for x in ast.walk(n):
            if isinstance(x, types):
                return True
    return False


def _walk_no_nested(nodes):
    """nodes of a statement list, not entering nested function/class/lambda bodies"""
    stack = list(reversed(nodes if isinstance(nodes, list) else [nodes]))
    while stack:
        n = stack.pop()
        yield n
        for ch in ast.iter_child_nodes(n):
            if isinstance(ch, (ast.FunctionDef, ast.AsyncFunctionDef, ast.ClassDef, ast.Lambda)):
                continue
            stack.append(ch)


def _has_return(stmts) -> bool:
    return any(isinstance(x, ast.Return) for x in _walk_no_nested(stmts))


def _always_returns(stmts) -> bool:
    for st in stmts:
        if isinstance(st, (ast.Return, ast.Raise)):
            return True
        if isinstance(st, ast.If) and st.orelse and _always_returns(st.body) and _always_returns(st.orelse):
            return True
    return False


def _is_docstring(st) -> bool:
    return isinstance(st, ast.Expr) and isinstance(st.value, ast.Constant) and isinstance(st.value.value, str)


def _attr_names(e) -> set[str]:
    return {x.attr for x in ast.walk(e) if isinstance(x, ast.Attribute)}


def _simple_arg(e) -> bool:
    if isinstance(e, (ast.Name, ast.Constant)):
        return True
    if isinstance(e, ast.Attribute):
        return _simple_arg(e.value)
    return False


def _self_assign(st) -> bool:
    """`x = x` / `a, b = (a, b)` (left behind when a helper returned exactly the names the caller binds)"""
    if isinstance(st, ast.Assign) and len(st.targets) == 1:
        return ast.dump(st.targets[0]).replace("Store()", "Load()") == ast.dump(st.value)
    return False


class _Subst(ast.NodeTransformer):
    def __init__(self, mapping: dict[str, ast.expr], rename: dict[str, str]):
        self.mapping, self.rename = mapping, rename

    def visit_Name(self, n):
        if n.id in self.mapping and isinstance(n.ctx, ast.Load):
            return ast.copy_location(_clone(self.mapping[n.id]), n)
        if n.id in self.rename:
            n.id = self.rename[n.id]
        return n

    def visit_ExceptHandler(self, n):
        if n.name in self.rename:
            n.name = self.rename[n.name]
        return self.generic_visit(n)


# ------------------------------------------------------------------------------------------------ 1. inlining

def _const_truth(e):
    """True/False if e is a constant expression after folding, else None"""
    if isinstance(e, ast.Constant):
        return bool(e.value)
    if isinstance(e, ast.UnaryOp) and isinstance(e.op, ast.Not):
        t = _const_truth(e.operand)
        return None if t is None else not t
    return None


class _Fold(ast.NodeTransformer):
    def visit_IfExp(self, n):
        self.generic_visit(n)
        t = _const_truth(n.test)
        return n if t is None else (n.body if t else n.orelse)

    def visit_UnaryOp(self, n):
        self.generic_visit(n)
        t = _const_truth(n) if isinstance(n.op, ast.Not) else None
        return n if t is None else ast.copy_location(ast.Constant(t), n)

    def visit_BoolOp(self, n):
        self.generic_visit(n)
        vals = []
        for v in n.values:
            t = _const_truth(v)
            if t is None:
                vals.append(v)
            elif isinstance(n.op, ast.And) and not t:
                vals.append(v)
                break
            elif isinstance(n.op, ast.Or) and t:
                vals.append(v)
                break
            # a neutral constant (True in `and`, False in `or`) is dropped unless it is the last operand (it is then the value)
            elif v is n.values[-1]:
                vals.append(v)
        if len(vals) == 1:
            return vals[0]
        n.values = vals
        return n


def _fold_block(stmts):
    out = []
    for st in stmts:
        st = _Fold().visit(st)
        if isinstance(st, ast.If):
            t = _const_truth(st.test)
            st.body = _fold_block(st.body)
            st.orelse = _fold_block(st.orelse)
            if t is True:
                out.extend(st.body)
                continue
            if t is False:
                out.extend(st.orelse)
                continue
        else:
            for field in ("body", "orelse", "finalbody"):
                blk = getattr(st, field, None)
                if isinstance(blk, list) and blk and isinstance(blk[0], ast.stmt):
                    setattr(st, field, _fold_block(blk) or [ast.Pass()])
            if isinstance(st, ast.Try):
                for h in st.handlers:
                    h.body = _fold_block(h.body) or [ast.Pass()]
        out.append(st)
    return out


class _Helper:
    def __init__(self, node, cls: str | None, kind: str):
        self.node, self.cls, self.kind = node, cls, kind            # kind: method / static / classmethod / function
        self.body = [s for s in node.body if not _is_docstring(s)] or [ast.Pass()]
        self.is_async = isinstance(node, ast.AsyncFunctionDef)
        self.failed = False
        self.inlined = 0

    @property
    def single_expr(self):
        if len(self.body) == 1 and isinstance(self.body[0], ast.Return) and self.body[0].value is not None:
            return self.body[0].value
        return None


def _eligible(fn) -> bool:
    a = fn.args
    if a.vararg or a.kwarg:
        return False
    for d in fn.decorator_list:
        if not (isinstance(d, ast.Name) and d.id in ("staticmethod", "classmethod")):
            return False
    body = fn.body
    if _contains(body, (ast.Yield, ast.YieldFrom, ast.Global, ast.Nonlocal)):
        return False
    for x in _walk_no_nested(body):
        if isinstance(x, ast.Call):
            f = x.func
            if (isinstance(f, ast.Name) and f.id == fn.name) or (isinstance(f, ast.Attribute) and f.attr == fn.name):
                return False                      # recursive
            if isinstance(f, ast.Name) and f.id in ("locals", "vars", "super"):
                return False
    # nested defs inside a helper: leave alone
    if any(isinstance(x, (ast.FunctionDef, ast.AsyncFunctionDef, ast.ClassDef)) for s in body for x in ast.walk(s)):
        return False
    return True


class Inliner:
    def __init__(self, tree: ast.Module, known: set[str]):
        self.tree = tree
        self.helpers: dict[tuple[str | None, str], _Helper] = {}
        self.local_helpers: dict[str, _Helper] = {}       # new closures nested in the function being rewritten
        self.known = known
        self.count = 0
        for st in tree.body:
            if isinstance(st, (ast.FunctionDef, ast.AsyncFunctionDef)) and st.name not in known and _eligible(st):
                self.helpers[(None, st.name)] = _Helper(st, None, "function")
            elif isinstance(st, ast.ClassDef):
                for m in st.body:
                    if isinstance(m, (ast.FunctionDef, ast.AsyncFunctionDef)) and f"{st.name}.{m.name}" not in known and _eligible(m):
                        decs = [d.id for d in m.decorator_list if isinstance(d, ast.Name)]
                        kind = "static" if "staticmethod" in decs else "classmethod" if "classmethod" in decs else "method"
                        self.helpers[(st.name, m.name)] = _Helper(m, st.name, kind)
        # a helper that is referenced other than as the callee of a call cannot be removed / is not a pure extraction
        callee_ids = set()
        for x in ast.walk(tree):
            if isinstance(x, ast.Call):
                callee_ids.add(id(x.func))
        names = {k[1] for k in self.helpers}
        for x in ast.walk(tree):
            if isinstance(x, ast.Attribute) and x.attr in names and id(x) not in callee_ids:
                for k, h in self.helpers.items():
                    if k[1] == x.attr:
                        h.failed = True
            elif isinstance(x, ast.Name) and x.id in names and isinstance(x.ctx, ast.Load) and id(x) not in callee_ids:
                for k, h in self.helpers.items():
                    if k[1] == x.id and k[0] is None:
                        h.failed = True

    # ---- call recognition
    def _helper_of(self, call, cls: str | None):
        if not isinstance(call, ast.Call):
            return None, None
        f = call.func
        if isinstance(f, ast.Name):
            h = self.local_helpers.get(f.id) or self.helpers.get((None, f.id))
            return (h, None) if h else (None, None)
        if isinstance(f, ast.Attribute) and isinstance(f.value, ast.Name):
            recv = f.value.id
            if recv in ("self", "cls") and cls is not None:
                h = self.helpers.get((cls, f.attr))
                if h:
                    return h, (f.value if h.kind in ("method", "classmethod") else None)
            if (recv, f.attr) in self.helpers:
                h = self.helpers[(recv, f.attr)]
                if h.kind in ("static", "classmethod"):
                    return h, (f.value if h.kind == "classmethod" else None)
        return None, None

    def _bind(self, h: _Helper, call: ast.Call, recv, caller_names: set[str], keep: set[str]):
        """-> (prelude statements, substituted deep copy of body) or None"""
        params = _params(h.node)
        mapping: dict[str, ast.expr] = {}
        pre: list[ast.stmt] = []
        pnames = [p.arg for p in params]
        args = list(call.args)
        if any(isinstance(a, ast.Starred) for a in args) or any(k.arg is None for k in call.keywords):
            return None
        bound: dict[str, ast.expr] = {}
        idx = 0
        if recv is not None:
            if not pnames:
                return None
            bound[pnames[0]] = recv
            idx = 1
        npos = len(h.node.args.posonlyargs) + len(h.node.args.args)
        for a in args:
            if idx >= npos:
                return None
            bound[pnames[idx]] = a
            idx += 1
        for k in call.keywords:
            if k.arg not in pnames or k.arg in bound:
                return None
            bound[k.arg] = k.value
        # defaults
        pos = h.node.args.posonlyargs + h.node.args.args
        for p, d in zip(pos[len(pos) - len(h.node.args.defaults):], h.node.args.defaults):
            bound.setdefault(p.arg, d)
        for p, d in zip(h.node.args.kwonlyargs, h.node.args.kw_defaults):
            if d is not None:
                bound.setdefault(p.arg, d)
        if set(bound) != set(pnames):
            return None
        body = _clone(h.body)
        stored = {x.id for x in _walk_no_nested(body) if isinstance(x, ast.Name) and isinstance(x.ctx, (ast.Store, ast.Del))}
        stored |= {x.name for x in _walk_no_nested(body) if isinstance(x, ast.ExceptHandler) and x.name}
        uses: dict[str, int] = {}
        for x in ast.walk(ast.Module(body, [])):
            if isinstance(x, ast.Name) and isinstance(x.ctx, ast.Load):
                uses[x.id] = uses.get(x.id, 0) + 1
        rename: dict[str, str] = {}
        # attributes the helper itself (re)binds: an argument that reads one of them must be evaluated before the body runs
        stored_attrs = {x.attr for x in _walk_no_nested(body) if isinstance(x, ast.Attribute) and isinstance(x.ctx, (ast.Store, ast.Del))}
        for p in pnames:
            a = bound[p]
            if p in stored:                       # parameter reassigned in the helper: needs a real local
                new = p if (p not in caller_names or p in keep) else p + "_inl"
                if new != p:
                    rename[p] = new
                pre.append(ast.Assign([ast.Name(new, ast.Store())], _clone(a), lineno=call.lineno, col_offset=call.col_offset))
            elif (_simple_arg(a) and not (_attr_names(a) & stored_attrs)) or uses.get(p, 0) == 0 and _pure(a):
                # only names / attribute chains / constants are substituted: an arbitrary argument is evaluated once, at the call, before
                # the helper body - it gets a real local (the alias elimination removes it again where that is safe)
                if not (isinstance(a, ast.Name) and a.id == p):
                    mapping[p] = a
            else:
                new = p if (p not in caller_names or p in keep) else p + "_inl"
                if new != p:
                    rename[p] = new
                pre.append(ast.Assign([ast.Name(new, ast.Store())], _clone(a), lineno=call.lineno, col_offset=call.col_offset))
        for name in stored - set(pnames):
            if name in caller_names and name not in keep:
                rename[name] = name + "_inl"
        sub = _Subst(mapping, rename)
        body = [sub.visit(s) for s in body]
        if any(isinstance(v, ast.Constant) for v in mapping.values()):
            body = _fold_block(body)            # a flag parameter bound to a constant selects one branch of the merged helper
        return pre, body

    # ---- return elimination
    def _tailify(self, stmts, make_ret):
        """single-exit form: `return e` -> make_ret(e); statements after an early return move into the other branch"""
        out = []
        for i, st in enumerate(stmts):
            rest = stmts[i + 1:]
            if isinstance(st, ast.Return):
                out.extend(make_ret(st.value, st))
                return out
            if not _has_return([st]):
                out.append(st)
                continue
            if isinstance(st, ast.If):
                b_ret, e_ret = _always_returns(st.body), _always_returns(st.orelse)
                dup = (0 if b_ret else len(rest)) + (0 if e_ret else len(rest))
                if rest and not b_ret and not e_ret and dup > DUP_LIMIT:
                    return None
                nb = self._tailify(st.body + ([] if b_ret else _clone(rest)), make_ret)
                ne = self._tailify(st.orelse + ([] if e_ret else (rest if b_ret else _clone(rest))), make_ret)
                if nb is None or ne is None:
                    return None
                out.append(ast.copy_location(ast.If(st.test, nb or [ast.Pass()], ne), st))
                return out
            if isinstance(st, (ast.With, ast.AsyncWith)) and not rest:
                nb = self._tailify(st.body, make_ret)
                if nb is None:
                    return None
                st.body = nb or [ast.Pass()]
                out.append(st)
                return out
            return None
        return out

    def _cond_inline(self, stmts, then_b, else_b, budget):
        """control-flow inlining of a boolean helper: return True -> then_b, return False/None/end -> else_b"""
        def ret(value, at):
            if value is None or (isinstance(value, ast.Constant) and not value.value):
                blk = _clone(else_b)
            elif isinstance(value, ast.Constant) and value.value:
                blk = _clone(then_b)
            else:
                blk = [ast.copy_location(ast.If(value, _clone(then_b) or [ast.Pass()], _clone(else_b)), at)]
            budget[0] -= len(blk)
            return blk or [ast.Pass()]
        body = list(stmts)
        if not _always_returns(body):
            body = body + [ast.Return(None)]
        out = self._tailify(body, ret)
        if out is None or budget[0] < 0:
            return None
        return out

    # ---- rewriting one function
    def _rewrite_block(self, stmts: list, cls, caller, tail: bool) -> list:
        out: list = []
        for i, st in enumerate(stmts):
            last = tail and i == len(stmts) - 1
            new = self._rewrite_stmt(st, cls, caller, last)
            out.extend(x for x in new if not _self_assign(x))
        if stmts and not out:
            out.append(ast.copy_location(ast.Pass(), stmts[0]))
        return out

    def _caller_names(self, caller) -> set[str]:
        return {x.id for x in ast.walk(caller) if isinstance(x, ast.Name)} | {a.arg for a in _params(caller)}

    def _loads_after(self, caller, lineno: int) -> set[str]:
        return {x.id for x in ast.walk(caller) if isinstance(x, ast.Name) and isinstance(x.ctx, ast.Load) and (getattr(x, "lineno", 0) or 0) > lineno}

    def _unwrap(self, value):
        aw = isinstance(value, ast.Await)
        return (value.value if aw else value), aw

    def _try_expr_inline(self, node, cls):
        """replace calls to single-expression helpers anywhere inside node (expression substitution)"""
        inl = self

        class T(ast.NodeTransformer):
            def visit_Lambda(self, n):
                return n

            def visit_Await(self, n):
                self.generic_visit(n)
                h, recv = inl._helper_of(n.value, cls)
                if h and not h.failed and h.is_async and h.single_expr is not None and not _contains(h.single_expr, ast.Await):
                    r = inl._subst_expr(h, n.value, recv)
                    if r is not None:
                        return ast.copy_location(r, n)
                return n

            def visit_Call(self, n):
                self.generic_visit(n)
                h, recv = inl._helper_of(n, cls)
                if h and not h.failed and not h.is_async and h.single_expr is not None:
                    r = inl._subst_expr(h, n, recv)
                    if r is not None:
                        return ast.copy_location(r, n)
                return n
        return T().visit(node)

    def _subst_expr(self, h, call, recv):
        saved = h.body
        h.body = [ast.Return(h.single_expr)]
        b = self._bind(h, call, recv, set(), set())
        h.body = saved
        if b is None or b[0]:
            return None
        h.inlined += 1
        self.count += 1
        return b[1][0].value

    def _rewrite_stmt(self, st, cls, caller, tail: bool) -> list:
        # nested blocks first
        if isinstance(st, (ast.FunctionDef, ast.AsyncFunctionDef, ast.ClassDef)):
            return [st]
        for field in ("body", "orelse", "finalbody"):
            blk = getattr(st, field, None)
            if isinstance(blk, list) and blk and isinstance(blk[0], ast.stmt):
                setattr(st, field, self._rewrite_block(blk, cls, caller, tail and field in ("body", "orelse") and isinstance(st, (ast.If, ast.With, ast.AsyncWith))))
        if isinstance(st, ast.Try):
            for hd in st.handlers:
                hd.body = self._rewrite_block(hd.body, cls, caller, False)
        # expression-level substitution of one-line helpers (in the statement's own expressions only)
        for field, val in list(ast.iter_fields(st)):
            if isinstance(val, ast.expr):
                setattr(st, field, self._try_expr_inline(val, cls))
            elif isinstance(val, list) and val and isinstance(val[0], ast.expr):
                setattr(st, field, [self._try_expr_inline(v, cls) for v in val])
            elif isinstance(val, list) and val and isinstance(val[0], ast.withitem):
                for it in val:
                    it.context_expr = self._try_expr_inline(it.context_expr, cls)
        # statement-level inlining
        if isinstance(st, (ast.Expr, ast.Assign, ast.AnnAssign, ast.Return)) and st.value is not None:
            call, aw = self._unwrap(st.value)
            h, recv = self._helper_of(call, cls)
            if h and not h.failed and aw == h.is_async:
                r = self._inline_stmt(st, call, h, recv, cls, caller, tail)
                if r is not None:
                    h.inlined += 1
                    self.count += 1
                    return self._rewrite_block(r, cls, caller, tail)
                h.failed = True
            elif h:
                h.failed = True
        if isinstance(st, (ast.Expr, ast.Assign, ast.Return)) and st.value is not None:
            r = self._hoist_nested(st, cls, caller)
            if r is not None:
                return self._rewrite_block(r, cls, caller, tail)
        if isinstance(st, ast.If):
            r = self._inline_if(st, cls, caller)
            if r is not None:
                return self._rewrite_block(r, cls, caller, tail)
        # any remaining call to a helper means the helper must stay
        for x in ast.walk(st) if not isinstance(st, (ast.If, ast.For, ast.While, ast.With, ast.Try, ast.AsyncFor, ast.AsyncWith)) else self._own_exprs(st):
            h, _ = self._helper_of(x, cls)
            if h:
                h.failed = True
        return [st]

    @staticmethod
    def _own_exprs(st):
        for field, val in ast.iter_fields(st):
            vals = val if isinstance(val, list) else [val]
            for v in vals:
                if isinstance(v, ast.expr):
                    yield from ast.walk(v)
                elif isinstance(v, ast.withitem):
                    yield from ast.walk(v.context_expr)

    def _hoist_nested(self, st, cls, caller):
        """`f(a, helper(x), b)`: when everything evaluated before the helper call is side-effect free, the call is
        evaluated first anyway -> `t = helper(x); f(a, t, b)`"""
        top, _ = self._unwrap(st.value)
        if not isinstance(top, ast.Call):
            return None
        for i, a in enumerate(top.args):
            inner, aw = self._unwrap(a.value if isinstance(a, ast.Starred) else a)
            h, recv = self._helper_of(inner, cls)
            if not h or h.failed or aw != h.is_async or h.single_expr is not None:
                continue
            before = [top.func] + [x for x in top.args[:i]]
            if not all(_simple_arg(b) for b in before):
                continue
            rets = [x.value for x in _walk_no_nested(h.body) if isinstance(x, ast.Return)]
            names = {r.id for r in rets if isinstance(r, ast.Name)}
            tmp = names.pop() if len(names) == 1 and all(isinstance(r, ast.Name) for r in rets) else "_inl_ret"
            if tmp in self._caller_names(caller) and tmp != "_inl_ret":
                tmp = "_inl_ret"
            assign = ast.copy_location(ast.Assign([ast.Name(tmp, ast.Store())], a.value if isinstance(a, ast.Starred) else a), st)
            ref = ast.copy_location(ast.Name(tmp, ast.Load()), a)
            if isinstance(a, ast.Starred):
                a.value = ref
            else:
                top.args[i] = ref
            return [assign, st]
        return None

    def _inline_stmt(self, st, call, h, recv, cls, caller, tail):
        names = self._caller_names(caller)
        keep: set[str] = set()
        if isinstance(st, ast.Assign):
            for t in st.targets:
                keep |= {x.id for x in ast.walk(t) if isinstance(x, ast.Name)}
        # a helper local may reuse a caller name when the caller does not read that name after the call
        later = self._loads_after(caller, getattr(st, "end_lineno", None) or getattr(st, "lineno", 0) or 0)
        keep |= {n for n in names if n not in later and n not in {a.arg for a in _params(caller)}}
        b = self._bind(h, call, recv, names, keep)
        if b is None:
            return None
        pre, body = b
        if isinstance(st, ast.Return):
            return pre + body + ([] if _always_returns(body) else [ast.copy_location(ast.Return(None), st)])
        if not _has_return(body):
            if isinstance(st, ast.Expr):
                return pre + body
            val = ast.Constant(None)
            tg = st.targets if isinstance(st, ast.Assign) else [st.target]
            return pre + body + [ast.copy_location(ast.Assign(_clone(tg), val), st)]

        def make_ret(value, at):
            if isinstance(st, ast.Expr):
                if value is None or isinstance(value, (ast.Constant, ast.Name)):
                    return []
                return [ast.copy_location(ast.Expr(value), at)]
            tg = st.targets if isinstance(st, ast.Assign) else [st.target]
            return [ast.copy_location(ast.Assign(_clone(tg), value if value is not None else ast.Constant(None)), at)]
        if not _always_returns(body):
            body = body + [ast.Return(None)]
        if isinstance(st, ast.Expr) and tail:
            # the call is the caller's last statement: the helper's returns are the caller's returns
            for x in _walk_no_nested(body):
                if isinstance(x, ast.Return) and x.value is not None and not isinstance(x.value, ast.Constant):
                    x.value = None
            return pre + body
        out = self._tailify(body, make_ret)
        if out is None:
            return None
        return pre + (out or [ast.Pass()])

    def _inline_if(self, st: ast.If, cls, caller):
        test = st.test
        neg = False
        while isinstance(test, ast.UnaryOp) and isinstance(test.op, ast.Not):
            test, neg = test.operand, not neg
        if isinstance(test, ast.BoolOp):
            # split so that a helper call becomes the whole test of an If
            if not any(self._helper_of(self._unwrap(self._strip_not(v))[0], cls)[0] for v in test.values):
                return None
            is_and = isinstance(test.op, ast.And) != neg           # not (a or b) == (not a and not b)
            vals = [(ast.UnaryOp(ast.Not(), v) if neg else v) for v in test.values]
            budget = DUP_LIMIT
            then_b, else_b = st.body, st.orelse
            cur = None
            for v in reversed(vals):
                if cur is None:
                    cur = ast.copy_location(ast.If(v, then_b, else_b), st)
                elif is_and:
                    budget -= len(else_b)
                    cur = ast.copy_location(ast.If(v, [cur], _clone(else_b)), st)
                else:
                    budget -= len(then_b)
                    cur = ast.copy_location(ast.If(v, _clone(then_b), [cur]), st)
            if budget < 0:
                return None
            return [cur]
        call, aw = self._unwrap(test)
        h, recv = self._helper_of(call, cls)
        if not h or h.failed or aw != h.is_async:
            return None
        names = self._caller_names(caller)
        later = self._loads_after(caller, getattr(st, "lineno", 0) or 0)
        keep = {n for n in names if n not in later and n not in {a.arg for a in _params(caller)}}
        b = self._bind(h, call, recv, names, keep)
        if b is None:
            h.failed = True
            return None
        pre, body = b
        then_b, else_b = (st.orelse, st.body) if neg else (st.body, st.orelse)
        out = self._cond_inline(body, then_b, else_b, [DUP_LIMIT])
        if out is None:
            h.failed = True
            return None
        h.inlined += 1
        self.count += 1
        return pre + out

    @staticmethod
    def _strip_not(v):
        while isinstance(v, ast.UnaryOp) and isinstance(v.op, ast.Not):
            v = v.operand
        return v

    # ---- driver
    def run(self) -> int:
        if not self.helpers:
            return 0
        for _round in range(3):
            before = self.count
            for st in self.tree.body:
                if isinstance(st, (ast.FunctionDef, ast.AsyncFunctionDef)):
                    self._rewrite_func(st, None)
                elif isinstance(st, ast.ClassDef):
                    for m in st.body:
                        if isinstance(m, (ast.FunctionDef, ast.AsyncFunctionDef)):
                            self._rewrite_func(m, st.name)
            if self.count == before:
                break
        # drop helpers that were inlined everywhere
        removed = 0
        for (cls, name), h in self.helpers.items():
            if h.failed or not h.inlined or not name.startswith("_") or name in getattr(self, "external", ()):
                continue          # a public name, or a name another file calls, may be used from outside this module: its definition stays
            if self._still_called(name):
                continue
            owner = self.tree if cls is None else next(c for c in self.tree.body if isinstance(c, ast.ClassDef) and c.name == cls)
            owner.body = [s for s in owner.body if s is not h.node] or [ast.Pass()]
            removed += 1
        ast.fix_missing_locations(self.tree)
        return self.count

    def _still_called(self, name: str) -> bool:
        for x in ast.walk(self.tree):
            if isinstance(x, ast.Call):
                f = x.func
                if (isinstance(f, ast.Name) and f.id == name) or (isinstance(f, ast.Attribute) and f.attr == name):
                    return True
        return False

    def _rewrite_func(self, fn, cls):
        # a NEW closure defined directly in fn's body and only ever called there is inlined like a helper: it reads fn's locals at call
        # time, exactly what the inlined statements do (closures that rebind outer names - nonlocal - are not eligible)
        qual = f"{cls + '.' if cls else ''}{fn.name}"
        self.local_helpers = {}
        for st in fn.body:
            if isinstance(st, (ast.FunctionDef, ast.AsyncFunctionDef)) and f"{qual}.{st.name}" not in self.known and _eligible(st) \
                    and not st.decorator_list:
                callee_ids = {id(x.func) for x in ast.walk(fn) if isinstance(x, ast.Call)}
                escapes = any(isinstance(x, ast.Name) and x.id == st.name and isinstance(x.ctx, ast.Load) and id(x) not in callee_ids for x in ast.walk(fn))
                stores_outer = False
                if not escapes and not stores_outer:
                    self.local_helpers[st.name] = _Helper(st, None, "function")
        # nested functions (decorator wrappers etc.) are rewritten with themselves as the caller
        fn.body = self._rewrite_block(fn.body, cls, fn, True)
        for name, h in self.local_helpers.items():
            if h.inlined and not h.failed and not any(isinstance(x, ast.Call) and isinstance(x.func, ast.Name) and x.func.id == name for x in ast.walk(fn)):
                fn.body = [s for s in fn.body if s is not h.node] or [ast.Pass()]
        self.local_helpers = {}
        for x in fn.body:
            for sub in ast.walk(x):
                if isinstance(sub, (ast.FunctionDef, ast.AsyncFunctionDef)) and sub is not fn:
                    sub.body = self._rewrite_block(sub.body, cls, sub, True)


def inline_new_helpers(tree: ast.Module, known_functions: set[str], external_calls: set[str] | None = None) -> int:
    inl = Inliner(tree, known_functions)
    inl.external = external_calls or set()
    # a method that any other class also defines may be an overridable hook: `self.m()` then does not denote this body
    by_name: dict[str, set] = {}
    for st in tree.body:
        if isinstance(st, ast.ClassDef):
            for m in st.body:
                if isinstance(m, (ast.FunctionDef, ast.AsyncFunctionDef)):
                    by_name.setdefault(m.name, set()).add(st.name)
    for (cls, name), h in inl.helpers.items():
        if cls is not None and (len(by_name.get(name, ())) > 1 or ("def " + name) in inl.external):
            h.failed = True
    return inl.run()


# ------------------------------------------------------------------------------------------------ 2b. contextlib.suppress

def _suppress_names(tree: ast.Module) -> tuple[set[str], set[str]]:
    """-> (local names bound to contextlib.suppress, local names bound to the contextlib module)"""
    direct: set[str] = set()
    mods: set[str] = set()
    for x in ast.walk(tree):
        if isinstance(x, ast.ImportFrom) and x.module == "contextlib" and x.level == 0:
            for a in x.names:
                if a.name == "suppress":
                    direct.add(a.asname or a.name)
        elif isinstance(x, ast.Import):
            for a in x.names:
                if a.name == "contextlib":
                    mods.add(a.asname or a.name)
    # a rebinding of the name anywhere makes it unreliable
    for x in ast.walk(tree):
        if isinstance(x, ast.Name) and isinstance(x.ctx, (ast.Store, ast.Del)) and (x.id in direct or x.id in mods):
            direct.discard(x.id)
            mods.discard(x.id)
        elif isinstance(x, (ast.FunctionDef, ast.AsyncFunctionDef, ast.ClassDef)) and (x.name in direct or x.name in mods):
            direct.discard(x.name)
            mods.discard(x.name)
        elif isinstance(x, ast.arg) and (x.arg in direct or x.arg in mods):
            direct.discard(x.arg)
            mods.discard(x.arg)
    return direct, mods


def _suppressed_types(item: ast.withitem, direct: set[str], mods: set[str]):
    """the exception classes of `suppress(E, ..)` when the with-item is exactly that, else None"""
    e = item.context_expr
    if item.optional_vars is not None or not isinstance(e, ast.Call) or e.keywords or not e.args:
        return None
    f = e.func
    ok = (isinstance(f, ast.Name) and f.id in direct) or \
         (isinstance(f, ast.Attribute) and f.attr == "suppress" and isinstance(f.value, ast.Name) and f.value.id in mods)
    if not ok:
        return None
    for a in e.args:
        # only plain references: their evaluation has no effect, so moving it from block entry to the handler is not observable
        x = a
        while isinstance(x, ast.Attribute):
            x = x.value
        if not isinstance(x, ast.Name):
            return None
    return list(e.args)


class _Suppress(ast.NodeTransformer):
    def __init__(self, direct, mods):
        self.direct, self.mods, self.count = direct, mods, 0

    def visit_With(self, node: ast.With):
        self.generic_visit(node)
        for i, item in enumerate(node.items):
            types = _suppressed_types(item, self.direct, self.mods)
            if types is None:
                continue
            # `with a, suppress(E), b: B`  ==  `with a: try: (with b: B) except E: pass`
            inner = node.body if i == len(node.items) - 1 else [ast.copy_location(ast.With(items=node.items[i + 1:], body=node.body), node)]
            typ = types[0] if len(types) == 1 else ast.copy_location(ast.Tuple(elts=types, ctx=ast.Load()), types[0])
            handler = ast.copy_location(ast.ExceptHandler(type=typ, name=None, body=[ast.copy_location(ast.Pass(), node)]), node)
            tr = ast.copy_location(ast.Try(body=inner, handlers=[handler], orelse=[], finalbody=[]), node)
            self.count += 1
            if i == 0:
                return self.visit(tr) if i < len(node.items) - 1 else tr
            outer = ast.copy_location(ast.With(items=node.items[:i], body=[self.visit(tr) if i < len(node.items) - 1 else tr]), node)
            return outer
        return node


def desugar_suppress(tree: ast.Module) -> int:
    """`with contextlib.suppress(E): B` -> `try: B / except E: pass` (what the context manager does; the flow graph has no edge for it)"""
    direct, mods = _suppress_names(tree)
    if not direct and not mods:
        return 0
    t = _Suppress(direct, mods)
    t.visit(tree)
    if t.count:
        ast.fix_missing_locations(tree)
    return t.count


# ------------------------------------------------------------------------------------------------ 3. alias elimination

def _pure(e) -> bool:
    for x in ast.walk(e):
        if isinstance(x, (ast.Await, ast.Yield, ast.YieldFrom, ast.NamedExpr, ast.Lambda, ast.ListComp, ast.SetComp, ast.DictComp,
                          ast.GeneratorExp, ast.Starred)):
            return False
        if isinstance(x, ast.Call):
            f = x.func
            if isinstance(f, ast.Name) and f.id in PURE_CALLS:
                continue
            if isinstance(f, ast.Attribute) and f.attr in PURE_METHODS:
                continue
            return False
    return True


def _inert(node, names: set[str]) -> bool:
    """node (a statement or expression lying between the definition and a use) cannot change the aliased expression"""
    for x in ast.walk(node):
        if isinstance(x, (ast.Await, ast.Yield, ast.YieldFrom)):
            return False
        if isinstance(x, ast.Call):
            f = x.func
            if isinstance(f, ast.Name) and f.id in PURE_CALLS:
                continue
            if isinstance(f, ast.Attribute):
                root = f
                while isinstance(root, ast.Attribute):
                    root = root.value
                if f.attr in PURE_METHODS:
                    continue
                if isinstance(f.value, ast.Attribute) and f.value.attr in LOG_ROOTS or (isinstance(f.value, ast.Name) and f.value.id in LOG_ROOTS):
                    continue
            return False
        if isinstance(x, (ast.Attribute, ast.Subscript)) and isinstance(x.ctx, (ast.Store, ast.Del)):
            return False
        if isinstance(x, ast.Name) and isinstance(x.ctx, (ast.Store, ast.Del)) and x.id in names:
            return False
    return True


_ORDER: dict[int, tuple[int, int]] = {}


def _number(fn) -> None:
    """structural (source-order) numbering of fn's nodes: line numbers are useless after inlining, where copied statements keep the
    positions of the helper they came from"""
    _ORDER.clear()
    counter = [0]

    def visit(n):
        start = counter[0]
        counter[0] += 1
        for ch in ast.iter_child_nodes(n):
            if isinstance(ch, (ast.expr_context, ast.operator, ast.unaryop, ast.boolop, ast.cmpop)):
                continue
            visit(ch)
        _ORDER[id(n)] = (start, counter[0] - 1)
    visit(fn)


def _pos(n):
    return _ORDER.get(id(n), (0, 0))[0]


def _end(n):
    return _ORDER.get(id(n), (0, 0))[1]


def eliminate_new_aliases(fn, known_locals: set[str], local_names: set[str]) -> int:
    """fn: FunctionDef; known_locals: locals of the reviewed function; local_names: symtable locals of fn"""
    done = 0
    for _round in range(6):
        changed = False
        new = local_names - known_locals
        if not new:
            break
        _number(fn)
        # binding sites
        binds: dict[str, list] = {}
        for x in _walk_no_nested(fn.body):
            if isinstance(x, ast.Name) and isinstance(x.ctx, (ast.Store, ast.Del)) and x.id in new:
                binds.setdefault(x.id, []).append(x)
            elif isinstance(x, ast.ExceptHandler) and x.name in new:
                binds.setdefault(x.name, []).append(x)
        # names used in nested scopes are left alone
        nested_used: set[str] = set()
        for x in ast.walk(fn):
            if isinstance(x, (ast.FunctionDef, ast.AsyncFunctionDef, ast.Lambda, ast.ListComp, ast.SetComp, ast.DictComp, ast.GeneratorExp)) and x is not fn:
                nested_used |= {y.id for y in ast.walk(x) if isinstance(y, ast.Name)}
        for name in sorted(new):
            b = binds.get(name, [])
            if len(b) != 1 or name in nested_used:
                continue
            holder = _find_assign(fn, b[0])
            if holder is None:
                continue
            block, idx, stmt = holder
            value = stmt.value
            if value is None:
                continue
            uses = [x for x in _walk_no_nested(fn.body) if isinstance(x, ast.Name) and x.id == name and isinstance(x.ctx, ast.Load)]
            if not uses:
                continue
            if not _pure(value):
                # an impure value used exactly once, in the next statement, before anything else is evaluated there
                nxt = block[idx + 1] if idx + 1 < len(block) else None
                if not (len(uses) == 1 and nxt is not None and not isinstance(nxt, (ast.For, ast.While, ast.AsyncFor, ast.Try, ast.With, ast.AsyncWith))
                        and any(x is uses[0] for x in ast.walk(nxt))
                        and all(_is_ancestor(y, uses[0]) or _simple_arg(y) or isinstance(y, (ast.expr_context, ast.operator, ast.unaryop, ast.boolop, ast.cmpop))
                                or _pos(y) > _pos(uses[0]) or isinstance(y, ast.Starred)
                                for y in ast.walk(nxt) if id(y) in _ORDER and y is not nxt and _pos(y) <= _pos(uses[0]) and y is not uses[0])):
                    continue
                if isinstance(nxt, ast.If) and not any(x is uses[0] for x in ast.walk(nxt.test)):
                    continue
                if _conditionally_evaluated(nxt, uses[0]):
                    continue          # `ok and r`: substituting would make the impure call conditional
            # every use must lie in the statements that follow the definition inside its own block
            following = block[idx + 1:]
            region = {id(y) for s in following for y in ast.walk(s)}
            if not all(id(u) in region for u in uses):
                continue
            last = max(uses, key=_pos)
            vnames = {y.id for y in ast.walk(value) if isinstance(y, ast.Name)}
            ok = True
            for s in following:
                if _pos(s) > _pos(last):
                    break
                if _end(s) < _pos(last):
                    # a statement wholly before the last use
                    if not _inert(s, vnames):
                        ok = False
                        break
                else:
                    # the statement that contains the last use: everything in it that is evaluated before the use
                    for y in ast.walk(s):
                        if isinstance(y, ast.stmt) or id(y) not in _ORDER:
                            continue
                        if _pos(y) < _pos(last) and isinstance(y, (ast.Await, ast.Call)) and not _inert(y, vnames) and not _is_ancestor(y, last):
                            ok = False
                            break
                    # compound statement: nested statements before the use
                    for y in ast.walk(s):
                        if isinstance(y, ast.stmt) and y is not s:
                            if _end(y) < _pos(last) and not _inert(y, vnames):
                                ok = False
                                break
                    break
            if not ok:
                continue
            # a definition inside a loop whose uses are fine; a use inside a loop that follows the definition re-reads the
            # expression on every iteration: only allowed if the loop body is inert too
            for s in following:
                for y in ast.walk(s):
                    if isinstance(y, (ast.For, ast.While, ast.AsyncFor)) and any(id(u) in {id(z) for z in ast.walk(y)} for u in uses):
                        if not all(_inert(z, vnames) for z in y.body):
                            ok = False
            if not ok:
                continue
            sub = _Subst({name: value}, {})
            for j in range(idx + 1, len(block)):
                block[j] = sub.visit(block[j])
            del block[idx]
            if not block:
                block.append(ast.Pass())
            local_names = local_names - {name}
            changed = True
            done += 1
            break
        if not changed:
            break
    if done:
        ast.fix_missing_locations(fn)
    return done


def _conditionally_evaluated(stmt, use) -> bool:
    """use sits in a short-circuited / lazily evaluated position of stmt (right operand of and/or, a branch of a
    conditional expression, a comprehension or lambda body)"""
    def walk(node, cond):
        if node is use:
            return cond
        for field, val in ast.iter_fields(node):
            vals = val if isinstance(val, list) else [val]
            for i, v in enumerate(vals):
                if not isinstance(v, ast.AST):
                    continue
                c = cond
                if isinstance(node, ast.BoolOp) and field == "values" and i > 0:
                    c = True
                elif isinstance(node, ast.IfExp) and field in ("body", "orelse"):
                    c = True
                elif isinstance(node, (ast.Lambda, ast.ListComp, ast.SetComp, ast.DictComp, ast.GeneratorExp)):
                    c = True
                r = walk(v, c)
                if r is not None:
                    return r
        return None
    return bool(walk(stmt, False))


def _is_ancestor(a, b) -> bool:
    return any(x is b for x in ast.walk(a))


def _find_assign(fn, target_name_node):
    """(block list, index, stmt) of the plain `name = value` statement that owns target_name_node"""
    stack = [fn.body]
    while stack:
        block = stack.pop()
        for i, st in enumerate(block):
            if isinstance(st, ast.Assign) and len(st.targets) == 1 and st.targets[0] is target_name_node:
                return block, i, st
            if isinstance(st, ast.AnnAssign) and st.target is target_name_node and st.value is not None:
                return block, i, st
            if isinstance(st, (ast.FunctionDef, ast.AsyncFunctionDef, ast.ClassDef)):
                continue
            for field in ("body", "orelse", "finalbody"):
                b = getattr(st, field, None)
                if isinstance(b, list) and b and isinstance(b[0], ast.stmt):
                    stack.append(b)
            if isinstance(st, ast.Try):
                for h in st.handlers:
                    stack.append(h.body)
    return None


# ------------------------------------------------------------------------------------------------ walrus hoisting

def _first_evaluated_walrus(test):
    """the NamedExpr that is evaluated first and unconditionally when `test` is evaluated, else None"""
    e = test
    while True:
        if isinstance(e, ast.NamedExpr):
            return e
        if isinstance(e, ast.UnaryOp):
            e = e.operand
        elif isinstance(e, ast.Compare):
            e = e.left
        elif isinstance(e, ast.BoolOp):
            e = e.values[0]
        elif isinstance(e, ast.Attribute):
            e = e.value
        elif isinstance(e, ast.Subscript):
            e = e.value
        elif isinstance(e, ast.Call) and isinstance(e.func, ast.Attribute):
            e = e.func.value
        else:
            return None


class _ReplaceNode(ast.NodeTransformer):
    def __init__(self, old, new):
        self.old, self.new = old, new

    def visit(self, node):
        if node is self.old:
            return self.new
        return self.generic_visit(node)


def hoist_walrus(tree: ast.Module) -> int:
    """`if (x := E) is not None:` -> `x = E` followed by `if x is not None:` (same evaluation order, same binding)"""
    n = 0

    def block(stmts):
        nonlocal n
        out = []
        for st in stmts:
            for field in ("body", "orelse", "finalbody"):
                blk = getattr(st, field, None)
                if isinstance(blk, list) and blk and isinstance(blk[0], ast.stmt):
                    setattr(st, field, block(blk))
            if isinstance(st, ast.Try):
                for h in st.handlers:
                    h.body = block(h.body)
            target = None
            if isinstance(st, ast.If):
                target = "test"
            elif isinstance(st, (ast.Return, ast.Expr, ast.Assign)) and st.value is not None:
                target = "value"
            while target is not None:
                w = _first_evaluated_walrus(getattr(st, target))
                if w is None or not isinstance(w.target, ast.Name):
                    break
                out.append(ast.copy_location(ast.Assign([ast.Name(w.target.id, ast.Store())], w.value), st))
                setattr(st, target, _ReplaceNode(w, ast.copy_location(ast.Name(w.target.id, ast.Load()), w)).visit(getattr(st, target)))
                n += 1
            out.append(st)
        return out

    for node in ast.walk(tree):
        if isinstance(node, (ast.FunctionDef, ast.AsyncFunctionDef)):
            node.body = block(node.body)
    if n:
        ast.fix_missing_locations(tree)
    return n


# ------------------------------------------------------------------------------------------------ match -> if/elif

def _named_fields(tree: ast.Module) -> dict[str, list[str]]:
    """positional pattern order of classes defined in this module: annotated fields of NamedTuple / dataclass bodies, or __match_args__"""
    out: dict[str, list[str]] = {}
    for st in ast.walk(tree):
        if isinstance(st, ast.ClassDef):
            ma = [x for x in st.body if isinstance(x, ast.Assign) and any(isinstance(t, ast.Name) and t.id == "__match_args__" for t in x.targets)]
            if ma and isinstance(ma[0].value, (ast.Tuple, ast.List)) and all(isinstance(e, ast.Constant) for e in ma[0].value.elts):
                out[st.name] = [e.value for e in ma[0].value.elts]
                continue
            is_nt = any((isinstance(b, ast.Name) and b.id == "NamedTuple") or (isinstance(b, ast.Attribute) and b.attr == "NamedTuple") for b in st.bases)
            is_dc = any((isinstance(d, ast.Name) and d.id == "dataclass") or (isinstance(d, ast.Call) and isinstance(d.func, ast.Name) and d.func.id == "dataclass")
                        or (isinstance(d, ast.Attribute) and d.attr == "dataclass") for d in st.decorator_list)
            if is_nt or is_dc:
                out[st.name] = [x.target.id for x in st.body if isinstance(x, ast.AnnAssign) and isinstance(x.target, ast.Name)]
        elif isinstance(st, ast.Assign) and isinstance(st.value, ast.Call) and isinstance(st.value.func, ast.Name) and st.value.func.id in ("namedtuple", "NamedTuple") \
                and len(st.targets) == 1 and isinstance(st.targets[0], ast.Name) and len(st.value.args) >= 2:
            f = st.value.args[1]
            if isinstance(f, (ast.List, ast.Tuple)):
                names = []
                for e in f.elts:
                    if isinstance(e, ast.Constant) and isinstance(e.value, str):
                        names.append(e.value)
                    elif isinstance(e, ast.Tuple) and e.elts and isinstance(e.elts[0], ast.Constant):
                        names.append(e.elts[0].value)
                out[st.targets[0].id] = names
            elif isinstance(f, ast.Constant) and isinstance(f.value, str):
                out[st.targets[0].id] = f.value.replace(",", " ").split()
    return out


def _pattern(pat, subj, fields) -> tuple[ast.expr | None, list[tuple[str, ast.expr]]] | None:
    """(condition or None for always, captures) for a pattern matched against the simple expression subj; None = not expressible exactly"""
    T = ast.Constant(True)
    if isinstance(pat, ast.MatchValue):
        return ast.Compare(_clone(subj), [ast.Eq()], [pat.value]), []
    if isinstance(pat, ast.MatchSingleton):
        return ast.Compare(_clone(subj), [ast.Is()], [ast.Constant(pat.value)]), []
    if isinstance(pat, ast.MatchAs):
        if pat.pattern is None:
            return None if False else (None, [(pat.name, _clone(subj))] if pat.name else [])
        r = _pattern(pat.pattern, subj, fields)
        if r is None:
            return None
        return r[0], r[1] + ([(pat.name, _clone(subj))] if pat.name else [])
    if isinstance(pat, ast.MatchOr):
        conds = []
        for p in pat.patterns:
            r = _pattern(p, subj, fields)
            if r is None or r[1]:
                return None
            if r[0] is None:
                return None, []
            conds.append(r[0])
        return ast.BoolOp(ast.Or(), conds), []
    if isinstance(pat, ast.MatchSequence) and isinstance(subj, ast.Tuple) and len(subj.elts) == len(pat.patterns) \
            and not any(isinstance(p, ast.MatchStar) for p in pat.patterns):
        conds, caps = [], []
        for p, e in zip(pat.patterns, subj.elts):
            r = _pattern(p, e, fields)
            if r is None:
                return None
            if r[0] is not None:
                conds.append(r[0])
            caps += r[1]
        return (ast.BoolOp(ast.And(), conds) if len(conds) > 1 else conds[0] if conds else None), caps
    if isinstance(pat, ast.MatchClass) and isinstance(pat.cls, (ast.Name, ast.Attribute)):
        cname = pat.cls.id if isinstance(pat.cls, ast.Name) else pat.cls.attr
        names = list(pat.kwd_attrs)
        subs = list(pat.kwd_patterns)
        if pat.patterns:
            order = fields.get(cname)
            if order is None or len(pat.patterns) > len(order):
                return None
            names = order[:len(pat.patterns)] + names
            subs = list(pat.patterns) + subs
        conds = [ast.Call(ast.Name("isinstance", ast.Load()), [_clone(subj), _clone(pat.cls)], [])]
        caps = []
        for n, p in zip(names, subs):
            r = _pattern(p, ast.Attribute(_clone(subj), n, ast.Load()), fields)
            if r is None:
                return None
            if r[0] is not None:
                conds.append(r[0])
            caps += r[1]
        return (ast.BoolOp(ast.And(), conds) if len(conds) > 1 else conds[0]), caps
    return None


def desugar_match(tree: ast.Module) -> int:
    """`match` statements whose patterns are values / singletons / captures / wildcards / or-patterns / fixed tuples over a tuple display /
    class patterns over attributes become the if/elif chain Python executes for them (first matching case wins, no case = fall through)"""
    fields = _named_fields(tree)
    n = 0

    def simple(e) -> bool:
        return _simple_arg(e) or (isinstance(e, ast.Tuple) and all(_simple_arg(x) for x in e.elts))

    def block(stmts):
        nonlocal n
        out = []
        for st in stmts:
            for field in ("body", "orelse", "finalbody"):
                blk = getattr(st, field, None)
                if isinstance(blk, list) and blk and isinstance(blk[0], ast.stmt):
                    setattr(st, field, block(blk))
            if isinstance(st, ast.Try):
                for h in st.handlers:
                    h.body = block(h.body)
            if isinstance(st, ast.Match):
                for c in st.cases:
                    c.body = block(c.body)
                pre = []
                subj = st.subject
                if not simple(subj):
                    pre.append(ast.copy_location(ast.Assign([ast.Name("_match_subject", ast.Store())], subj), st))
                    subj = ast.Name("_match_subject", ast.Load())
                arms = []
                ok = True
                for c in st.cases:
                    r = _pattern(c.pattern, subj, fields)
                    if r is None:
                        ok = False
                        break
                    cond, caps = r
                    if c.guard is not None and caps:
                        ok = False           # the guard reads the captures: binding them first would need a nested scope
                        break
                    if c.guard is not None:
                        cond = c.guard if cond is None else ast.BoolOp(ast.And(), [cond, c.guard])
                    body = [ast.copy_location(ast.Assign([ast.Name(k, ast.Store())], v), c.body[0]) for k, v in caps] + c.body
                    arms.append((cond, body))
                if ok and arms:
                    chain: list = []
                    for cond, body in reversed(arms):
                        if cond is None:
                            chain = body
                        else:
                            chain = [ast.copy_location(ast.If(cond, body, chain), st)]
                    out.extend(pre + chain)
                    n += 1
                    continue
                if pre:
                    st.subject = pre[0].value
            out.append(st)
        return out

    for node in ast.walk(tree):
        if isinstance(node, (ast.FunctionDef, ast.AsyncFunctionDef)):
            node.body = block(node.body)
    if n:
        ast.fix_missing_locations(tree)
    return n


# ------------------------------------------------------------------------------------------------ decision threading

def _tag_const(e) -> str | None:
    """a value that identifies itself: literal constant or Enum-like dotted name"""
    if isinstance(e, ast.Constant):
        return "c:" + repr(e.value)
    if isinstance(e, ast.Attribute) and isinstance(e.value, ast.Name) and e.value.id[:1] in "_ABCDEFGHIJKLMNOPQRSTUVWXYZ" and e.attr.isupper():
        return f"e:{e.value.id}.{e.attr}"
    return None


def _tags_differ(a: str, b: str) -> bool | None:
    if a == b:
        return False
    if a[0] == "c" and b[0] == "c":
        return True
    if a[0] == "e" and b[0] == "e" and a.split(".")[0] == b.split(".")[0]:
        return True                      # two members of the same enumeration
    if {a[0], b[0]} == {"c", "e"} and (a == "c:None" or b == "c:None"):
        return True
    return None


def _eval_tag_test(test, name: str, tag: str) -> bool | None:
    """truth of a test over the tag local `name` when it holds `tag`; None if the test is about something else / unknown"""
    if isinstance(test, ast.UnaryOp) and isinstance(test.op, ast.Not):
        r = _eval_tag_test(test.operand, name, tag)
        return None if r is None else not r
    if isinstance(test, ast.Name) and test.id == name and tag[0] == "c":
        return bool(ast.literal_eval(tag[2:]))
    if isinstance(test, ast.Name) and test.id == name and tag[0] == "e":
        return None
    if isinstance(test, ast.Compare) and len(test.ops) == 1:
        l, op, r = test.left, test.ops[0], test.comparators[0]
        if isinstance(r, ast.Name) and r.id == name and not (isinstance(l, ast.Name) and l.id == name):
            l, r = r, l
        if not (isinstance(l, ast.Name) and l.id == name):
            return None
        if isinstance(op, (ast.In, ast.NotIn)) and isinstance(r, (ast.Tuple, ast.List, ast.Set)):
            res = []
            for e in r.elts:
                t = _tag_const(e)
                if t is None:
                    return None
                d = _tags_differ(tag, t)
                if d is None:
                    return None
                res.append(not d)
            return any(res) if isinstance(op, ast.In) else not any(res)
        t = _tag_const(r)
        if t is None:
            return None
        d = _tags_differ(tag, t)
        if d is None:
            return None
        if isinstance(op, (ast.Eq, ast.Is)):
            return not d
        if isinstance(op, (ast.NotEq, ast.IsNot)):
            return d
    return None


def _select_arm(chain: ast.If, name: str, tag: str):
    """statements executed by the if/elif chain when `name` holds `tag`; None if some test cannot be decided"""
    cur = chain
    while True:
        r = _eval_tag_test(cur.test, name, tag)
        if r is None:
            return None
        if r:
            return cur.body
        if len(cur.orelse) == 1 and isinstance(cur.orelse[0], ast.If):
            cur = cur.orelse[0]
            continue
        return cur.orelse


def _leaf_assignments(stmts, name: str):
    """if every path through stmts ends by assigning a tag constant to `name` as its last statement: list of (block, index) of those
    assignments; else None"""
    if not stmts:
        return None
    last = stmts[-1]
    if isinstance(last, ast.Assign) and len(last.targets) == 1 and isinstance(last.targets[0], ast.Name) and last.targets[0].id == name:
        if isinstance(last.value, ast.IfExp):
            return None
        return [(stmts, len(stmts) - 1)] if _tag_const(last.value) else None
    if isinstance(last, ast.If) and last.orelse:
        a, b = _leaf_assignments(last.body, name), _leaf_assignments(last.orelse, name)
        if a is None or b is None:
            return None
        return a + b
    return None


def _split_ifexp_tags(block, known: set[str]) -> None:
    """`t = A if c else B` (t a new local, A/B tag constants or nested conditionals of them) -> if c: t = A else: t = B"""
    i = 0
    while i < len(block):
        st = block[i]
        if isinstance(st, ast.Assign) and len(st.targets) == 1 and isinstance(st.targets[0], ast.Name) and st.targets[0].id not in known \
                and isinstance(st.value, ast.IfExp):
            def expand(v):
                if isinstance(v, ast.IfExp):
                    a, b = expand(v.body), expand(v.orelse)
                    if a is None or b is None:
                        return None
                    return [ast.copy_location(ast.If(v.test, a, b), st)]
                if _tag_const(v) is None:
                    return None
                return [ast.copy_location(ast.Assign([ast.Name(st.targets[0].id, ast.Store())], v), st)]
            r = expand(st.value)
            if r is not None:
                block[i:i + 1] = r
        i += 1


def thread_decisions(fn, known_locals: set[str]) -> int:
    """
    A NEW local that every path of an if-statement sets to a self-identifying constant (literal / Enum member) and that the directly following
    if/elif chain only compares with such constants is a decision passed from one statement to the next: each assignment is followed by exactly
    one arm of the chain, so the arm is moved to the assignment ("jump threading").  Exact, because the tests only read the local.
    """
    done = 0

    def reads(nodes, name) -> int:
        return sum(1 for s in nodes for x in ast.walk(s) if isinstance(x, ast.Name) and x.id == name and isinstance(x.ctx, ast.Load))

    def chain_test_reads(chain, name) -> int:
        n, cur = 0, chain
        while True:
            n += reads([cur.test], name)
            if len(cur.orelse) == 1 and isinstance(cur.orelse[0], ast.If):
                cur = cur.orelse[0]
                continue
            return n

    def block(stmts):
        nonlocal done
        _split_ifexp_tags(stmts, known_locals)
        i = 0
        while i < len(stmts):
            st = stmts[i]
            for field in ("body", "orelse", "finalbody"):
                blk = getattr(st, field, None)
                if isinstance(blk, list) and blk and isinstance(blk[0], ast.stmt):
                    block(blk)
            if isinstance(st, ast.Try):
                for h in st.handlers:
                    block(h.body)
            nxt = stmts[i + 1] if i + 1 < len(stmts) else None
            if isinstance(st, ast.If) and isinstance(nxt, ast.If):
                for name in {x.id for x in ast.walk(st) if isinstance(x, ast.Name) and isinstance(x.ctx, ast.Store)} - known_locals:
                    leaves = _leaf_assignments([st], name)
                    if not leaves:
                        continue
                    # the local is read only by the tests of the chain (arms may not read it, nothing later may read it)
                    if reads([fn], name) != chain_test_reads(nxt, name) or reads([st], name):
                        continue
                    arms = []
                    for blk, idx in leaves:
                        arm = _select_arm(nxt, name, _tag_const(blk[idx].value))
                        if arm is None:
                            arms = None
                            break
                        arms.append(arm)
                    if arms is None or sum(len(a) for a in arms) > 4 * DUP_LIMIT:
                        continue
                    for (blk, idx), arm in zip(leaves, arms):
                        blk[idx:idx + 1] = _clone(arm) or [ast.copy_location(ast.Pass(), blk[idx])]
                    del stmts[i + 1]
                    done += 1
                    block(st.body)
                    block(st.orelse)
                    break
            i += 1

    block(fn.body)
    if done:
        ast.fix_missing_locations(fn)
    return done

