"""
Entry point:  /venv/bin/python -m sa.check <ID> [--thorough] [--root /repo] [--replay file]

exit 0  every rule instance held (or is a listed known finding)
exit 1  VIOLATION property=<id> replay=<path>
exit 2  ANALYSIS-ERROR (parse error, anchor lost, unknown syntax, floor not met, self-test failed)
"""
from __future__ import annotations

import argparse
import importlib
import json
import os
import sys
import time
import traceback

from .core import EVIDENCE_DIR, KNOWN_FILE, Ctx, finish
from .model import AnalysisError, Repo

ALL = [f"C{i:02d}" for i in range(1, 21)]


def load_prop(pid: str):
    return importlib.import_module(f"sa.props.{pid.lower()}")


def run_property(pid: str, root: str, tier: str, *, overrides=None, write=True, quiet=False,
                 known_path: str = KNOWN_FILE, evidence_dir: str = EVIDENCE_DIR, selftest=None, repo=None) -> tuple[int, Ctx]:
    t0 = time.time()
    mod = load_prop(pid)
    repo = repo or Repo(root, overrides=overrides)
    ctx = Ctx(pid, repo, tier)
    mod.run(ctx)
    if tier == "thorough":
        from .extra_who import scan_extra
        scan_extra(ctx)
    level = getattr(mod, "LEVEL", "other")
    if level == "proof" and (ctx.obligations == 0 or ctx.obligations != ctx.discharged):
        level_eff = "other"
    else:
        level_eff = level
    code = finish(ctx, t0=t0, level=level_eff, explanation=getattr(mod, "EXPLANATION", ""),
                  selftest=selftest, write=write, quiet=quiet, known_path=known_path, evidence_dir=evidence_dir)
    return code, ctx


def main(argv=None) -> int:
    ap = argparse.ArgumentParser()
    ap.add_argument("prop")
    ap.add_argument("--thorough", action="store_true")
    ap.add_argument("--root", default=os.environ.get("SA_REPO_ROOT", "/repo"))
    ap.add_argument("--replay")
    ap.add_argument("--no-write", action="store_true")
    args = ap.parse_args(argv)
    tier = "thorough" if args.thorough or os.environ.get("VERIF_TIER") == "thorough" else "quick"
    pids = ALL if args.prop.lower() == "all" else [args.prop.upper()]
    worst = 0
    for pid in pids:
        try:
            if args.replay:
                with open(args.replay, encoding="utf-8") as fh:
                    for f in json.load(fh):
                        print("REPLAY", f["rule"], f["at"], f"`{f['construct']}`", "--", f["reason"])
            selftest = None
            if tier == "thorough":
                from .selftest import run_selftest
                selftest = run_selftest(pid, args.root)
            code, _ = run_property(pid, args.root, tier, write=not args.no_write, selftest=selftest)
            if selftest is not None and selftest.get("failed"):
                print(f"ANALYSIS-ERROR property={pid} self-test failed: {selftest['failed']}")
                code = max(code, 2) if code != 1 else 1
        except AnalysisError as e:
            print(f"ANALYSIS-ERROR property={pid} {e}")
            code = 2
        except Exception:  # noqa: BLE001
            print(f"ANALYSIS-ERROR property={pid} internal error in the checker:")
            traceback.print_exc(file=sys.stdout)
            code = 2
        worst = max(worst, code) if 1 not in (worst, code) else 1
    return worst


if __name__ == "__main__":
    try:
        rc = main()
        sys.stdout.flush()
    except BrokenPipeError:
        # downstream closed the pipe (e.g. `| head`): the verdict is the exit code
        os.dup2(os.open(os.devnull, os.O_WRONLY), sys.stdout.fileno())
        rc = 2
    sys.exit(rc)
