"""Exact multivariate integer polynomials (dict monomial -> coefficient) built from straight-line Python arithmetic."""
from __future__ import annotations

import ast

from .model import AnalysisError, chain, norm


class Poly:
    __slots__ = ("t",)

    def __init__(self, terms=None) -> None:
        self.t: dict[tuple, int] = {k: v for k, v in (terms or {}).items() if v != 0}

    @staticmethod
    def const(c: int) -> "Poly":
        return Poly({(): c})

    @staticmethod
    def var(name: str) -> "Poly":
        return Poly({(name,): 1})

    def __add__(self, o: "Poly") -> "Poly":
        d = dict(self.t)
        for k, v in o.t.items():
            d[k] = d.get(k, 0) + v
        return Poly(d)

    def __neg__(self) -> "Poly":
        return Poly({k: -v for k, v in self.t.items()})

    def __sub__(self, o: "Poly") -> "Poly":
        return self + (-o)

    def __mul__(self, o: "Poly") -> "Poly":
        d: dict[tuple, int] = {}
        for k1, v1 in self.t.items():
            for k2, v2 in o.t.items():
                k = tuple(sorted(k1 + k2))
                d[k] = d.get(k, 0) + v1 * v2
        return Poly(d)

    def __eq__(self, o) -> bool:
        return isinstance(o, Poly) and self.t == o.t

    def __hash__(self) -> int:
        return hash(frozenset(self.t.items()))

    def is_zero(self) -> bool:
        return not self.t

    def rename(self, mapping: dict[str, str]) -> "Poly":
        d: dict[tuple, int] = {}
        for k, v in self.t.items():
            nk = tuple(sorted(mapping.get(x, x) for x in k))
            d[nk] = d.get(nk, 0) + v
        return Poly(d)

    def subst(self, mapping: dict[str, "Poly"]) -> "Poly":
        out = Poly()
        for k, v in self.t.items():
            term = Poly.const(v)
            for x in k:
                term = term * mapping.get(x, Poly.var(x))
            out = out + term
        return out

    def __str__(self) -> str:
        if not self.t:
            return "0"
        parts = []
        for k, v in sorted(self.t.items()):
            mon = "*".join(k) if k else "1"
            parts.append(f"{v:+d}*{mon}" if k else f"{v:+d}")
        return " ".join(parts)


def eval_expr(e: ast.AST, env: dict[str, Poly], symbol_of, *, ignore_mod: str | None = None) -> Poly:
    """
    Polynomial of a Python arithmetic expression. symbol_of(expr) -> symbol name | None names atoms
    (attribute reads).  `x % <ignore_mod>` is the identity (arithmetic is in Z/mod).
    """
    if isinstance(e, ast.Constant) and isinstance(e.value, int) and not isinstance(e.value, bool):
        return Poly.const(e.value)
    s = symbol_of(e)
    if s is not None:
        return Poly.var(s)
    if isinstance(e, ast.Name):
        if e.id in env:
            return env[e.id]
        raise AnalysisError(f"poly: unknown name {e.id}")
    if isinstance(e, ast.UnaryOp):
        if isinstance(e.op, ast.USub):
            return -eval_expr(e.operand, env, symbol_of, ignore_mod=ignore_mod)
        if isinstance(e.op, ast.UAdd):
            return eval_expr(e.operand, env, symbol_of, ignore_mod=ignore_mod)
    if isinstance(e, ast.BinOp):
        if isinstance(e.op, ast.Mod) and ignore_mod is not None and norm(e.right) == ignore_mod:
            return eval_expr(e.left, env, symbol_of, ignore_mod=ignore_mod)
        l = eval_expr(e.left, env, symbol_of, ignore_mod=ignore_mod)
        r = eval_expr(e.right, env, symbol_of, ignore_mod=ignore_mod)
        if isinstance(e.op, ast.Add):
            return l + r
        if isinstance(e.op, ast.Sub):
            return l - r
        if isinstance(e.op, ast.Mult):
            return l * r
    raise AnalysisError(f"poly: unsupported expression `{norm(e)[:80]}`")
