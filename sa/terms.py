"""
Wire terms: symbolic evaluation of hand-written to_pack_list / from_unpack_list / __init__ so that
"decoder is the inverse of the encoder" can be decided as term equality (plus finite enumeration
for bits and small documented domains).  Nothing is executed from /repo.
"""
from __future__ import annotations

import ast
import struct
from dataclasses import dataclass, field

from .model import AnalysisError, ClassInfo, FuncInfo, Repo, chain, const_value, norm, strip_cast, walk_no_nested


# ------------------------------------------------------------------------------------------ term language
@dataclass(frozen=True)
class T:
    op: str
    args: tuple = ()

    def __str__(self) -> str:
        if self.op == "field":
            return f"self.{self.args[0]}"
        if self.op == "const":
            return repr(self.args[0])
        if self.op == "wire":
            return f"wire[{self.args[0]}]"
        return f"{self.op}({', '.join(str(a) for a in self.args)})"


def Field(name: str) -> T:
    return T("field", (name,))


def Const(v) -> T:
    return T("const", (v,))


def is_const(t) -> bool:
    return isinstance(t, T) and t.op == "const"


class Undecided(Exception):
    """The interpreter cannot normalise this expression (reported as undecided, never as a verdict)."""


class TermEval:
    """Evaluates expressions of one function body to terms, given bindings for parameter names."""

    def __init__(self, repo: Repo, fi: FuncInfo, env: dict[str, T], self_fields: dict[str, T] | None = None) -> None:
        self.repo = repo
        self.fi = fi
        self.env = dict(env)
        self.self_fields = self_fields      # None: `self.x` is Field(x);  dict: value of self.x

    def ev(self, e: ast.AST) -> T:  # noqa: C901, PLR0911, PLR0912
        e = strip_cast(e)
        cv = const_value(e)
        from .model import NOCONST
        if cv is not NOCONST:
            return Const(cv)
        if isinstance(e, ast.Name):
            if e.id in self.env:
                return self.env[e.id]
            c = self.repo.resolve_const(self.fi.module, e, self.fi.cls)
            if c is not NOCONST:
                return Const(c)
            raise Undecided(f"unbound name {e.id}")
        if isinstance(e, ast.Attribute):
            if isinstance(e.value, ast.Name) and e.value.id == "self":
                if self.self_fields is None:
                    return Field(e.attr)
                if e.attr in self.self_fields:
                    return self.self_fields[e.attr]
                raise Undecided(f"self.{e.attr} not assigned")
            c = self.repo.resolve_const(self.fi.module, e, self.fi.cls)
            if c is not NOCONST:
                return Const(c)
            return T("attr", (self.ev(e.value), e.attr))
        if isinstance(e, (ast.Tuple, ast.List)):
            return T("tuple" if isinstance(e, ast.Tuple) else "list", tuple(self.ev(x) for x in e.elts))
        if isinstance(e, ast.Subscript):
            base = self.ev(e.value)
            if isinstance(e.slice, ast.Slice):
                lo = self.ev(e.slice.lower) if e.slice.lower is not None else Const(None)
                hi = self.ev(e.slice.upper) if e.slice.upper is not None else Const(None)
                return simplify(T("slice", (base, lo, hi)))
            return simplify(T("index", (base, self.ev(e.slice))))
        if isinstance(e, ast.BinOp):
            l, r = self.ev(e.left), self.ev(e.right)
            if isinstance(e.op, ast.Mod):
                return simplify(T("mod", (l, r)))
            if isinstance(e.op, ast.Add):
                return simplify(T("add", (l, r)))
            raise Undecided(f"operator in `{norm(e)}`")
        if isinstance(e, ast.Call):
            f = chain(e.func)
            if f == "bool" and len(e.args) == 1:
                return simplify(T("bool", (self.ev(e.args[0]),)))
            if f in ("b''.join", "bytes().join") or (isinstance(e.func, ast.Attribute) and e.func.attr == "join" and const_value(e.func.value) == b""):
                return simplify(T("join", (self.ev(e.args[0]),)))
            if f in ("len",):
                return T("len", (self.ev(e.args[0]),))
            if f in ("pack", "struct.pack"):
                return T("pack", tuple(self.ev(a.value if isinstance(a, ast.Starred) else a) if not isinstance(a, ast.Starred) else T("star", (self.ev(a.value),)) for a in e.args))
            if f in ("unpack", "struct.unpack"):
                return T("unpack", tuple(self.ev(a) for a in e.args))
            if f is not None:
                return T("call", (f, *[self.ev(a) for a in e.args]))
        if isinstance(e, ast.ListComp) and len(e.generators) == 1 and not e.generators[0].ifs:
            g = e.generators[0]
            return self._listcomp(e, g)
        if isinstance(e, ast.IfExp):
            return T("ifexp", (self.ev(e.test), self.ev(e.body), self.ev(e.orelse)))
        if isinstance(e, ast.Compare) and len(e.ops) == 1:
            return T("cmp", (type(e.ops[0]).__name__, self.ev(e.left), self.ev(e.comparators[0])))
        raise Undecided(f"expression `{norm(e)[:60]}`")

    def _listcomp(self, e: ast.ListComp, g: ast.comprehension) -> T:
        it = g.iter
        # [X[i:i+N] ... for i in range(0, len(X), N)]  ->  chunks
        if isinstance(it, ast.Call) and chain(it.func) == "range" and len(it.args) == 3 and const_value(it.args[0]) == 0 \
                and isinstance(it.args[1], ast.Call) and chain(it.args[1].func) == "len" and isinstance(g.target, ast.Name):
            src = self.ev(it.args[1].args[0])
            stride = const_value(it.args[2])
            i = g.target.id
            if isinstance(stride, int):
                pieces = self._chunk_pieces(e.elt, i, norm(it.args[1].args[0]))
                if pieces is not None:
                    return simplify(T("chunks", (src, Const(stride), Const(tuple(pieces)))))
        # [pack(F, *x) for x in Y]  /  [f(x) for x in Y]
        if isinstance(g.target, ast.Name):
            inner = TermEval(self.repo, self.fi, {**self.env, g.target.id: T("elem", ())}, self.self_fields)
            return T("map", (inner.ev(e.elt), self.ev(it)))
        raise Undecided(f"comprehension `{norm(e)[:60]}`")

    def _chunk_pieces(self, elt: ast.AST, i: str, src_txt: str):
        """Element of a chunking comprehension -> list of (lo_off, hi_off, decoder) or None."""
        def piece(x):
            x = strip_cast(x)
            dec = "bytes"
            if isinstance(x, ast.Subscript) and not isinstance(x.slice, ast.Slice) and const_value(x.slice) == 0 and isinstance(x.value, ast.Call) \
                    and chain(x.value.func) in ("unpack", "struct.unpack"):
                dec = "unpack:" + str(const_value(x.value.args[0]))
                x = x.value.args[1]
            if isinstance(x, ast.Subscript) and isinstance(x.slice, ast.Slice) and norm(x.value) == src_txt:
                def off(b):
                    if b is None:
                        return None
                    t = norm(b)
                    if t == i:
                        return 0
                    if t.startswith(i + " + ") and t[len(i) + 3:].isdigit():
                        return int(t[len(i) + 3:])
                    return None
                lo, hi = off(x.slice.lower), off(x.slice.upper)
                if lo is not None and hi is not None:
                    return (lo, hi, dec)
            return None
        if isinstance(elt, ast.Tuple):
            ps = [piece(x) for x in elt.elts]
            return ps if all(p is not None for p in ps) else None
        p = piece(elt)
        return [p] if p is not None else None


def simplify(t: T) -> T:
    """Local rewrites that are valid for all values."""
    if t.op == "index":
        base, idx = t.args
        if base.op in ("tuple", "list") and is_const(idx) and isinstance(idx.args[0], int) and -len(base.args) <= idx.args[0] < len(base.args):
            return base.args[idx.args[0]]
    if t.op == "slice":
        base, lo, hi = t.args
        if base.op in ("tuple", "list") and is_const(lo) and is_const(hi):
            return T(base.op, tuple(base.args[lo.args[0]:hi.args[0]]))
    if t.op == "join" and t.args[0].op == "field":
        return T("join", (t.args[0],))
    return t


# ------------------------------------------------------------------------------------------ small pure-function interpreter
class PureFn:
    """Evaluates tiny pure module functions (if/return over comparisons of parameters with constants) on concrete values."""

    def __init__(self, fi: FuncInfo) -> None:
        self.fi = fi

    def __call__(self, *args):
        env = dict(zip(self.fi.params(), args))
        return self._block(self.fi.node.body, env)

    def _block(self, stmts, env):
        for s in stmts:
            if isinstance(s, ast.Expr) and isinstance(s.value, ast.Constant):
                continue
            if isinstance(s, ast.Assign) and isinstance(s.targets[0], ast.Name):
                env[s.targets[0].id] = self._ev(s.value, env)
                continue
            if isinstance(s, ast.If):
                r = self._block(s.body if self._ev(s.test, env) else s.orelse, env)
                if r is not _NORET:
                    return r
                continue
            if isinstance(s, ast.Return):
                return self._ev(s.value, env)
            raise Undecided(f"pure function {self.fi.name}: statement `{norm(s)[:50]}`")
        return _NORET

    def _ev(self, e, env):
        from .model import NOCONST
        cv = const_value(e)
        if cv is not NOCONST:
            return cv
        if isinstance(e, ast.Name) and e.id in env:
            return env[e.id]
        if isinstance(e, ast.Tuple):
            return tuple(self._ev(x, env) for x in e.elts)
        if isinstance(e, ast.Compare) and len(e.ops) == 1:
            l, r = self._ev(e.left, env), self._ev(e.comparators[0], env)
            if isinstance(e.ops[0], ast.Eq):
                return l == r
            if isinstance(e.ops[0], ast.NotEq):
                return l != r
        if isinstance(e, ast.BoolOp):
            vals = [self._ev(v, env) for v in e.values]
            return all(vals) if isinstance(e.op, ast.And) else any(vals)
        raise Undecided(f"pure function {self.fi.name}: expression `{norm(e)[:50]}`")


_NORET = object()


def struct_arity(fmt: str) -> int:
    s = struct.Struct(fmt)
    return len(s.unpack(bytes(s.size)))
