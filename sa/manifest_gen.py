"""Regenerates /verif/MANIFEST.json from the per-property descriptions below (python -m sa.manifest_gen)."""
from __future__ import annotations

import importlib
import json
import os

VERIF = os.path.dirname(os.path.dirname(os.path.abspath(__file__)))

TEXT = {
    "C01": ("GUARD/TAINT/TABLE/WHO static rules: dominance of handler call by signature check, def-use of verified bytes and key, handler-auth table over all overlay classes",
            "Decides, for every site in the current source: handler calls in lazy_wrapper/lazy_wrapper_wd and returns of _ez_unpack_auth are dominated by a successful _verify_signature over the unmodified datagram with the key unpacked from it; _verify_signature checks data[:-L] against data[-L:] with L from that key; the Peer handed on derives from that key only; the sign side covers prefix+msg_id+payloads; every registered handler (and every override in a subclass) keeps its reviewed authentication class; no dispatch around on_packet. Does not decide unforgeability of the signature primitive.",
            "Trusted: signature primitives behind Key.verify; BinMemberAuthenticationPayload codec (C02); CPython ast."),
    "C03": ("GUARD/OFFSET static rules: computed unprotected receive region with min-length dataflow carried into callees; dominance of dispatch by the prefix test; wire-length-vs-buffer checks in every Packer.unpack",
            "Decides: on the part of the receive path not enclosed by try/except Exception (computed from the call graph) every constant-index read / fixed unpack_from of datagram bytes is covered by a still-valid length fact; handler lookup is dominated by the 22-byte prefix comparison and handlers run inside try/except Exception; every Packer.unpack compares wire-supplied lengths with the buffer; consume_all remainder and PackError conversion; the snapshot loader contains all exceptions and makes progress. Does not decide that handler bodies do not raise (they are contained) nor KeyErrors from routing-table invariants.",
            "Trusted: CPython slicing/struct semantics; handler exceptions are contained by the checked try."),
    "C06": ("DECISION table (32 rows, exhaustive) for is_allowed + MUSTPASS/GUARD/WHO rules on both emission directions + decision tables of the DataChecker classifiers",
            "Decides completely at policy level: is_allowed equals (bt&BT)|(v8&V8)|(v8&own) on all 32 atom assignments; every path to transport.sendto / tunnel_data passes a truthy is_allowed on the very data emitted; closed caller sets; exit_data dominated by destination != 0.0.0.0:0; enable() dominated by the previous-hop IP comparison; classifiers agree with their documented byte tests and guard their reads. Takes the classifier byte tests as the definition of traffic shapes.",
            "Trusted: DataChecker docstrings as the definition of BT/IPv8-shaped; asyncio transports."),
    "C07": ("PATHS classification of TunnelEndpoint.send (all acyclic paths) + GUARD/WHO/TABLE rules (raw send sites, bounded deque, opt-in, delivery filter)",
            "Decides for all histories (state enters send only through its branch conditions): raw socket send only under a falsy anonymity switch for that packet's 22-byte prefix; tunnel sends only over a READY circuit from find_circuits(exit_flags=[EXIT_IPV8], hops=self.hops); otherwise bounded queue or drop; no other raw-send site, no reach-under, anonymity table written only by set_anonymity, opt-in and delivery filter shapes. Does not decide that the circuit's recorded exit flags are true at run time.",
            "Trusted: circuit.exit_flags bookkeeping (C08); REST operator actions excluded."),
    "C04": ("TABLE/GUARD/MUSTPASS/WHO rules on the onion layering: every encrypt_cell/decrypt_cell site compared with the protocol table under its dominating role facts; plaintext whitelist; crypto-before-send and drop-on-failure path rules",
            "Decides the layering discipline for all sites/paths: which role adds/removes which layer in which direction over which hops (e2e layer innermost, dual seeder/downloader directions, encrypt reversed / decrypt in order, missing keys raise), only create/created may be plaintext and other plaintext cells are dropped before delivery/relay, every cell leaves through a successful crypto step, failed authentication drops the cell, closed set of cell emitters. Does not decide byte-identical delivery, ciphertext distinctness or tamper rejection: those are properties of ChaCha20-Poly1305 in ipv8_rust_tunnels over run-time keys.",
            "Trusted: AEAD in ipv8_rust_tunnels; a Rust CryptoEndpoint replacing PythonCryptoEndpoint is outside the analysed source."),
    "C05": ("GUARD/TAINT/WHO rules on every mutation site of the three routing tables and on data delivery",
            "Decides table-level isolation: each remove_* in on_destroy dominated by `peer == <entry for that id>.hop.peer` in an authenticated handler; every store keyed by a wire-controlled circuit id dominated by `id not in T` for all three tables; delivery dominated by the origin/neighbour test; exit return path bound to the socket's own circuit/hop; unwrap injects the header's circuit id; closed list of table writers. Does not decide cross-talk under interleavings of concurrent circuits.",
            "Trusted: no shared mutable state besides the tables and request caches; 2^-32 collisions of locally generated ids."),
    "C08": ("GUARD/MUSTPASS/TAINT/WHO/SIBLING rules on key acceptance",
            "Decides: keys/hops are accepted only after a live retry cache with matching random identifier and after verify_and_generate_shared_secret returned normally with the static key of circuit.unverified_hop.peer (the peer selected in send_initial_create/send_extend, the only writers); return of the verification dominated by crypto_auth_verify; both DH sides concatenate (ephemeral, static); Circuit._hops append-only with one caller; relay-side create/extend pairing. Does not decide that both ends derive equal keys (X25519/HKDF at run time).",
            "Trusted: X25519, crypto_auth, HKDF in ipv8_rust_tunnels / OpenSSL."),
    "C09": ("TABLE/MUSTPASS/GUARD/PAIR rules on the reclamation machinery",
            "Decides: do_remove sweeps a copy of each table with an unconditional inactivity (and age) test, do_circuits always runs it and is scheduled; each remove_* reaches its pop on every normal path after the configured delay and the exit variant closes sockets; destroy forwarded on exactly the far side and sent before the pop; join limit; relay_early budget at relay and originator; retry count strictly decreases and gives up by removing the circuit. Does not decide the time bound or behaviour under every loss pattern (timers, schedules).",
            "Trusted: asyncio timers; C10/C11 for cache timeouts and task lifetime."),
    "C10": ("PAIR/GUARD/MUSTPASS/WHO rules inside RequestCache",
            "Decides the pairing discipline that makes 'exactly once' possible: pop removes then cancels; _on_timeout unregisters before the callback, completes futures only if not done; add stores only when not shut down and the identifier is free, under the lock, and always registers the timeout task; duplicate guards; shutdown ordering; identifier construction shared by all operations; _identifiers private; retrieve_cache tolerates late responses. Does not decide same-iteration races of pop and expiry (asyncio scheduling).",
            "Trusted: a cancelled asyncio task never runs its body."),
    "C11": ("MUSTPASS/PAIR/NOFIREANDFORGET/NOUNTRACKED/GUARD rules over every Overlay subclass and TaskManager",
            "Decides unload completeness: super().unload() awaited on every path; request caches shut down first; every listener registered on an overlay's behalf is removed from unload; @task releases started in unload are awaited (and cannot abort it); sockets have a close reachable from unload; background futures registered or awaited; TaskManager gates (no registration after shutdown / under a live name, replace_task re-registers only in the old task's done-callback, flag before cancellation); listener removed before task shutdown; _deliver_later re-checks. Does not decide 'at whatever moment' beyond these orderings (schedules).",
            "Trusted: asyncio cancellation semantics."),
    "C12": ("MATRIX (mutation sites x derived indices) + GUARD/SIBLING/WHO rules on network.py",
            "Decides index coherence: for every mutation site of verified_peers/_all_addresses/services_per_peer and every derived index, the mutator updates the index or all its readers re-validate against the authoritative collection; no partial cache entries; misses recompute; queries are read-only (also through aliases); blacklist guards; by-key pairing; snapshot codec symmetry; no external writers. Does not explore LRU eviction orders (a miss recomputes: checked).",
            "Trusted: Peer equality by key; OrderedDict semantics."),
    "C14": ("GUARD/PAIR/TAINT rules on routing.py",
            "Decides the local guards from which the tree invariants follow by induction (argument in evidence): insert only under owns() and capacity, split only on our own path with prefix+0/prefix+1 children replacing the parent, owns as prefix test, closest_nodes = subtree walk that stops only with >= k live candidates, sorted by XOR distance, truncated; refresh id = prefix + 160-len(prefix) random bits (prefix characters flow into the result). Does not decide tree shape after long histories by execution.",
            "Trusted: dht/trie.py (unit-tested) for longest-prefix/suffix/delete."),
    "C15": ("GUARD/SIBLING/NOEARLYEXIT rules on the DHT store path",
            "Decides: add_value in on_store_request dominated by requesting node, size and count limits and check_token for that node (before the variable is rebound); token pre-image identical in generate/check, two rotating secrets at 300 s; a signer is reported only under a valid signature over value[:-L] with the carried key; max(version) per signer; Storage.put replaces only with version >= old; Storage.clean examines every value; store-peer requires token and target == sender mid. Does not explore interleavings with clock advances.",
            "Trusted: sha1 / os.urandom / signature primitives."),
    "C16": ("GUARD/WHO/NOEARLYEXIT/SIBLING rules on the token tree",
            "Decides: keeping (waiting area) and appending a token are dominated by verify under the tree's key; append needs genesis/contained parent and absence; elements written only by _append (+ database reload of tokens that passed gather_token); every waiting child of an appended token is re-offered (no early exit) so forks do not depend on arrival order; bounded waiting area; content attached only on hash match; chunk size equals the token struct; verify/get_root_path check every step. Does not enumerate permutations.",
            "Trusted: signatures, sha3_256."),
    "C17": ("DECISION+GUARD/MUSTPASS/TAINT/WHO rules on the identity overlay",
            "Decides: the single approving exit of should_sign is dominated by the negation of every refusal reason, tuple positions derived from add_known_hash; attestation creation/sending dominated by solicited + correct substantiation + should_sign for that pseudonym and metadata; database inserts dominated by verify() under the recorded key; token hand-out derives only from token_chain[:permissions.get(peer,0)], permissions written only for the chosen peer. History independent because each guard reads only the current registration.",
            "Trusted: signature primitives; C16 for chain verification."),
    "C19": ("MUSTPASS/WHO/TABLE rules on the database layer",
            "Decides the application's half of durability: every insert_* commits on every normal path before returning; no `with <database>:` deferral anywhere and commit() reaches connection.commit(); journal settings tracked through _initial_statements (file databases end in WAL + synchronous NORMAL; temporary DELETE always followed by WAL), no other pragma writers; IF NOT EXISTS schemas, INSERT OR IGNORE on keyed tables, check_database commits; INSERT/SELECT column order agrees with to/from_database_tuple. Does not decide SQLite's atomic commit or behaviour at each kill point.",
            "Trusted: SQLite WAL atomic commit under process kill."),
    "C02": ("TERM/OFFSET/TABLE/SIBLING rules: symbolic inverse of to_pack_list/from_unpack_list through the constructor, abstract offset run of every Packer, name grammar + documentation table, bit masks, cell codec",
            "Decides for every hand-written Serializable, every VariablePayload definition and every Packer: the decoder is the inverse of the encoder as terms (finite enumeration for bit selectors and the documented connection-type domain), formats written equal format_list, the bytes read by unpack tile [offset, returned offset) on every path and pack writes the same layout with the same length format and unit, names/format arity agree, registered format names mean what their name spells and what doc/reference/serialization.rst documents, bit masks agree, cell codec agrees. Does not decide value-level behaviour of struct/inet_* (stdlib) nor value ranges.",
            "Trusted: CPython struct/socket/array semantics; 20-byte ids in preference lists; documented connection-type domain."),
    "C13": ("MUSTPASS + DECISION tables on the introduction/puncture code",
            "Decides only the two clauses visible in code shape: every path that hands out a non-null introduction also sends a puncture request (requester LAN, requester WAN, request identifier) to the introduced peer, the requester is never introduced to itself; the LAN/WAN selection at the requester and the puncture target are decision tables over (wan known, lan known, same public IP) equal to the stated tables. Does NOT decide reachability for the 4x4 NAT matrix: that needs a filtering/translating network model.",
            "Trusted: address_in_lan_subnets/address_is_lan classification."),
    "C18": ("POLY: exact integer-polynomial normal forms of FP2Value's operator bodies compared with the reference arithmetic of fractions over Z[x]/(x^2+x+1); symbolic extended-Euclid invariant; SIBLING codec arity",
            "Proof of the field-arithmetic clause only: __add__/__sub__/__mul__/__floordiv__/inverse/normalize equal the reference coefficients as polynomials over Z (hence for all operands and all moduli), derived laws (commutativity, x-y = x+(0-y), (x//y)*y ~ x) hold on the implementation's own polynomials, _modinv maintains the extended-Euclid invariant, intpow is square-and-multiply; key/attestation codec arity agrees. Does NOT decide completeness/soundness of the exact-match and range proofs or the Boneh scheme: number theory over run-time keys and randomness.",
            "Trusted: CPython ast; sa/poly.py exact arithmetic; reading method bodies as straight-line arithmetic (anything else is ANALYSIS-ERROR)."),
    "C20": ("TEMPLATE/LINT/SIBLING/TABLE rules on the code generator's source (f-string templates, comprehensions) - nothing is executed",
            "Decides that generator, interpreter and dataclass front end are built from the same rules for every definition: names in order, defaults exactly under `name in defaults` and rendered with repr, 8 names per 'bits' format with a running index, fix_pack_/fix_unpack_ hooks exactly under hasattr on the source class, same str/list/else format derivation, vp_compile feeds and installs from the same class, type_map returns only registered formats from the same field order. Does not decide byte equality for concrete instances (execution).",
            "Trusted: C02 for packer symmetry; wire values are never None."),
}


# rules added after the first seeded campaign (DESIGN.md section 8); appended to the level text
ADDED = {
    "C01": "Also: the is_valid_signature wrappers hand the caller's key, data and signature unchanged to the primitive and return its verdict.",
    "C03": "Also: listener lists are iterated over a copy and each listener runs in its own containment; foreign decrypt/encrypt calls on the cell path are inside the contained region.",
    "C04": "Also: a cell for an unknown circuit is never forwarded in clear; AEAD failures of any exception type drop the cell; e2e delivery predicate.",
    "C05": "Also: bytes_up/bytes_down/last_activity of a routing object change only after the packet authenticated; RoutingObject subclasses hold no class-level mutable state; the neighbour test covers both directions.",
    "C09": "Also: closed set of sites that refresh last_activity (HEARTBEAT_CALLERS); opened transports are stored on self before the next await.",
    "C11": "Also: a task's done-callback removes only its own future; TunnelEndpoint/crypto endpoint forward remove_listener like add_listener; sibling rules of C09/C10 on sockets and cache shutdown.",
    "C12": "Also: walkable/DirtyDict invalidation and `is not None` distinctions on cached empties.",
    "C13": "Also: an introduced peer is recorded before the response is built.",
    "C16": "Also: AbstractSignedObject.verify returns is_valid_signature(public_key, plaintext, signature) for the key it was given (no cached verdict, key not rebound).",
    "C17": "Also: an attribute already attested is refused by type, and the authority is compared as a whole.",
    "C18": "Also: protocol-shape rules (which operands enter which FP2Value operation in create/verify of the exact-match proof).",
    "C19": "Also: __exit__ resets the deferral state; a token is inserted before the metadata that refers to it.",
}

TECH_OVERRIDE = {
    "C02": "TERM/OFFSET/TABLE/SIBLING rules: symbolic inverse of to_pack_list/from_unpack_list as wire terms, abstract offset runs of every Packer on the CFG, exhaustive finite-domain decision tables (bit masks: all 256 bytes; connection types) evaluated by an AST interpreter of the checker, symbolic byte-layout algebra for the cell codec (parametric in all values), name grammar + documentation table",
    "C13": "per-path symbolic evaluation of the introduction/puncture functions (locals substituted, attribute stores versioned) with DECISION tables over the 8 combinations of (WAN known, LAN known, same NAT); MUSTPASS on sends",
    "C18": "POLY: exact integer-polynomial normal forms obtained by path-wise symbolic substitution of FP2Value's method bodies, compared with the reference arithmetic of fractions over Z[x]/(x^2+x+1); loop invariants for intpow/_modinv; exponent-vector comparison of the range-proof verification equations; CFG pairing rule for consumed challenges; SIBLING codec arity",
    "C20": "abstract interpretation (own evaluator over the syntax trees; names, formats and values are opaque symbols) of the code generator, the interpreter and the dataclass front end on a bounded family of abstract payload definitions; the generated source text is parsed and evaluated symbolically, never executed; CFG no-skip rule for convert_to_payload",
}

NOT_BUILT_REASON = "check not built yet (build in progress; see DESIGN.md section 3)"


def main() -> None:
    ids = [json.loads(l)["id"] for l in open(os.path.join(VERIF, "properties.jsonl"), encoding="utf-8")]
    checks, na = [], []
    for pid in ids:
        have = os.path.exists(os.path.join(VERIF, "sa", "props", pid.lower() + ".py")) and pid in TEXT
        if not have:
            na.append({"property_id": pid, "reason": NA.get(pid, NOT_BUILT_REASON)})
            continue
        mod = importlib.import_module(f"sa.props.{pid.lower()}")
        tech, text, note = TEXT[pid]
        tech = TECH_OVERRIDE.get(pid, tech + "; decided on CFG facts (dominance as reachability with cuts), alias expansion and reaching definitions after load-time normalisation")
        # what is decided = the module's own EXPLANATION (kept next to the rules); what is not decided = the reviewed sentence of TEXT
        import re as _re
        m_ = _re.search(r"(Does not decide|Does NOT decide|Takes the classifier)[^$]*$", text)
        text = getattr(mod, "EXPLANATION", text).strip() + (" " + m_.group(0).strip() if m_ else "")
        checks.append({
            "property_id": pid,
            "quick_cmd": f"/venv/bin/python -m sa.check {pid}",
            "thorough_cmd": f"/venv/bin/python -m sa.check {pid} --thorough",
            "evidence_file": f"/verif/evidence/{pid}.json",
            "replay_cmd_template": f"/venv/bin/python -m sa.check {pid} --replay {{path}}",
            "engine": "sa",
            "level_claimed": {"category": getattr(mod, "LEVEL", "other"), "text": text, "design_ref": f"DESIGN.md section 3, {pid}"},
            "level_note": note,
            "technique": "static analysis: " + tech,
        })
    m = {
        "version": 1,
        "setup_cmd": "true",
        "hooks": {
            "guard": "IPV8_VERIF",
            "enable": "none: static analysis needs no instrumentation; the checks read /repo's working tree as source text",
            "baseline_off_cmd": "cd /repo && /venv/bin/python -m pytest -ra -q -p no:cacheprovider --timeout=900 --continue-on-collection-errors",
            "source_commits": [],
            "add_only": True,
        },
        "engines": [{"name": "sa", "path": "/verif/sa", "serves_properties": [c["property_id"] for c in checks],
                     "kind_free_text": "repository-specific static analyser (stdlib ast): load-time behaviour-preserving normalisation "
                                       "(alpha-renaming, inlining of new helpers, alias elimination), class/MRO model, statement CFG with "
                                       "exceptional edges and reachability-with-cuts (dominance), def-use / reaching definitions, decision "
                                       "tables, wire-term, offset and byte-layout interpreters, polynomial normal forms, abstract "
                                       "interpretation of the payload code generator; never imports or runs ipv8"}],
        "checks": checks,
        "notes": "Exit codes: 0 held / 1 VIOLATION / 2 ANALYSIS-ERROR (anchor lost, unknown syntax, floor). Known findings and "
                 "fixed defects: /verif/known_findings.txt. Thorough = quick + self-test (in memory: hand-written witnesses and the confirmed seeded "
                 "changes under /verif/seeded must be reported, the behaviour-preserving refactorings under /verif/refactors must stay silent) "
                 "+ who-may-write scan over doc/stresstest/scripts. Open known findings on the unchanged tree (genuine defects whose repair is not a "
                 "small safe patch; DESIGN 8.11): C05 unkeyed-teardown, C17 own-attestation-recorded, C20 dataclass-installed-early (2 constructs) and "
                 "default-literal - the checks of C05, C17, C20 print one KNOWN-FINDING line per listed construct and exit 0; any other violation of the "
                 "same rules is reported. Where a module evaluates repository code on sample values in its own AST interpreter (C02 boundary cases, "
                 "C16 budget exit, C18 hash-mode pairing) the result is refute-only: a counter-example is a finding, agreement claims nothing.",
        "not_applicable": na,
    }
    with open(os.path.join(VERIF, "MANIFEST.json"), "w", encoding="utf-8") as fh:
        json.dump(m, fh, indent=1)
        fh.write("\n")
    print(f"{len(checks)} checks, {len(na)} not_applicable")


NA: dict[str, str] = {}

if __name__ == "__main__":
    main()
