"""Regenerates /verif/MANIFEST.json from the per-property descriptions below (python -m sa.manifest_gen)."""
from __future__ import annotations

import importlib
import json
import os

VERIF = os.path.dirname(os.path.dirname(os.path.abspath(__file__)))

TEXT = {
    "C01": ("GUARD/TAINT/TABLE/WHO static rules: dominance of handler call by signature check, def-use of verified bytes and key, handler-auth table over all overlay classes",
            "Decides, for every site in the current source: handler calls in lazy_wrapper/lazy_wrapper_wd and returns of _ez_unpack_auth are dominated by a successful _verify_signature over the unmodified datagram with the key unpacked from it; _verify_signature checks data[:-L] against data[-L:] with L from that key; the Peer handed on derives from that key only; the sign side covers prefix+msg_id+payloads; every registered handler (and every override in a subclass) keeps its reviewed authentication class; no dispatch around on_packet. Does not decide unforgeability of the signature primitive.",
            "Trusted: signature primitives behind Key.verify; BinMemberAuthenticationPayload codec (C02); CPython ast."),
    "C03": ("GUARD/OFFSET static rules: computed unprotected receive region with min-length dataflow carried into callees; dominance of dispatch by the prefix test; wire-length-vs-buffer checks in every Packer.unpack",
            "Decides: on the part of the receive path not enclosed by try/except Exception (computed from the call graph) every constant-index read / fixed unpack_from of datagram bytes is covered by a still-valid length fact; handler lookup is dominated by the 22-byte prefix comparison and handlers run inside try/except Exception; every Packer.unpack compares wire-supplied lengths with the buffer; consume_all remainder and PackError conversion; the snapshot loader contains all exceptions and makes progress. Does not decide that handler bodies do not raise (they are contained) nor KeyErrors from routing-table invariants.",
            "Trusted: CPython slicing/struct semantics; handler exceptions are contained by the checked try."),
    "C06": ("DECISION table (32 rows, exhaustive) for is_allowed + MUSTPASS/GUARD/WHO rules on both emission directions + decision tables of the DataChecker classifiers",
            "Decides completely at policy level: is_allowed equals (bt&BT)|(v8&V8)|(v8&own) on all 32 atom assignments; every path to transport.sendto / tunnel_data passes a truthy is_allowed on the very data emitted; closed caller sets; exit_data dominated by destination != 0.0.0.0:0; enable() dominated by the previous-hop IP comparison; classifiers agree with their documented byte tests and guard their reads. Takes the classifier byte tests as the definition of traffic shapes.",
            "Trusted: DataChecker docstrings as the definition of BT/IPv8-shaped; asyncio transports."),
    "C07": ("PATHS classification of TunnelEndpoint.send (all acyclic paths) + GUARD/WHO/TABLE rules (raw send sites, bounded deque, opt-in, delivery filter)",
            "Decides for all histories (state enters send only through its branch conditions): raw socket send only under a falsy anonymity switch for that packet's 22-byte prefix; tunnel sends only over a READY circuit from find_circuits(exit_flags=[EXIT_IPV8], hops=self.hops); otherwise bounded queue or drop; no other raw-send site, no reach-under, anonymity table written only by set_anonymity, opt-in and delivery filter shapes. Does not decide that the circuit's recorded exit flags are true at run time.",
            "Trusted: circuit.exit_flags bookkeeping (C08); REST operator actions excluded."),
}

NOT_BUILT_REASON = "check not built yet (build in progress; see DESIGN.md section 3)"


def main() -> None:
    ids = [json.loads(l)["id"] for l in open(os.path.join(VERIF, "properties.jsonl"), encoding="utf-8")]
    checks, na = [], []
    for pid in ids:
        have = os.path.exists(os.path.join(VERIF, "sa", "props", pid.lower() + ".py")) and pid in TEXT
        if not have:
            na.append({"property_id": pid, "reason": NA.get(pid, NOT_BUILT_REASON)})
            continue
        mod = importlib.import_module(f"sa.props.{pid.lower()}")
        tech, text, note = TEXT[pid]
        checks.append({
            "property_id": pid,
            "quick_cmd": f"/venv/bin/python -m sa.check {pid}",
            "thorough_cmd": f"/venv/bin/python -m sa.check {pid} --thorough",
            "evidence_file": f"/verif/evidence/{pid}.json",
            "replay_cmd_template": f"/venv/bin/python -m sa.check {pid} --replay {{path}}",
            "engine": "sa",
            "level_claimed": {"category": getattr(mod, "LEVEL", "other"), "text": text, "design_ref": f"DESIGN.md section 3, {pid}"},
            "level_note": note,
            "technique": "static analysis: " + tech,
        })
    m = {
        "version": 1,
        "setup_cmd": "true",
        "hooks": {
            "guard": "IPV8_VERIF",
            "enable": "none: static analysis needs no instrumentation; the checks read /repo's working tree as source text",
            "baseline_off_cmd": "cd /repo && /venv/bin/python -m pytest -ra -q -p no:cacheprovider --timeout=900 --continue-on-collection-errors",
            "source_commits": [],
            "add_only": True,
        },
        "engines": [{"name": "sa", "path": "/verif/sa", "serves_properties": [c["property_id"] for c in checks],
                     "kind_free_text": "repository-specific static analyser (stdlib ast): class/MRO model, statement CFG with "
                                       "exceptional edges and reachability-with-cuts (dominance), def-use fingerprints, decision "
                                       "tables, wire-term and offset interpreters, polynomial normal forms; never imports or runs ipv8"}],
        "checks": checks,
        "notes": "Exit codes: 0 held / 1 VIOLATION / 2 ANALYSIS-ERROR (anchor lost, unknown syntax, floor). Known findings and "
                 "fixed defects: /verif/known_findings.txt. Thorough = quick + self-test witnesses (in-memory mutants must fire).",
        "not_applicable": na,
    }
    with open(os.path.join(VERIF, "MANIFEST.json"), "w", encoding="utf-8") as fh:
        json.dump(m, fh, indent=1)
        fh.write("\n")
    print(f"{len(checks)} checks, {len(na)} not_applicable")


NA: dict[str, str] = {}

if __name__ == "__main__":
    main()
