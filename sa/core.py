"""Rule context: instance counting, findings, known-findings matching, evidence writing, verdicts."""
from __future__ import annotations

import ast
import json
import os
import time
from dataclasses import dataclass, field

from .cfg import CFG
from .model import AnalysisError, FuncInfo, Repo, head, norm

VERIF = os.path.dirname(os.path.dirname(os.path.abspath(__file__)))
KNOWN_FILE = os.path.join(VERIF, "known_findings.txt")
EVIDENCE_DIR = os.path.join(VERIF, "evidence")


def _jsonable(o):
    """evidence must always be writable: analysis objects a rule parked in ctx.extra are rendered as text"""
    if isinstance(o, (set, frozenset)):
        return sorted(map(str, o))
    return str(o)[:300]


@dataclass
class Finding:
    prop: str
    rule: str
    at: str            # relpath:Qual.name
    construct: str     # normalised text
    reason: str
    line: int = 0

    def key(self) -> tuple:
        return (self.prop, self.rule, self.at, self.construct)

    def human(self) -> str:
        path, _, qual = self.at.partition(":")
        return f"{path}:{self.line} {qual or '-'} rule={self.rule} construct=`{self.construct}` -- {self.reason}"


@dataclass
class KnownEntry:
    prop: str
    rule: str
    at: str
    construct: str
    input: str
    matched: bool = False


def load_known(path: str = KNOWN_FILE) -> list[KnownEntry]:
    out = []
    if not os.path.exists(path):
        return out
    with open(path, encoding="utf-8") as fh:
        for line in fh:
            line = line.rstrip("\n")
            if not line.startswith("finding:"):
                continue
            body = line[len("finding:"):].strip()
            # fields: property=.. rule=.. at=.. construct=<...> input=<...>   (construct/input may contain spaces)
            try:
                pre, rest = body.split(" construct=", 1)
                construct, inp = rest.split(" input=", 1)
                kv = dict(x.split("=", 1) for x in pre.split())
                out.append(KnownEntry(kv["property"], kv["rule"], kv["at"], construct.strip(), inp.strip()))
            except Exception as e:
                raise AnalysisError(f"malformed known_findings line: {line!r}: {e}") from e
    return out


class Ctx:
    """Collects what a property's rules examined and found."""

    def __init__(self, prop: str, repo: Repo, tier: str = "quick") -> None:
        self.prop = prop
        self.repo = repo
        self.tier = tier
        self.instances: list[dict] = []
        self.findings: list[Finding] = []
        self.notes: list[str] = []
        self.assumptions: list[str] = []
        self.floors: dict[str, tuple[int, int]] = {}
        self.functions: set[str] = set()
        self.extra: dict = {}
        self._cfgs: dict[int, CFG] = {}
        self.obligations = 0
        self.discharged = 0

    # ---------------------------------------------------------------- helpers
    def cfg(self, fi: FuncInfo) -> CFG:
        self.functions.add(fi.where)
        k = id(fi.node)
        if k not in self._cfgs:
            self._cfgs[k] = CFG(fi.node)
        return self._cfgs[k]

    def rule_id(self, rule: str) -> str:
        return rule if rule.startswith(self.prop) else f"{self.prop}.{rule}"

    def instance(self, rule: str, where: str, desc: str, *, ok: bool = True, nontrivial: bool = True,
                 facts: list[str] | None = None, line: int = 0) -> None:
        self.instances.append({"rule": self.rule_id(rule), "at": where, "line": line, "instance": desc, "ok": ok,
                               "nontrivial": nontrivial, **({"facts": facts} if facts else {})})

    def violation(self, rule: str, fi_or_where, node: ast.AST | str | None, reason: str) -> None:
        where = fi_or_where.where if hasattr(fi_or_where, "where") else str(fi_or_where)
        construct = node if isinstance(node, str) else (head(node) if node is not None else "-")
        line = getattr(node, "lineno", 0) if not isinstance(node, str) and node is not None else 0
        f = Finding(self.prop, self.rule_id(rule), where, construct, reason, line)
        if f.key() not in {g.key() for g in self.findings}:
            self.findings.append(f)

    def check(self, cond: bool, rule: str, fi_or_where, node, desc: str, reason: str = "",
              facts: list[str] | None = None) -> bool:
        """One rule instance: counted, and a violation when cond is false."""
        where = fi_or_where.where if hasattr(fi_or_where, "where") else str(fi_or_where)
        if hasattr(fi_or_where, "where") and isinstance(fi_or_where, FuncInfo):
            self.functions.add(where)
        line = getattr(node, "lineno", 0) if node is not None and not isinstance(node, str) else 0
        self.instance(rule, where, desc, ok=bool(cond), facts=facts, line=line)
        if not cond:
            self.violation(rule, fi_or_where, node, reason or desc)
        return bool(cond)

    def anchor(self, value, what: str):
        if value is None or value == [] or value is False:
            raise AnalysisError(f"anchor-lost: {what}")
        return value

    def floor(self, rule: str, found: int, minimum: int) -> None:
        self.floors[self.rule_id(rule)] = (found, minimum)
        if found < minimum:
            raise AnalysisError(f"instance floor not met for {self.rule_id(rule)}: found {found} < confirmed {minimum}")

    def note(self, text: str) -> None:
        self.notes.append(text)

    def assume(self, text: str) -> None:
        if text not in self.assumptions:
            self.assumptions.append(text)

    def oblige(self, ok: bool) -> None:
        self.obligations += 1
        if ok:
            self.discharged += 1


def finish(ctx: Ctx, *, t0: float, level: str = "other", explanation: str = "", rule_text: str = "",
           selftest: dict | None = None, known_path: str = KNOWN_FILE, write: bool = True,
           evidence_dir: str = EVIDENCE_DIR, quiet: bool = False) -> int:
    """Match findings against known findings, print verdict lines, write evidence; return exit code."""
    known = [k for k in load_known(known_path) if k.prop == ctx.prop]
    unlisted, listed = [], []
    for f in ctx.findings:
        hit = next((k for k in known if (k.rule, k.at, k.construct) == (f.rule, f.at, f.construct)), None)
        if hit:
            hit.matched = True
            listed.append((f, hit))
        else:
            unlisted.append(f)
    stale = [k for k in known if not k.matched]
    out = []
    for f, k in listed:
        out.append(f"KNOWN-FINDING: property={ctx.prop} rule={f.rule} at={f.at} construct=`{f.construct}` input={k.input}")
    for k in stale:
        out.append(f"NOTE stale-known-finding (no longer reported; entry can become a fixed: line): property={ctx.prop} "
                   f"rule={k.rule} at={k.at}")
    for n in ctx.notes:
        out.append("NOTE " + n)
    vpath = os.path.join(evidence_dir, f"{ctx.prop}.violations.json")
    if unlisted:
        out.append(f"VIOLATION property={ctx.prop} replay={vpath}")
        for f in unlisted:
            out.append("  " + f.human())
    distinct = len({(i["rule"], i["at"], i["instance"]) for i in ctx.instances if i["nontrivial"]})
    samples = []
    seen_rules = set()
    for i in ctx.instances:
        if i["rule"] not in seen_rules:
            seen_rules.add(i["rule"])
            samples.append({k: v for k, v in i.items() if k != "nontrivial"})
    samples = samples[:40]
    coverage = {
        "explanation": explanation,
        "evaluations": len(ctx.instances),
        "distinct_nontrivial": distinct,
        "rule": rule_text or ("rule instances (sites, paths, table rows, obligations) found by scanning /repo's "
                              "current source; distinct = distinct (rule, function, construct); non-trivial = the "
                              "site exists and at least one guard/edge/term was inspected"),
        "samples": samples,
        "exhaustive": True,
        "files_analysed": len(ctx.repo.modules),
        "functions_analysed": sorted(ctx.functions),
        "instance_floors": {k: {"found": a, "confirmed_floor": b} for k, (a, b) in sorted(ctx.floors.items())},
        "instances_by_rule": _by_rule(ctx.instances),
        "known_findings_matched": [f"{f.rule} {f.at} `{f.construct}`" for f, _ in listed],
        "unlisted_violations": [f.human() for f in unlisted],
        **ctx.extra,
    }
    if level == "proof":
        coverage.update({"obligations": ctx.obligations, "discharged": ctx.discharged,
                         "checker_cmd": f"/venv/bin/python -m sa.check {ctx.prop}",
                         "trusted_base": ["CPython ast parser", "sa/poly.py exact integer polynomial arithmetic",
                                          "reading of FP2Value method bodies as straight-line arithmetic"]})
    if selftest is not None:
        coverage["selftest"] = selftest
    ev = {
        "property_id": ctx.prop,
        "tier": ctx.tier,
        "seed": int(os.environ.get("VERIF_SEED", "0") or 0),
        "level": level,
        "coverage": coverage,
        "assumptions": ctx.assumptions,
        "wall_s": round(time.time() - t0, 3),
        "violations": len(unlisted),
    }
    if write:
        os.makedirs(evidence_dir, exist_ok=True)
        with open(os.path.join(evidence_dir, f"{ctx.prop}.json"), "w", encoding="utf-8") as fh:
            json.dump(ev, fh, indent=1, sort_keys=False, default=_jsonable)
            fh.write("\n")
        if unlisted:
            with open(vpath, "w", encoding="utf-8") as fh:
                json.dump([f.__dict__ for f in unlisted], fh, indent=1, default=_jsonable)
        elif os.path.exists(vpath):
            os.remove(vpath)
    if not quiet:
        try:
            _emit(ctx, out, distinct, listed, unlisted)
        except BrokenPipeError:
            pass
    return 1 if unlisted else 0


def _emit(ctx, out, distinct, listed, unlisted) -> None:
    if True:
        print(f"[{ctx.prop}] files={len(ctx.repo.modules)} functions={len(ctx.functions)} "
              f"instances={len(ctx.instances)} distinct={distinct} findings={len(ctx.findings)} "
              f"(known={len(listed)}, unlisted={len(unlisted)})")
        for line in out:
            print(line)


def _by_rule(instances: list[dict]) -> dict:
    d: dict[str, int] = {}
    for i in instances:
        d[i["rule"]] = d.get(i["rule"], 0) + 1
    return dict(sorted(d.items()))
