"""
Self-validation (thorough tier): every rule has witnesses = small source edits kept in memory
(never written under /repo) on which the rule MUST fire and name the expected rule, and repaired
twins of known findings on which it MUST be silent.  The mutated source is compile()d (not run).
"""
from __future__ import annotations

import io
import os
from concurrent.futures import ProcessPoolExecutor
from contextlib import redirect_stdout

from .model import AnalysisError


def _apply(root: str, w: dict) -> tuple[dict | None, str]:
    overrides = {}
    edits = w["edits"] if "edits" in w else [w]
    for e in edits:
        path = os.path.join(root, e["file"])
        try:
            src = overrides.get(e["file"]) or open(path, encoding="utf-8").read()
        except OSError:
            return None, f"file {e['file']} missing"
        n = src.count(e["old"])
        if n != 1:
            return None, f"snippet occurs {n} times in {e['file']}"
        new = src.replace(e["old"], e["new"])
        try:
            compile(new, e["file"], "exec")
        except SyntaxError as ex:
            return None, f"mutant does not compile: {ex}"
        overrides[e["file"]] = new
    return overrides, ""


def _run_one(args) -> dict:
    pid, root, w = args
    from .check import run_property
    from .core import load_known
    res = {"name": w["name"], "kind": w.get("kind", "break"), "rule": w.get("rule", "")}
    overrides, why = _apply(root, w)
    if overrides is None:
        res.update(status="stale", detail=why)
        return res
    buf = io.StringIO()
    try:
        with redirect_stdout(buf):
            code, ctx = run_property(pid, root, "quick", overrides=overrides, write=False, quiet=True)
    except AnalysisError as e:
        # an edit that destroys an anchor is reported as analysis error, which is an acceptable way to fire
        res.update(status="fired-as-analysis-error" if w.get("kind", "break") == "break" and w.get("allow_error") else "error",
                   detail=str(e))
        return res
    except Exception as e:  # noqa: BLE001
        res.update(status="error", detail=f"{type(e).__name__}: {e}")
        return res
    known = {(k.rule, k.at, k.construct) for k in load_known() if k.prop == pid}
    unlisted = [f for f in ctx.findings if (f.rule, f.at, f.construct) not in known]
    if w.get("kind", "break") == "break":
        hits = [f for f in unlisted if w["rule"] in f.rule]
        if hits:
            res.update(status="fired", detail=hits[0].human()[:300])
        else:
            res.update(status="missed", detail="unlisted findings: " + "; ".join(f.rule for f in unlisted)[:300])
    else:   # repaired twin: the named rule must not report the construct any more
        still = [f for f in ctx.findings if w["rule"] in f.rule and (w.get("at", "") in f.at)
                 and (w.get("construct", "") in f.construct)]
        if still or unlisted:
            res.update(status="not-silent", detail="; ".join(f.human() for f in (still + unlisted))[:400])
        else:
            res.update(status="silent", detail="")
    return res


def run_selftest(pid: str, root: str) -> dict:
    from .check import load_prop
    mod = load_prop(pid)
    witnesses = list(getattr(mod, "WITNESSES", []))
    if not witnesses:
        return {"witnesses": 0, "failed": [], "results": []}
    jobs = [(pid, root, w) for w in witnesses]
    workers = min(16, len(jobs), os.cpu_count() or 4)
    with ProcessPoolExecutor(max_workers=workers) as ex:
        results = list(ex.map(_run_one, jobs))
    failed = [f"{r['name']}: {r['status']} ({r['detail']})" for r in results
              if r["status"] in ("missed", "not-silent", "error")]
    stale = [r["name"] for r in results if r["status"] == "stale"]
    fired = sum(1 for r in results if r["status"] in ("fired", "fired-as-analysis-error", "silent"))
    out = {"witnesses": len(witnesses), "fired_or_silent_as_expected": fired, "stale": stale,
           "failed": failed, "results": results}
    # a stale witness means /repo's text changed under the witness: it is reported, not failed, but at least
    # half of the witnesses must still apply or the self-test is void
    if witnesses and len(stale) * 2 > len(witnesses):
        out["failed"] = failed + [f"more than half of the witnesses are stale ({len(stale)}/{len(witnesses)})"]
    return out


def main() -> None:
    import sys
    pid = sys.argv[1].upper()
    root = sys.argv[2] if len(sys.argv) > 2 else "/repo"
    out = run_selftest(pid, root)
    for r in out["results"]:
        print(f"{r['status']:<10} {r['name']:<50} {r['detail'][:160]}")
    print("failed:", out["failed"])


if __name__ == "__main__":
    main()
