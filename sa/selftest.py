"""
Self-validation (thorough tier): every rule has witnesses = small source edits kept in memory
(never written under /repo) on which the rule MUST fire and name the expected rule, and repaired
twins of known findings on which it MUST be silent.  The mutated source is compile()d (not run).
"""
from __future__ import annotations

import io
import os
from concurrent.futures import ProcessPoolExecutor
from contextlib import redirect_stdout

from .model import AnalysisError


def _parse_unified(diff_text: str, meta: dict | None = None) -> dict[str, list]:
    """{relpath: [(old_start, [lines with ' ', '-', '+' prefixes])]}; meta (if given) receives 'new' and 'deleted' path sets"""
    import re
    files: dict[str, list] = {}
    cur = None
    hunk = None
    header = True           # between a `diff` line and the first `@@`: `---` / `+++` are file headers there, hunk content elsewhere
    old_path = None
    left = [0, 0]           # remaining old / new lines of the current hunk
    for line in diff_text.splitlines():
        if hunk is not None and (left[0] > 0 or left[1] > 0) and (line[:1] in (" ", "-", "+") or line == ""):
            hunk[1].append(line if line else " ")
            c = line[:1] or " "
            if c in (" ", "-"):
                left[0] -= 1
            if c in (" ", "+"):
                left[1] -= 1
            continue
        if line.startswith("diff "):
            header, hunk, cur = True, None, None
        elif header and line.startswith("--- "):
            old_path = line[4:].strip()
        elif header and line.startswith("+++ "):
            path = line[4:].strip()
            if path == "/dev/null":
                path = old_path[2:] if old_path.startswith("a/") else old_path
                if meta is not None:
                    meta.setdefault("deleted", set()).add(path)
            else:
                path = path[2:] if path.startswith("b/") else path
                if old_path == "/dev/null" and meta is not None:
                    meta.setdefault("new", set()).add(path)
            cur = files.setdefault(path, [])
            hunk = None
        elif line.startswith("@@") and cur is not None:
            m = re.match(r"@@ -(\d+)(?:,(\d+))? \+\d+(?:,(\d+))? @@", line)
            hunk = (int(m.group(1)), [])
            left = [int(m.group(2)) if m.group(2) is not None else 1, int(m.group(3)) if m.group(3) is not None else 1]
            cur.append(hunk)
            header = False
        elif line.startswith("\\"):
            continue
    return files


def _apply_patch_text(src: str, hunks: list) -> str | None:
    lines = src.split("\n")
    out = []
    pos = 0
    for start, body in hunks:
        old = [l[1:] for l in body if l[:1] in (" ", "-")]
        new = [l[1:] for l in body if l[:1] in (" ", "+")]
        # locate the old block at/after pos (exact match, tolerate small drift)
        idx = None
        for cand in [start - 1, *range(max(pos, 0), len(lines))]:
            if cand >= pos and lines[cand:cand + len(old)] == old:
                idx = cand
                break
        if idx is None:
            return None
        out.extend(lines[pos:idx])
        out.extend(new)
        pos = idx + len(old)
    out.extend(lines[pos:])
    return "\n".join(out)


def _apply(root: str, w: dict) -> tuple[dict | None, str]:
    overrides = {}
    if "patch" in w:
        try:
            text = open(w["patch"], encoding="utf-8").read()
        except OSError:
            return None, f"patch {w['patch']} missing"
        meta: dict = {}
        for rel, hunks in _parse_unified(text, meta).items():
            if rel in meta.get("deleted", ()):
                overrides[rel] = None
                continue
            if rel in meta.get("new", ()):
                overrides[rel] = "\n".join(l[1:] for _, body in hunks for l in body if l[:1] == "+") + "\n"
                if rel.endswith(".py"):
                    try:
                        compile(overrides[rel], rel, "exec")
                    except SyntaxError as ex:
                        return None, f"mutant does not compile: {ex}"
                continue
            try:
                src = open(os.path.join(root, rel), encoding="utf-8").read()
            except OSError:
                return None, f"file {rel} missing"
            new = _apply_patch_text(src, hunks)
            if new is None:
                return None, f"patch does not apply to {rel}"
            try:
                compile(new, rel, "exec")
            except SyntaxError as ex:
                return None, f"mutant does not compile: {ex}"
            overrides[rel] = new
        return overrides, ""
    edits = w["edits"] if "edits" in w else [w]
    for e in edits:
        path = os.path.join(root, e["file"])
        try:
            src = overrides.get(e["file"]) or open(path, encoding="utf-8").read()
        except OSError:
            return None, f"file {e['file']} missing"
        n = src.count(e["old"])
        if n != 1:
            return None, f"snippet occurs {n} times in {e['file']}"
        new = src.replace(e["old"], e["new"])
        try:
            compile(new, e["file"], "exec")
        except SyntaxError as ex:
            return None, f"mutant does not compile: {ex}"
        overrides[e["file"]] = new
    return overrides, ""


def _run_one(args) -> dict:
    pid, root, w = args
    from .check import run_property
    from .core import load_known
    res = {"name": w["name"], "kind": w.get("kind", "break"), "rule": w.get("rule", "")}
    overrides, why = _apply(root, w)
    if overrides is None:
        res.update(status="stale", detail=why)
        return res
    buf = io.StringIO()
    try:
        with redirect_stdout(buf):
            code, ctx = run_property(pid, root, "quick", overrides=overrides, write=False, quiet=True)
    except AnalysisError as e:
        if w.get("kind") == "refactor":
            exp = w.get("expected_exit", 0)
            res.update(status="not-silent" if exp == 0 else "known-false-alarm", detail=f"exit 2: {e}"[:300])
            return res
        if w.get("kind") == "recorded-miss":
            res.update(status="recorded-miss-now-undecided", detail=str(e)[:200])
            return res
        # an edit that destroys an anchor is reported as analysis error, which is an acceptable way to fire
        res.update(status="fired-as-analysis-error" if w.get("kind", "break") == "break" and w.get("allow_error") else "error",
                   detail=str(e))
        return res
    except Exception as e:  # noqa: BLE001
        res.update(status="error", detail=f"{type(e).__name__}: {e}")
        return res
    if res["kind"] == "refactor":
        exp = w.get("expected_exit", 0)
        if code == 0:
            res.update(status="silent" if exp == 0 else "repaired", detail="")
        elif exp == 0:
            res.update(status="not-silent", detail=f"exit {code}: " + "; ".join(f.human() for f in ctx.findings)[:300])
        else:
            res.update(status="known-false-alarm", detail=f"exit {code} (recorded in refactors/expected.json, to be repaired): "
                       + "; ".join(sorted({f.rule for f in ctx.findings}))[:200])
        return res
    known = {(k.rule, k.at, k.construct) for k in load_known() if k.prop == pid}
    unlisted = [f for f in ctx.findings if (f.rule, f.at, f.construct) not in known]
    if w.get("kind") == "recorded-miss":
        res.update(status="recorded-miss-now-detected" if unlisted else "recorded-miss", detail="; ".join(sorted({f.rule for f in unlisted}))[:200])
        return res
    if w.get("kind", "break") == "break":
        hits = [f for f in unlisted if w["rule"] in f.rule]
        if hits:
            res.update(status="fired", detail=hits[0].human()[:300])
        else:
            res.update(status="missed", detail="unlisted findings: " + "; ".join(f.rule for f in unlisted)[:300])
    else:   # repaired twin: the named rule must not report the construct any more
        still = [f for f in ctx.findings if w["rule"] in f.rule and (w.get("at", "") in f.at)
                 and (w.get("construct", "") in f.construct)]
        if still or unlisted:
            res.update(status="not-silent", detail="; ".join(f.human() for f in (still + unlisted))[:400])
        else:
            res.update(status="silent", detail="")
    return res


def run_selftest(pid: str, root: str) -> dict:
    from .check import load_prop
    mod = load_prop(pid)
    witnesses = list(getattr(mod, "WITNESSES", []))
    # seeded changes (produced independently by sub-agents, confirmed to break the property while the suite stays green) are witnesses too
    sdir = os.path.join(os.path.dirname(os.path.dirname(os.path.abspath(__file__))), "seeded")
    if os.path.isdir(sdir):
        for name in sorted(os.listdir(sdir)):
            pf = os.path.join(sdir, name, "patch.diff")
            mf = os.path.join(sdir, name, "meta.json")
            if name.startswith(pid + "-") and os.path.exists(pf) and os.path.exists(mf):
                import json as _json
                meta = _json.load(open(mf, encoding="utf-8"))
                if meta.get("expected_static") is False:
                    continue
                # a seeded change the property's check does not report (yet) is run and listed, but does not fail the self-test
                must = meta.get("detected_by_own_check", True)
                witnesses.append({"name": f"seeded {name}", "patch": pf, "rule": meta.get("expected_rule", ""),
                                  "kind": "break" if must else "recorded-miss"})
    # behaviour-preserving refactorings (negative witnesses): the check must stay silent (exit 0) on each of them
    rdir = os.path.join(os.path.dirname(os.path.dirname(os.path.abspath(__file__))), "refactors")
    expected_path = os.path.join(rdir, "expected.json")
    expected = {}
    if os.path.exists(expected_path):
        import json as _json
        expected = _json.load(open(expected_path, encoding="utf-8"))
    if os.path.isdir(rdir):
        for name in sorted(os.listdir(rdir)):
            pf = os.path.join(rdir, name, "patch.diff")
            if os.path.exists(pf):
                exp = expected.get(name, {}).get(pid, 0)
                witnesses.append({"name": f"refactor {name}", "patch": pf, "rule": "", "kind": "refactor", "expected_exit": exp})
    if not witnesses:
        return {"witnesses": 0, "failed": [], "results": []}
    jobs = [(pid, root, w) for w in witnesses]
    cpus = os.cpu_count() or 4
    workers = min(int(os.environ.get("SA_WORKERS", "16")), len(jobs), cpus)
    try:
        if os.getloadavg()[0] > 2 * cpus:          # many self-tests at once (one per module): do not multiply the load by 16
            workers = min(workers, 3)
    except OSError:
        pass
    with ProcessPoolExecutor(max_workers=workers) as ex:
        results = list(ex.map(_run_one, jobs))
    failed = [f"{r['name']}: {r['status']} ({r['detail']})" for r in results
              if r["status"] in ("missed", "not-silent", "error")]
    stale = [r["name"] for r in results if r["status"] == "stale"]
    fired = sum(1 for r in results if r["status"] in ("fired", "fired-as-analysis-error", "silent", "repaired"))
    out = {"witnesses": len(witnesses), "fired_or_silent_as_expected": fired, "stale": stale,
           "seeded_recorded_misses": [r["name"] for r in results if r["status"].startswith("recorded-miss")],
           "refactor_known_false_alarms": [r["name"] for r in results if r["status"] == "known-false-alarm"],
           "failed": failed, "results": results}
    # a stale witness means /repo's text changed under the witness: it is reported, not failed, but at least
    # half of the witnesses must still apply or the self-test is void
    if witnesses and len(stale) * 2 > len(witnesses):
        out["failed"] = failed + [f"more than half of the witnesses are stale ({len(stale)}/{len(witnesses)})"]
    return out


def main() -> None:
    import sys
    pid = sys.argv[1].upper()
    root = sys.argv[2] if len(sys.argv) > 2 else "/repo"
    out = run_selftest(pid, root)
    for r in out["results"]:
        print(f"{r['status']:<10} {r['name']:<50} {r['detail'][:160]}")
    print("failed:", out["failed"])


if __name__ == "__main__":
    main()
