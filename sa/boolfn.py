"""
Decision tables: evaluate a small predicate function for all assignments of its atoms by walking its
AST (assignments of locals, if/elif/else, return of boolean expressions).  Unknown syntax aborts.
"""
from __future__ import annotations

import ast
import itertools

from .model import AnalysisError, FuncInfo, norm


class _Return(Exception):
    def __init__(self, value) -> None:
        self.value = value


class TableEvaluator:
    """
    atom_of(expr) -> key | None : recognises an atom (fingerprint) and names it.
    effects: statements that are neither assignment/if/return are passed to on_effect(stmt, env) if given,
    otherwise ignored when they are logging calls and rejected otherwise.
    """

    def __init__(self, fi: FuncInfo, atom_of, *, on_effect=None, ignore_calls=("self.logger.", "logger.")) -> None:
        self.fi = fi
        self.atom_of = atom_of
        self.on_effect = on_effect
        self.ignore_calls = ignore_calls
        self.atoms_seen: set[str] = set()

    def discover(self) -> list[str]:
        for n in ast.walk(self.fi.node):
            if isinstance(n, ast.expr):
                k = self.atom_of(n)
                if k is not None:
                    self.atoms_seen.add(k)
        return sorted(self.atoms_seen)

    def table(self, atoms: list[str]):
        rows = {}
        for vals in itertools.product([False, True], repeat=len(atoms)):
            env = dict(zip(atoms, vals))
            rows[vals] = self.run(env)
        return rows

    def run(self, assignment: dict):
        env = {"__atoms__": assignment}
        try:
            self._block(self.fi.node.body, env)
        except _Return as r:
            return r.value
        return None

    def _block(self, stmts, env) -> None:
        for s in stmts:
            self._stmt(s, env)

    def _stmt(self, s, env) -> None:
        if isinstance(s, ast.Expr) and isinstance(s.value, ast.Constant):
            return      # docstring
        if isinstance(s, ast.Return):
            raise _Return(self.eval(s.value, env) if s.value is not None else None)
        if isinstance(s, ast.If):
            if self.truth(self.eval(s.test, env)):
                self._block(s.body, env)
            else:
                self._block(s.orelse, env)
            return
        if isinstance(s, (ast.Assign, ast.AnnAssign)):
            tgts = s.targets if isinstance(s, ast.Assign) else [s.target]
            if len(tgts) == 1 and isinstance(tgts[0], ast.Name) and s.value is not None:
                env[tgts[0].id] = self.eval(s.value, env)
                return
            if self.on_effect is not None:
                self.on_effect(s, env, self)
                return
            raise AnalysisError(f"decision table: unsupported assignment `{norm(s)}` in {self.fi.qualname}")
        if isinstance(s, ast.Pass):
            return
        if isinstance(s, ast.Expr) and isinstance(s.value, ast.Call):
            from .model import chain
            c = chain(s.value.func) or ""
            if c.startswith(self.ignore_calls):
                return
            if self.on_effect is not None:
                self.on_effect(s, env, self)
                return
        if self.on_effect is not None:
            self.on_effect(s, env, self)
            return
        raise AnalysisError(f"decision table: unsupported statement `{norm(s)[:80]}` in {self.fi.qualname}")

    @staticmethod
    def truth(v) -> bool:
        if isinstance(v, Opaque):
            raise AnalysisError(f"decision table: truth value of opaque expression `{v.text}` needed")
        return bool(v)

    def eval(self, e, env):
        k = self.atom_of(e)
        if k is not None:
            if k not in env["__atoms__"]:
                raise AnalysisError(f"decision table: atom {k} not in the declared atom list")
            return env["__atoms__"][k]
        if isinstance(e, ast.Constant):
            return e.value
        if isinstance(e, ast.Name):
            if e.id in env:
                return env[e.id]
            return Opaque(e.id)
        if isinstance(e, ast.UnaryOp) and isinstance(e.op, ast.Not):
            return not self.truth(self.eval(e.operand, env))
        if isinstance(e, ast.BoolOp):
            if isinstance(e.op, ast.And):
                v = True
                for x in e.values:
                    v = self.eval(x, env)
                    if not self.truth(v):
                        return v
                return v
            v = False
            for x in e.values:
                v = self.eval(x, env)
                if self.truth(v):
                    return v
            return v
        if isinstance(e, ast.Call):
            from .model import chain
            if chain(e.func) == "bool" and len(e.args) == 1:
                return self.truth(self.eval(e.args[0], env))
        if isinstance(e, ast.IfExp):
            return self.eval(e.body, env) if self.truth(self.eval(e.test, env)) else self.eval(e.orelse, env)
        return Opaque(norm(e))


class Opaque:
    def __init__(self, text: str) -> None:
        self.text = text

    def __repr__(self) -> str:
        return f"<{self.text}>"

    def __eq__(self, other) -> bool:
        return isinstance(other, Opaque) and other.text == self.text

    def __hash__(self) -> int:
        return hash(self.text)
