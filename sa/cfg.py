"""
Statement-level control-flow graph with short-circuit conditions split into atoms, exceptional edges,
try/except/finally, loops.  Queries are reachability-with-cuts (equivalent to dominance /
post-dominance on these small graphs, and simpler to get right).
"""
from __future__ import annotations

import ast
from dataclasses import dataclass, field

from .model import AnalysisError, chain, norm, parent

# calls that cannot raise for the purposes of exceptional edges (logging, type tests)
_NORAISE_NAMES = {"len", "isinstance", "issubclass", "hasattr", "callable", "cast", "id", "repr", "str", "bool",
                  "hexlify", "time", "iscoroutine", "type", "format_exception", "tuple", "list", "set", "dict"}
_NORAISE_PREFIX = ("self.logger.", "logger.", "logging.", "self._logger.", "overlay.logger.")


def call_may_raise(call: ast.Call) -> bool:
    c = chain(call.func)
    if c is None:
        return True
    if c in _NORAISE_NAMES:
        return False
    return not c.startswith(_NORAISE_PREFIX)


def expr_may_raise(expr: ast.AST | None) -> bool:
    if expr is None:
        return False
    for n in ast.walk(expr):
        if isinstance(n, ast.Call) and call_may_raise(n):
            return True
        if isinstance(n, (ast.Subscript, ast.Await, ast.Yield, ast.YieldFrom)):
            return True
        if isinstance(n, ast.BinOp) and isinstance(n.op, (ast.Div, ast.FloorDiv, ast.Mod)):
            return True
    return False


@dataclass(eq=False)
class Node:
    id: int
    kind: str                    # entry | exit | raise | stmt | cond | loop | dispatch | join
    ast: ast.AST | None = None
    succ: list = field(default_factory=list)      # (Node, label)   label: None | True | False | "exc"
    pred: list = field(default_factory=list)

    def __repr__(self) -> str:
        txt = ""
        if self.ast is not None:
            from .model import head
            txt = head(self.ast)[:60]
        return f"<{self.id}:{self.kind} {txt}>"


@dataclass
class _Ctx:
    ret: Node
    exc: Node
    brk: Node | None = None
    cont: Node | None = None


def _catches_all(h: ast.ExceptHandler) -> bool:
    if h.type is None:
        return True
    names = []
    t = h.type
    for e in (t.elts if isinstance(t, ast.Tuple) else [t]):
        names.append(chain(e))
    return any(n in ("Exception", "BaseException") for n in names)


class CFG:
    def __init__(self, funcnode: ast.FunctionDef | ast.AsyncFunctionDef | ast.Lambda) -> None:
        self.func = funcnode
        self.nodes: list[Node] = []
        self.by_ast: dict[int, list[Node]] = {}
        self.entry = self._new("entry")
        self.exit = self._new("exit")
        self.raise_exit = self._new("raise")
        ctx = _Ctx(ret=self.exit, exc=self.raise_exit)
        if isinstance(funcnode, ast.Lambda):
            n = self._new("stmt", funcnode.body)
            self._edge(n, self.exit)
            first = n
        else:
            first = self._block(funcnode.body, self.exit, ctx)
        self._edge(self.entry, first)

    # ------------------------------------------------------------ construction
    def _new(self, kind: str, a: ast.AST | None = None) -> Node:
        n = Node(len(self.nodes), kind, a)
        self.nodes.append(n)
        if a is not None:
            self.by_ast.setdefault(id(a), []).append(n)
        return n

    def _edge(self, a: Node, b: Node, label=None) -> None:
        a.succ.append((b, label))
        b.pred.append((a, label))

    def _block(self, stmts, nxt: Node, ctx: _Ctx) -> Node:
        for s in reversed(stmts):
            nxt = self._stmt(s, nxt, ctx)
        return nxt

    def _simple(self, s: ast.AST, nxt: Node, ctx: _Ctx, may_raise: bool | None = None) -> Node:
        n = self._new("stmt", s)
        self._edge(n, nxt)
        if may_raise if may_raise is not None else expr_may_raise(s):
            self._edge(n, ctx.exc, "exc")
        return n

    def _cond(self, test: ast.AST, t: Node, f: Node, ctx: _Ctx) -> Node:
        if isinstance(test, ast.UnaryOp) and isinstance(test.op, ast.Not):
            return self._cond(test.operand, f, t, ctx)
        if isinstance(test, ast.BoolOp):
            vals = list(test.values)
            if isinstance(test.op, ast.And):
                nxt = t
                for v in reversed(vals):
                    nxt = self._cond(v, nxt, f, ctx)
                return nxt
            nxt = f
            for v in reversed(vals):
                nxt = self._cond(v, t, nxt, ctx)
            return nxt
        if isinstance(test, ast.Constant):
            return t if test.value else f
        n = self._new("cond", test)
        self._edge(n, t, True)
        self._edge(n, f, False)
        if expr_may_raise(test):
            self._edge(n, ctx.exc, "exc")
        return n

    def _stmt(self, s: ast.stmt, nxt: Node, ctx: _Ctx) -> Node:  # noqa: C901, PLR0911, PLR0912
        if isinstance(s, ast.If):
            t = self._block(s.body, nxt, ctx)
            f = self._block(s.orelse, nxt, ctx)
            return self._cond(s.test, t, f, ctx)
        if isinstance(s, ast.While):
            loop = self._new("loop", s)
            inner = _Ctx(ctx.ret, ctx.exc, brk=nxt, cont=loop)
            body = self._block(s.body, loop, inner)
            orelse = self._block(s.orelse, nxt, ctx)
            self._edge(loop, self._cond(s.test, body, orelse, ctx))
            return loop
        if isinstance(s, (ast.For, ast.AsyncFor)):
            it = self._new("stmt", s.iter)          # evaluation of the iterable
            loop = self._new("loop", s)
            self._edge(it, loop)
            if expr_may_raise(s.iter):
                self._edge(it, ctx.exc, "exc")
            inner = _Ctx(ctx.ret, ctx.exc, brk=nxt, cont=loop)
            body = self._block(s.body, loop, inner)
            orelse = self._block(s.orelse, nxt, ctx)
            self._edge(loop, body, True)
            self._edge(loop, orelse, False)
            return it
        if isinstance(s, (ast.With, ast.AsyncWith)):
            body = self._block(s.body, nxt, ctx)
            n = self._new("stmt", s)
            self._edge(n, body)
            if any(expr_may_raise(i.context_expr) for i in s.items):
                self._edge(n, ctx.exc, "exc")
            return n
        if isinstance(s, ast.Try) or s.__class__.__name__ == "TryStar":
            return self._try(s, nxt, ctx)
        if isinstance(s, ast.Return):
            n = self._new("stmt", s)
            self._edge(n, ctx.ret)
            if expr_may_raise(s.value):
                self._edge(n, ctx.exc, "exc")
            return n
        if isinstance(s, ast.Raise):
            n = self._new("stmt", s)
            self._edge(n, ctx.exc, "exc")
            return n
        if isinstance(s, ast.Break):
            n = self._new("stmt", s)
            if ctx.brk is None:
                raise AnalysisError("break outside loop")
            self._edge(n, ctx.brk)
            return n
        if isinstance(s, ast.Continue):
            n = self._new("stmt", s)
            if ctx.cont is None:
                raise AnalysisError("continue outside loop")
            self._edge(n, ctx.cont)
            return n
        if isinstance(s, ast.Assert):
            fail = self._new("stmt", s)
            self._edge(fail, ctx.exc, "exc")
            return self._cond(s.test, nxt, fail, ctx)
        if isinstance(s, (ast.FunctionDef, ast.AsyncFunctionDef, ast.ClassDef)):
            return self._simple(s, nxt, ctx, may_raise=False)
        if isinstance(s, ast.Match):
            n = self._new("stmt", s.subject)
            for case in s.cases:
                self._edge(n, self._block(case.body, nxt, ctx))
            self._edge(n, nxt)
            return n
        return self._simple(s, nxt, ctx)

    def _try(self, s, nxt: Node, ctx: _Ctx) -> Node:
        if s.finalbody:
            def fin(target: Node) -> Node:
                return self._block(s.finalbody, target, ctx)
            after = fin(nxt)
            outer = _Ctx(ret=fin(ctx.ret), exc=fin(ctx.exc),
                         brk=fin(ctx.brk) if ctx.brk is not None else None,
                         cont=fin(ctx.cont) if ctx.cont is not None else None)
        else:
            after = nxt
            outer = ctx
        if s.handlers:
            dispatch = self._new("dispatch", s)
            caught_all = False
            for h in s.handlers:
                hn = self._new("handler", h)
                self._edge(hn, self._block(h.body, after, outer))
                self._edge(dispatch, hn, "exc")
                caught_all = caught_all or _catches_all(h)
            if not caught_all:
                self._edge(dispatch, outer.exc, "exc")
            body_exc = dispatch
        else:
            body_exc = outer.exc
        orelse = self._block(s.orelse, after, outer)
        inner = _Ctx(ret=outer.ret, exc=body_exc, brk=outer.brk, cont=outer.cont)
        return self._block(s.body, orelse, inner)

    # ------------------------------------------------------------ queries
    def nodes_for(self, a: ast.AST) -> list[Node]:
        """CFG nodes that evaluate the given ast node (walks up to the registered statement / atom)."""
        cur = a
        while cur is not None and cur is not self.func:
            if id(cur) in self.by_ast:
                ns = [n for n in self.by_ast[id(cur)] if n.kind in ("stmt", "cond", "loop", "handler")]
                if isinstance(cur, (ast.For, ast.AsyncFor)):
                    # the For node itself stands for the loop head; its iter is a separate stmt node
                    ns = [n for n in self.by_ast[id(cur)] if n.kind == "loop"]
                if ns:
                    return ns
            cur = parent(cur)
        return []

    def reach(self, starts=None, *, cut_nodes=(), cut_edge=None, cut_out_normal=(), follow_exc=True) -> set[Node]:
        """
        Forward reachability from `starts` (default: entry).
        cut_nodes: nodes that may not be entered.  cut_edge(u, v, label) -> True removes the edge.
        cut_out_normal: nodes whose non-exceptional out-edges are removed ("did not complete normally").
        """
        starts = [self.entry] if starts is None else list(starts)
        cut_nodes = set(cut_nodes)
        cut_out_normal = set(cut_out_normal)
        seen: set[Node] = set()
        todo = [s for s in starts if s not in cut_nodes]
        while todo:
            u = todo.pop()
            if u in seen:
                continue
            seen.add(u)
            for v, lab in u.succ:
                if v in cut_nodes or v in seen:
                    continue
                if lab == "exc" and not follow_exc:
                    continue
                if u in cut_out_normal and lab != "exc":
                    continue
                if cut_edge is not None and cut_edge(u, v, lab):
                    continue
                todo.append(v)
        return seen

    def reachable(self, site: Node) -> bool:
        return site in self.reach()

    def facts_at(self, site: Node) -> list[tuple[ast.AST, bool]]:
        """(atom expr, polarity) pairs that hold on every path from entry to site."""
        out = []
        if site not in self.reach():
            return out
        for c in self.nodes:
            if c.kind not in ("cond", "loop"):
                continue
            for pol in (True, False):
                if not any(lab is pol for _, lab in c.succ):
                    continue
                # cut the (c, pol) edge: if the site becomes unreachable, every path to it used that edge
                r2 = self.reach(cut_edge=lambda u, v, lab, c=c, pol=pol: u is c and lab is pol)
                if site not in r2 and c is not site:
                    out.append((c.ast, pol))
        return out

    def must_pass_edges(self, site: Node, pred) -> bool:
        """True iff every path entry->site uses an edge (u, v, label) with pred(u, v, label)."""
        return site not in self.reach(cut_edge=pred)

    def must_complete(self, site: Node, through: list[Node]) -> bool:
        """True iff every path entry->site passes a node of `through` AND leaves it by a normal edge."""
        through = [t for t in through if t is not site]
        return site not in self.reach(cut_out_normal=through)

    def always_followed_by(self, start: Node, targets: list[Node], *, exits=None, normal_only=True) -> bool:
        """True iff every path from start's normal successors to a normal exit passes a target node."""
        exits = [self.exit] if exits is None else exits
        firsts = [v for v, lab in start.succ if lab != "exc"]
        r = self.reach(firsts, cut_nodes=targets, follow_exc=not normal_only)
        return not any(e in r for e in exits)

    def exits_reaching(self, start: Node | None = None):
        return self.reach([start] if start else None)

    # ------------------------------------------------------------ path enumeration (bounded)
    def paths(self, limit: int = 5000):
        """Acyclic-ish paths entry->exit/raise: each edge used at most once per path."""
        out = []
        stack = [(self.entry, [], frozenset())]
        while stack:
            u, path, used = stack.pop()
            if u in (self.exit, self.raise_exit):
                out.append(path + [(u, None)])
                if len(out) > limit:
                    raise AnalysisError("path enumeration limit exceeded")
                continue
            for i, (v, lab) in enumerate(u.succ):
                key = (u.id, i)
                if key in used:
                    continue
                stack.append((v, path + [(u, lab)], used | {key}))
        return out


def describe_fact(f: tuple[ast.AST, bool]) -> str:
    a, pol = f
    if isinstance(a, (ast.For, ast.AsyncFor)):
        return ("in-loop " if pol else "after-loop ") + norm(a.iter)
    if isinstance(a, ast.While):
        return ("in-loop " if pol else "after-loop ") + norm(a.test)
    return ("" if pol else "not ") + "(" + norm(a) + ")"
