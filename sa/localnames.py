"""
Alpha-normalisation of local variable names before analysis.

Renaming the local variables of a function consistently (alpha-conversion) never changes its behaviour, so analysing
the renamed function is exactly as sound as analysing the original.  Several rules recognise a value through the name
of the local that holds it (`circuit`, `cache`, `offset` ...).  So that a rename in /repo is not reported as a violation
(or as a lost anchor), every function is first mapped back to the spelling the rules were written against:

  * `sa/tables/local_names.json` records, per function of the reviewed tree, its locals in order of first binding, each
    with a *definition fingerprint* (kind of binding + the bound expression with every local replaced by a placeholder);
  * at load time the locals of the current function that the table does not know are matched to table names the current
    function does not use - first by equal fingerprint, then (if as many are left on both sides) in binding order - and
    renamed, provided the new name is not used for anything else in that function.

The renaming is a bijection on the locals of one scope applied to every occurrence (nested scopes that capture the
variable included), i.e. an alpha-conversion: it can only reduce false alarms, it cannot hide a violation.  Parameters,
globals, nonlocals, imports and attribute names are never touched.

  python -m sa.localnames --freeze [root]      regenerates the table (after a reviewed change of /repo)
"""
from __future__ import annotations

import ast
import json
import os

TABLE = os.path.join(os.path.dirname(os.path.abspath(__file__)), "tables", "local_names.json")
_table_cache: dict | None = None


def load_table() -> dict:
    global _table_cache
    if _table_cache is None:
        try:
            with open(TABLE, encoding="utf-8") as fh:
                _table_cache = json.load(fh)
        except OSError:
            _table_cache = {}
    return _table_cache


def _params(fn) -> list[str]:
    a = fn.args
    return [x.arg for x in a.posonlyargs + a.args + a.kwonlyargs] + [x.arg for x in (a.vararg, a.kwarg) if x]


class _Scope:
    def __init__(self, node, qual: str, locals_: set[str]):
        self.node, self.qual, self.locals = node, qual, locals_


def ast_locals(fn) -> set[str]:
    """names bound in fn's own scope (not parameters, globals, nonlocals, imports, nested def/class names)"""
    declared: set[str] = set()
    bound: set[str] = set()
    stack = list(fn.body)
    while stack:
        n = stack.pop()
        if isinstance(n, (ast.FunctionDef, ast.AsyncFunctionDef, ast.ClassDef, ast.Lambda)):
            continue
        if isinstance(n, (ast.ListComp, ast.SetComp, ast.DictComp, ast.GeneratorExp)):
            # only the first iterable and walrus targets belong to our scope
            stack.append(n.generators[0].iter)
            bound.update(x.target.id for x in ast.walk(n) if isinstance(x, ast.NamedExpr) and isinstance(x.target, ast.Name))
            continue
        if isinstance(n, (ast.Global, ast.Nonlocal)):
            declared.update(n.names)
        elif isinstance(n, ast.Name) and isinstance(n.ctx, (ast.Store, ast.Del)):
            bound.add(n.id)
        elif isinstance(n, ast.ExceptHandler) and n.name:
            bound.add(n.name)
        stack.extend(ast.iter_child_nodes(n))
    return bound - declared - set(_params(fn))


def _function_scopes(tree: ast.Module, src: str = "", rel: str = "") -> list[_Scope]:
    """every def (also nested / methods) with the set of names local to it"""
    out: list[_Scope] = []

    def visit(node, prefix):
        for ch in ast.iter_child_nodes(node):
            if isinstance(ch, (ast.FunctionDef, ast.AsyncFunctionDef)):
                q = f"{prefix}{ch.name}"
                out.append(_Scope(ch, q, ast_locals(ch)))
                visit(ch, q + ".")
            elif isinstance(ch, ast.ClassDef):
                visit(ch, f"{prefix}{ch.name}.")
            else:
                visit(ch, prefix)
    visit(tree, "")
    return out


def _placeholder(expr, locals_: set[str]) -> str:
    if expr is None:
        return ""
    touched = [n for n in ast.walk(expr) if isinstance(n, ast.Name) and n.id in locals_]
    saved = [n.id for n in touched]
    for n in touched:
        n.id = "_L"
    try:
        return ast.unparse(expr)
    finally:
        for n, i in zip(touched, saved):
            n.id = i


def _bindings(scope: _Scope) -> list[tuple[str, str]]:
    """[(name, fingerprint)] in order of first binding; fingerprint joins all binding sites of the name"""
    fn, L = scope.node, scope.locals
    sites: dict[str, list[tuple[int, int, str]]] = {}

    def add(name, node, fp):
        if name in L:
            sites.setdefault(name, []).append((node.lineno, node.col_offset, fp))

    def targets(t, path=""):
        if isinstance(t, ast.Name):
            yield t.id, path
        elif isinstance(t, (ast.Tuple, ast.List)):
            for i, e in enumerate(t.elts):
                yield from targets(e, f"{path}[{i}]")
        elif isinstance(t, ast.Starred):
            yield from targets(t.value, path + "*")

    def walk(node):
        for ch in ast.iter_child_nodes(node):
            if isinstance(ch, (ast.FunctionDef, ast.AsyncFunctionDef, ast.Lambda, ast.ClassDef)):
                continue     # their bindings belong to their own scope (a nested def's NAME is a namespace symbol: excluded)
            if isinstance(ch, ast.Assign):
                for t in ch.targets:
                    for n, p in targets(t):
                        add(n, ch, f"assign{p}:{_placeholder(ch.value, L)}")
            elif isinstance(ch, ast.AnnAssign) and isinstance(ch.target, ast.Name):
                add(ch.target.id, ch, f"assign:{_placeholder(ch.value, L)}")
            elif isinstance(ch, ast.AugAssign) and isinstance(ch.target, ast.Name):
                add(ch.target.id, ch, f"aug{type(ch.op).__name__}:{_placeholder(ch.value, L)}")
            elif isinstance(ch, (ast.For, ast.AsyncFor)):
                for n, p in targets(ch.target):
                    add(n, ch, f"for{p}:{_placeholder(ch.iter, L)}")
            elif isinstance(ch, (ast.With, ast.AsyncWith)):
                for it in ch.items:
                    if it.optional_vars is not None:
                        for n, p in targets(it.optional_vars):
                            add(n, ch, f"with{p}:{_placeholder(it.context_expr, L)}")
            elif isinstance(ch, ast.ExceptHandler) and ch.name:
                add(ch.name, ch, f"except:{_placeholder(ch.type, L)}")
            elif isinstance(ch, ast.NamedExpr) and isinstance(ch.target, ast.Name):
                add(ch.target.id, ch, f"walrus:{_placeholder(ch.value, L)}")
            walk(ch)
    walk(fn)
    order = sorted(sites, key=lambda n: min(s[:2] for s in sites[n]))
    return [(n, " | ".join(fp for _, _, fp in sorted(sites[n]))) for n in order]


def _bound_in(node) -> set[str]:
    if isinstance(node, ast.Lambda):
        return set(_params(node))
    if isinstance(node, (ast.FunctionDef, ast.AsyncFunctionDef)):
        b = set(_params(node))
        nl: set[str] = set()
        for n in ast.walk(node):
            if isinstance(n, ast.Nonlocal):
                nl.update(n.names)
        for n in ast.walk(node):
            if isinstance(n, ast.Name) and isinstance(n.ctx, (ast.Store, ast.Del)) and n.id not in nl:
                b.add(n.id)
            elif isinstance(n, ast.ExceptHandler) and n.name and n.name not in nl:
                b.add(n.name)
        return b
    return {n.id for g in node.generators for n in ast.walk(g.target) if isinstance(n, ast.Name)}


_COMPS = (ast.ListComp, ast.SetComp, ast.DictComp, ast.GeneratorExp)


def _rn(node, active: dict[str, str]) -> None:
    if not active or node is None:
        return
    if isinstance(node, ast.Name):
        if node.id in active:
            node.id = active[node.id]
        return
    if isinstance(node, ast.ClassDef):
        return
    if isinstance(node, ast.ExceptHandler) and node.name in active:
        node.name = active[node.name]
    if isinstance(node, (ast.FunctionDef, ast.AsyncFunctionDef, ast.Lambda)):
        # decorators and defaults are evaluated in the enclosing scope
        for d in getattr(node, "decorator_list", []) + node.args.defaults + [x for x in node.args.kw_defaults if x is not None]:
            _rn(d, active)
        sh = _bound_in(node)
        inner = {k: v for k, v in active.items() if k not in sh}
        for st in (node.body if isinstance(node.body, list) else [node.body]):
            _rn(st, inner)
        return
    if isinstance(node, _COMPS):
        sh = _bound_in(node)
        inner = {k: v for k, v in active.items() if k not in sh}
        for i, g in enumerate(node.generators):
            _rn(g.iter, active if i == 0 else inner)      # the first iterable is evaluated in the enclosing scope
            _rn(g.target, inner)
            for c in g.ifs:
                _rn(c, inner)
        for f in ("elt", "key", "value"):
            _rn(getattr(node, f, None), inner)
        return
    for ch in ast.iter_child_nodes(node):
        _rn(ch, active)


def _rename_in_scope(fn, mapping: dict[str, str]) -> None:
    """apply old->new to every occurrence that refers to fn's local (nested scopes that rebind the name shadow it)"""
    for st in fn.body:
        _rn(st, dict(mapping))


def _kind(fp: str) -> str:
    """binding kinds of all sites + the head of the bound expression (callee / attribute root), i.e. the fingerprint without operands"""
    import re
    return " | ".join(re.sub(r"^([a-zA-Z\[\]0-9*]+):\s*([A-Za-z_][A-Za-z_0-9.]*)?.*$", r"\1:\2", part) for part in fp.split(" | "))


def match_names(ref: list[list[str]], cur: list[tuple[str, str]], used: set[str]) -> dict[str, str]:
    ref_names = [r[0] for r in ref]
    cur_names = [c[0] for c in cur]
    un_cur = [c for c in cur if c[0] not in ref_names]
    un_ref = [r for r in ref if r[0] not in cur_names]
    mapping: dict[str, str] = {}
    if not un_cur or not un_ref:
        return mapping
    rest_cur = []
    for name, fp in un_cur:
        cand = next((r for r in un_ref if r[1] == fp), None)
        if cand is not None:
            mapping[name] = cand[0]
            un_ref.remove(cand)
        else:
            rest_cur.append((name, fp))
    if rest_cur and len(rest_cur) == len(un_ref) and all(_kind(c[1]) == _kind(r[1]) for c, r in zip(rest_cur, un_ref)):
        for (name, _), r in zip(rest_cur, un_ref):
            mapping[name] = r[0]
    # a target that is already used for something else in the function would capture: drop such pairs
    return {o: n for o, n in mapping.items() if n not in used}


def recover(tree: ast.Module, src: str, rel: str, external_calls: set[str] | None = None) -> int:
    """normalise tree (in place) towards the reviewed shape; returns the number of rewrites"""
    table = load_table().get(rel)
    if not table:
        return 0
    from .normalize import desugar_match, desugar_suppress, eliminate_new_aliases, hoist_walrus, inline_new_helpers
    n = desugar_suppress(tree) if "suppress" in src else 0
    n += desugar_match(tree) if "match " in src else 0
    n += hoist_walrus(tree) if ":=" in src else 0
    n += inline_new_helpers(tree, set(table), external_calls or set())
    scopes = _function_scopes(tree)
    # inner scopes first: an outer rename then sees the final inner names when checking for capture
    for sc in sorted(scopes, key=lambda s: -s.qual.count(".")):
        ref = table.get(sc.qual)
        if ref is None:
            continue
        ref_names = {r[0] for r in ref}
        if sc.locals <= ref_names:
            continue                                  # every local is known to the table: nothing to recover
        cur = _bindings(sc)
        used = {x.id for x in ast.walk(sc.node) if isinstance(x, ast.Name)} | set(_params(sc.node))
        for x in ast.walk(sc.node):
            if isinstance(x, (ast.FunctionDef, ast.AsyncFunctionDef, ast.Lambda)):
                used.update(_params(x))
        mapping = match_names(ref, cur, used)
        if mapping:
            _rename_in_scope(sc.node, mapping)
            n += len(mapping)
            sc.locals = {mapping.get(x, x) for x in sc.locals}
        if not sc.locals <= ref_names:
            from .normalize import thread_decisions
            t = thread_decisions(sc.node, ref_names)
            if t:
                n += t
                sc.locals = ast_locals(sc.node)
        if not sc.locals <= ref_names:
            n += eliminate_new_aliases(sc.node, ref_names, set(sc.locals))
    return n


def freeze(root: str = "/repo") -> None:
    out: dict[str, dict] = {}
    for d, dirs, files in os.walk(os.path.join(root, "ipv8")):
        dirs.sort()
        rel_d = os.path.relpath(d, root)
        if rel_d == os.path.join("ipv8", "test") or rel_d.startswith(os.path.join("ipv8", "test") + os.sep):
            dirs[:] = []
            continue
        for f in sorted(files):
            if not f.endswith(".py"):
                continue
            rel = os.path.join(rel_d, f)
            src = open(os.path.join(root, rel), encoding="utf-8").read()
            tree = ast.parse(src)
            per: dict[str, list] = {}
            for sc in _function_scopes(tree):
                if sc.qual not in per:
                    per[sc.qual] = [[n, fp] for n, fp in _bindings(sc)]
            if per:
                out[rel] = per
    os.makedirs(os.path.dirname(TABLE), exist_ok=True)
    with open(TABLE, "w", encoding="utf-8") as fh:
        json.dump(out, fh, indent=0, sort_keys=True)
        fh.write("\n")
    print(f"froze {sum(len(v) for v in out.values())} functions in {len(out)} files -> {TABLE}")


if __name__ == "__main__":
    import sys
    if len(sys.argv) > 1 and sys.argv[1] == "--freeze":
        freeze(sys.argv[2] if len(sys.argv) > 2 else "/repo")
