"""Static analysis engine for the py-ipv8 properties (stdlib only; never imports or runs ipv8)."""
