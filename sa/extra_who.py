"""
Thorough tier: the who-may-call / who-may-write rules are repeated over the shipped example and tool code
(doc/**/*.py, stresstest/**, scripts/**) so that code outside ipv8/ cannot hide a forbidden caller.
Only closed-set rules are repeated here (a use of the protected name is the violation); site rules
(guards, tables, templates) stay with the library code.
"""
from __future__ import annotations

import ast
import os

from .core import Ctx
from .model import chain, norm, parent, set_parents

EXTRA_DIRS = ("doc", "stresstest", "scripts")

# property -> [(attribute name, kind, reason)]   kind: "any" = any use, "write" = store / mutating method call
PROTECTED = {
    "C01": [("__wrapped__", "any", "reaches the undecorated handler and skips signature verification"),
            ("decode_map", "write", "handler table written outside add_message_handler")],
    "C05": [("relay_from_to", "write", "routing table written outside the reviewed writers"),
            ("exit_sockets", "write", "routing table written outside the reviewed writers"),
            ("circuits", "write", "routing table written outside the reviewed writers")],
    "C06": [("transport_ipv4", "any", "exit transport used outside TunnelExitSocket"),
            ("transport_ipv6", "any", "exit transport used outside TunnelExitSocket")],
    "C07": [("send_queue", "any", "tunnel endpoint queue accessed from outside")],
    "C08": [("_hops", "any", "Circuit._hops accessed from outside the Circuit class"),
            ("unverified_hop", "write", "hop awaiting verification set outside send_initial_create/send_extend")],
    "C10": [("_identifiers", "any", "RequestCache identifier table accessed from outside")],
    "C12": [("verified_peers", "write", "peer graph membership mutated outside network.py"),
            ("_all_addresses", "write", "peer graph addresses mutated outside network.py"),
            ("services_per_peer", "write", "peer graph services mutated outside network.py"),
            ("verified_by_public_key_bin", "write", "by-key index mutated outside network.py")],
    "C16": [("elements", "write", "token tree element table written outside _append"),
            ("unchained", "write", "token tree waiting area written from outside")],
    "C17": [("known_attestation_hashes", "write", "consent table written outside add_known_hash"),
            ("permissions", "write", "disclosure permissions written outside request_attestation_advertisement")],
    "C19": [("_pending_commits", "write", "commit deferral counter written outside Database")],
}
MUTATORS = {"add", "remove", "discard", "pop", "clear", "update", "append", "popitem", "setdefault", "insert", "extend", "__setitem__"}


def scan_extra(ctx: Ctx) -> None:
    rules = PROTECTED.get(ctx.prop)
    n_files = 0
    for d in EXTRA_DIRS:
        top = os.path.join(ctx.repo.root, d)
        for dirpath, dirs, files in os.walk(top):
            dirs.sort()
            for f in sorted(files):
                if not f.endswith(".py"):
                    continue
                path = os.path.join(dirpath, f)
                rel = os.path.relpath(path, ctx.repo.root)
                try:
                    tree = ast.parse(open(path, encoding="utf-8").read(), filename=path)
                except SyntaxError:
                    continue
                n_files += 1
                if not rules:
                    continue
                set_parents(tree)
                for node in ast.walk(tree):
                    if not isinstance(node, ast.Attribute):
                        continue
                    for name, kind, reason in rules:
                        if node.attr != name:
                            continue
                        p = parent(node)
                        write = isinstance(node.ctx, (ast.Store, ast.Del)) or (isinstance(p, ast.Subscript) and isinstance(p.ctx, (ast.Store, ast.Del))) or \
                            (isinstance(p, ast.Attribute) and p.attr in MUTATORS and isinstance(parent(p), ast.Call))
                        if kind == "any" or write:
                            ctx.check(False, "extra-who", rel, norm(p if p is not None and not isinstance(p, ast.stmt) else node)[:80],
                                      f"no use of `{name}` in shipped example/tool code", f"{rel}: `{name}` - {reason}")
    ctx.extra["extra_dirs_scanned"] = {"dirs": [d for d in EXTRA_DIRS if os.path.isdir(os.path.join(ctx.repo.root, d))], "files": n_files,
                                       "protected_names": [r[0] for r in rules or []]}
    ctx.instance("extra-who", "doc/ stresstest/ scripts/", f"{n_files} example/tool files scanned for {len(rules or [])} protected names", nontrivial=False)
