"""C04 - Onion circuits deliver data intact and never expose it in transit (layering discipline)."""
from __future__ import annotations

import ast
from dataclasses import dataclass, field

from ..core import Ctx
from ..match import Fact, arg, call_name, calls, fact_of, facts_at, is_param, local_defs, names_in, resolve, single_def
from ..model import AnalysisError, FuncInfo, ancestors, chain, clone, enclosing_stmt, head, norm, strip_cast, walk_no_nested

LEVEL = "other"
EXPLANATION = (
    "Layering discipline as a table and as path rules: every encrypt_cell/decrypt_cell call site in outgoing_crypto / "
    "incoming_crypto / relay_cell is extracted with (role facts, operation, direction, hops) and compared with the "
    "protocol table (originator encrypt FORWARD over all hops <-> relay/exit decrypt FORWARD; exit/relay encrypt BACKWARD "
    "<-> originator decrypt BACKWARD; e2e layer innermost with dual seeder/downloader directions; encrypt iterates hops "
    "reversed, decrypt in order; missing keys raise); only create/created may be plaintext and plaintext cells of any "
    "other type are dropped before delivery/relay; every cell leaves through a successful crypto step; a cell that fails "
    "authentication is dropped; a circuit id selects one key set only (an exit socket is never installed under the id of an "
    "own circuit); what the application hands to the anonymising endpoint is what enters the circuit (TunnelEndpoint.send passes its "
    "own address/packet to send_data, followed by value through copies, tuples, closures and helpers); data is attributed to an own "
    "circuit only when the sender's full socket address is the first hop's; both handshake sides contribute an ephemeral key "
    "generated in that very call (no cached ephemerals, hence unrelated session keys per circuit); every iteration of the hop loop of "
    "encrypt_cell / decrypt_cell applies its primitive or raises (no break / continue / return skips a layer); the crypto endpoint wraps the "
    "community's whole endpoint (self.endpoint) and replaces the community as its listener, so no cell reaches the handlers unauthenticated; "
    "the community's public dispatcher on_packet (whose decode map holds the raw cell handler on_cell) is entered from PythonCryptoEndpoint.on_packet / "
    "process_cell only - data that came out of a circuit or through an exit socket is never re-dispatched there; "
    "containers changed through self.<attr> are bound per instance, not once at class level (per-circuit state is not shared); the session keys "
    "are expanded from the whole handshake secret (never a slice of it) and the responder's secret contains a Diffie-Hellman result computed with a key "
    "that outlives the call (its identity key), so only the hop the originator selected can remove that hop's layer. Steps are recognised by what "
    "they compute: callables picked from dispatch tables / conditional expressions, layer plans (generators, returned or locally "
    "built lists walked by one loop, elements given as tuples or NamedTuple / dataclass records), functools.partial of the methods, methods named "
    "by strings for getattr, decisions returned as tags / flags / Enum members / record fields by helpers, guards spelled as any()/loops/de Morgan/"
    "operator-module functions/membership in chain() or key unions/except KeyError, guards moved to the callers or into the wrapper of a new private "
    "decorator, read-only tables / frozensets at module level, hop loops written as `while` with an explicit index (checked on exact polynomials) or moved "
    "into a new function of another module (the thin method is checked to hand every non-plaintext cell over), generators feeding the send loop. "
    "Byte equality / ciphertext distinctness / tamper rejection rest on the AEAD (trusted)."
)

CR = "ipv8/messaging/anonymization/crypto.py"
TC = "ipv8/messaging/anonymization/community.py"
PL = "ipv8/messaging/anonymization/payload.py"

# methods of the crypto endpoint that the rules below analyse on their own; any other method of the class that one of
# them calls on `self` is a helper: its body is analysed as part of the caller (parameters bound to the arguments)
REVIEWED = {"on_packet", "send_cell", "process_cell", "relay_cell", "outgoing_crypto", "incoming_crypto", "encrypt_cell",
            "decrypt_cell", "setup_tunnels", "__init__"}
CRYPTO_OPS = ("self.encrypt_cell", "self.decrypt_cell")
ROLE_FUNCS = ("outgoing_crypto", "incoming_crypto", "relay_cell")


# ------------------------------------------------------------------------------------ local aliases / helper calls
_IMPURE = (ast.Subscript, ast.Await, ast.Yield, ast.YieldFrom, ast.NamedExpr, ast.Lambda, ast.ListComp, ast.SetComp, ast.DictComp,
           ast.GeneratorExp, ast.Starred)


def _callers(ctx: Ctx, name: str):
    """repo.callers_of_name(name) from one indexed pass over the repository (same triples: module, FuncInfo | None, Call)."""
    idx = getattr(ctx, "_c04_call_index", None)
    if idx is None:
        idx = {}
        for m in ctx.repo.modules.values():
            for n in ast.walk(m.tree):
                if isinstance(n, ast.Call):
                    f = n.func
                    nm = f.attr if isinstance(f, ast.Attribute) else f.id if isinstance(f, ast.Name) else None
                    if nm is not None:
                        idx.setdefault(nm, []).append((m, n))
        ctx._c04_call_index = idx  # type: ignore[attr-defined]
    return [(m, ctx.repo.function_of(n), n) for m, n in idx.get(name, [])]


def _is_pure_alias(v: ast.AST) -> bool:
    """Attribute chains / constants / conditional expressions over them / a Hop(...) record: reading it twice gives the same value."""
    for n in ast.walk(v):
        if isinstance(n, ast.Call) and chain(n.func) != "Hop":
            return False
        if isinstance(n, _IMPURE):
            return False
    return True


def _bindings(fi: FuncInfo, name: str) -> int:
    """Number of bindings of local `name`; `x = cast(T, x)` / `x = x` re-binds the same value and is not counted."""
    n = 1 if is_param(fi, name) else 0
    for _, v, idx in local_defs(fi, name):
        sv = strip_cast(v) if v is not None else None
        if idx is None and isinstance(sv, ast.Name) and sv.id == name:
            continue
        n += 1
    return n


def _is_new(fi: FuncInfo) -> bool:
    """fi is not a function of the reviewed tree (sa/tables/local_names.json): a helper introduced by a later change."""
    import os
    from ..localnames import load_table
    t = load_table().get(fi.module.relpath)
    if t is None:
        # no function of this file is in the reviewed table: either the reviewed file defines none, or the file itself is new (a
        # helper moved to a new private module) - the reviewed tree on disk tells which
        ctx = _CURRENT[0]
        root = getattr(ctx.repo, "root", "/repo") if ctx is not None else "/repo"
        return fi.module.relpath.startswith("ipv8/") and not os.path.exists(os.path.join(root, fi.module.relpath))
    return fi.qualname not in t


def _subst_name(e: ast.AST, name: str, value: ast.AST) -> ast.AST:
    class _S(ast.NodeTransformer):
        def visit_Name(self, n: ast.Name):  # noqa: N802
            return clone(value) if n.id == name and isinstance(n.ctx, ast.Load) else n

    return _S().visit(clone(e))


def _literal_elts(fi: FuncInfo | None, it: ast.AST):
    """Elements of a tuple / list / set display (read directly or through a local bound once to the display)."""
    it = strip_cast(it)
    if isinstance(it, ast.Name) and fi is not None and _bindings(fi, it.id) == 1:
        it = resolve(fi, it)
    if isinstance(it, (ast.Name, ast.Attribute)) and fi is not None and _CURRENT[0] is not None:
        # a read-only table at module / class level (`_TABLES = ("circuits", ...)`, possibly wrapped in tuple()/frozenset())
        nm = it.id if isinstance(it, ast.Name) else it.attr
        v = _shared_const(_CURRENT[0], fi, it)
        if v is not None and v is not it and _never_mutated(_CURRENT[0], nm):
            it = strip_cast(v)
    if isinstance(it, (ast.Tuple, ast.List, ast.Set)) and not any(isinstance(x, ast.Starred) for x in it.elts):
        return list(it.elts)
    return None


_UNSET = object()


# ------------------------------------------------------------------------------------ result objects (records)
def _record_class(ctx: Ctx, m, func: ast.AST):
    """ClassInfo when `func` names a NamedTuple / dataclass of the repository (a record: its constructor only stores its arguments)."""
    ci = ctx.repo.resolve_class_expr(m, func)
    if ci is None:
        return None
    if "NamedTuple" in ci.base_names or "typing.NamedTuple" in ci.base_names:
        return ci
    for d in ci.node.decorator_list:
        if chain(d.func if isinstance(d, ast.Call) else d) in ("dataclass", "dataclasses.dataclass"):
            return None if "__init__" in ci.methods or "__post_init__" in ci.methods else ci
    return None


def _record_fields(ci) -> list[str]:
    return [k for k, a in ci.annotations.items() if "ClassVar" not in norm(a)]


def _record_args(ctx: Ctx, m, e: ast.AST):
    """(class, {field: expression}) when e is the construction of a record, else None."""
    e = strip_cast(e)
    if not isinstance(e, ast.Call) or any(isinstance(a, ast.Starred) for a in e.args) or any(k.arg is None for k in e.keywords):
        return None
    ci = _record_class(ctx, m, e.func)
    if ci is None:
        return None
    fields = _record_fields(ci)
    if len(e.args) > len(fields):
        return None
    out = dict(zip(fields, e.args))
    for k in e.keywords:
        if k.arg not in fields or k.arg in out:
            return None
        out[k.arg] = k.value
    for f in fields:
        if f not in out:
            if f not in ci.attrs:
                return None
            out[f] = ci.attrs[f]                # the declared default
    return ci, out


def _is_namedtuple(ci) -> bool:
    return "NamedTuple" in ci.base_names or "typing.NamedTuple" in ci.base_names


def _components(ctx: Ctx, m, e: ast.AST):
    """Elements of a value that can be unpacked / indexed: a tuple or list display, or the construction of a NamedTuple."""
    e = strip_cast(e)
    if isinstance(e, (ast.Tuple, ast.List)) and not any(isinstance(x, ast.Starred) for x in e.elts):
        return list(e.elts)
    r = _record_args(ctx, m, e)
    if r is not None and _is_namedtuple(r[0]):
        return [r[1][f] for f in _record_fields(r[0])]
    return None


def _project(ctx: Ctx, m, e: ast.AST, sel):
    """Component `sel` (field name / constant index) of the value e constructs, or None."""
    if isinstance(sel, str):
        r = _record_args(ctx, m, e)
        return r[1].get(sel) if r is not None else None
    comps = _components(ctx, m, e)
    if comps is not None and isinstance(sel, int) and not isinstance(sel, bool) and -len(comps) <= sel < len(comps):
        return comps[sel]
    return None


def _def_value(ctx: Ctx, fi: FuncInfo, v: ast.AST | None, idx):
    """The expression a definition (local_defs: value, tuple index) binds to the name, or None when it is not a syntactic part of v."""
    if v is None or idx is None:
        return v
    return _project(ctx, fi.module, v, idx) if isinstance(idx, int) else None


# ------------------------------------------------------------------------------------ operator / functools spellings
_CURRENT: list = [None]                # the Ctx of the running check (for helpers that are called without one)

_OPERATOR_FN = {"not_": 1, "truth": 1, "is_": 2, "is_not": 2, "eq": 2, "ne": 2, "lt": 2, "le": 2, "gt": 2, "ge": 2, "contains": 2,
                "is_none": 1, "is_not_none": 1}
_CMP = {"is_": ast.Is, "is_not": ast.IsNot, "eq": ast.Eq, "ne": ast.NotEq, "lt": ast.Lt, "le": ast.LtE, "gt": ast.Gt, "ge": ast.GtE}


def _shared_value(ctx: Ctx, fi: FuncInfo, e: ast.AST, depth: int = 3):
    """The expression a read-only shared name denotes: a module / class-level constant, or a field of a record held in one
    (`_SPEC.method` for `_SPEC = _Spec('encrypt_str', ...)`); None for anything else."""
    if depth <= 0:
        return None
    e = strip_cast(e)
    v = _shared_const(ctx, fi, e)
    if v is not None:
        return v
    if isinstance(e, ast.Attribute):
        base = _shared_value(ctx, fi, e.value, depth - 1)
        if base is not None:
            part = _project(ctx, fi.module, base, e.attr)
            if part is not None:
                return _shared_value(ctx, fi, part, depth - 1) or strip_cast(part)
    if isinstance(e, ast.Subscript) and isinstance(strip_cast(e.slice), ast.Constant):
        base = _shared_value(ctx, fi, e.value, depth - 1)
        k = strip_cast(e.slice).value
        if isinstance(base, ast.Dict):
            for dk, dv in zip(base.keys, base.values):
                if isinstance(dk, ast.Constant) and dk.value == k and type(dk.value) is type(k):
                    return _shared_value(ctx, fi, dv, depth - 1) or strip_cast(dv)
        elif base is not None and isinstance(k, int):
            part = _project(ctx, fi.module, base, k)
            if part is not None:
                return _shared_value(ctx, fi, part, depth - 1) or strip_cast(part)
    return None


def _const_str(ctx: Ctx, fi: FuncInfo, e: ast.AST) -> str | None:
    """The string an expression denotes: a literal, a local bound once to one, a shared constant / record field holding one."""
    e = strip_cast(e)
    if isinstance(e, ast.Name) and not is_param(fi, e.id) and _bindings(fi, e.id) == 1:
        e = resolve(fi, e)
    if not isinstance(e, ast.Constant):
        e = _shared_value(ctx, fi, e) or e
    return e.value if isinstance(e, ast.Constant) and isinstance(e.value, str) else None


def _operator_fn(ctx: Ctx, fi: FuncInfo, f: ast.AST, depth: int = 4):
    """(name of a function of the `operator` module, [leading arguments already bound by functools.partial]) that callee
    expression f denotes, or None."""
    if depth <= 0:
        return None
    f = strip_cast(f)
    if isinstance(f, ast.Name):
        if not is_param(fi, f.id) and _bindings(fi, f.id) == 1 and single_def(fi, f.id) is not None and single_def(fi, f.id)[1] is None:
            return _operator_fn(ctx, fi, single_def(fi, f.id)[0], depth - 1)
        if is_param(fi, f.id) or local_defs(fi, f.id):
            return None
        imp = fi.module.imports.get(f.id)
        if imp is not None and imp[0] in ("operator", "_operator") and imp[1] in _OPERATOR_FN:
            return imp[1], []
    if isinstance(f, ast.Attribute) and isinstance(f.value, ast.Name) and fi.module.imports.get(f.value.id) == ("operator", None) \
            and f.attr in _OPERATOR_FN:
        return f.attr, []
    if isinstance(f, ast.Call) and chain(f.func) in ("partial", "functools.partial") and f.args and not f.keywords \
            and not any(isinstance(a, ast.Starred) for a in f.args):
        inner = _operator_fn(ctx, fi, f.args[0], depth - 1)
        return None if inner is None else (inner[0], [*inner[1], *f.args[1:]])
    v = _shared_value(ctx, fi, f)
    if v is not None and v is not f:
        return _operator_fn(ctx, fi, v, depth - 1)
    return None


def _operator_equiv(ctx: Ctx | None, fi: FuncInfo | None, e: ast.AST):
    """The operator expression a call computes when its callee is a function of the `operator` module (possibly with leading
    arguments bound by functools.partial, possibly held in a local / shared constant / record field): `not_(x)` -> `not x`,
    `partial(is_, None)(x)` -> `None is x`, `contains(t, k)` -> `k in t`.  None for any other call."""
    if ctx is None or fi is None or not isinstance(e, ast.Call) or e.keywords or any(isinstance(a, ast.Starred) for a in e.args):
        return None
    if isinstance(e.func, ast.Attribute) and chain(e.func.value) == "self":
        return None
    r = _operator_fn(ctx, fi, e.func)
    if r is None:
        return None
    name, args = r[0], [*r[1], *e.args]
    if len(args) != _OPERATOR_FN[name]:
        return None
    a = [clone(x) for x in args]
    if name == "not_":
        return ast.UnaryOp(op=ast.Not(), operand=a[0])
    if name == "truth":
        return a[0]
    if name in ("is_none", "is_not_none"):
        return ast.Compare(left=a[0], ops=[ast.Is() if name == "is_none" else ast.IsNot()], comparators=[ast.Constant(value=None)])
    if name == "contains":
        return ast.Compare(left=a[1], ops=[ast.In()], comparators=[a[0]])
    if name in ("is_", "is_not", "eq", "ne") and isinstance(a[0], ast.Constant) and not isinstance(a[1], ast.Constant):
        a.reverse()                            # symmetric: the constant is written on the right, as a test in the source would
    return ast.Compare(left=a[0], ops=[_CMP[name]()], comparators=[a[1]])


def _method_call(ctx: Ctx, fi: FuncInfo, c: ast.Call, depth: int = 3):
    """(receiver, method name, positional arguments) of a method call however it is spelled: `r.m(a)`, `getattr(r, 'm')(a)` (the
    name a literal / shared constant / record field), `methodcaller('m', a)(r)`, or a local bound once to the bound method."""
    f = strip_cast(c.func)
    if c.keywords or any(isinstance(a, ast.Starred) for a in c.args) or depth <= 0:
        return None
    if isinstance(f, ast.Attribute):
        return f.value, f.attr, list(c.args)
    if isinstance(f, ast.Name) and not is_param(fi, f.id) and _bindings(fi, f.id) == 1:
        d = single_def(fi, f.id)
        f = strip_cast(d[0]) if d is not None and d[1] is None else f
        if isinstance(f, ast.Attribute):
            return f.value, f.attr, list(c.args)
    if isinstance(f, ast.Call) and not f.keywords and not any(isinstance(a, ast.Starred) for a in f.args):
        if chain(f.func) == "getattr" and len(f.args) == 2:
            name = _const_str(ctx, fi, f.args[1])
            return None if name is None else (f.args[0], name, list(c.args))
        if chain(f.func) in ("methodcaller", "operator.methodcaller") and f.args and len(c.args) == 1:
            name = _const_str(ctx, fi, f.args[0])
            return None if name is None else (c.args[0], name, list(f.args[1:]))
    return None


_BOOL_SHAPES = (ast.Compare, ast.BoolOp, ast.UnaryOp, ast.IfExp)


def _derive(fi: FuncInfo | None, e: ast.AST, pol: bool, depth: int = 4) -> list:
    """[(atom, truth)] implied by expression `e` having truthiness `pol`: negation, and/or (de Morgan), bool(x), comparison chains,
    any()/all() over a display of alternatives, `True if c else False`, and a local bound once to such a test."""
    e = strip_cast(e)
    if isinstance(e, ast.UnaryOp) and isinstance(e.op, ast.Not):
        return _derive(fi, e.operand, not pol, depth)
    if isinstance(e, ast.BoolOp):
        if isinstance(e.op, ast.And) is pol:
            return [x for v in e.values for x in _derive(fi, v, pol, depth)]
        return [(e, pol)]
    if isinstance(e, ast.Call):
        eq = _operator_equiv(_CURRENT[0], fi, e)
        if eq is None and _CURRENT[0] is not None and fi is not None:
            mc = _method_call(_CURRENT[0], fi, e)
            if mc is not None and mc[1] == "__contains__" and len(mc[2]) == 1:       # t.__contains__(k), methodcaller('__contains__', k)(t)
                eq = ast.Compare(left=clone(mc[2][0]), ops=[ast.In()], comparators=[clone(mc[0])])
        if eq is not None:
            return _derive(fi, eq, pol, depth)
        # any(map(f, xs)) / all(map(f, xs))  ==  any(f(x) for x in xs) / all(...)
        if isinstance(e.func, ast.Name) and e.func.id in ("any", "all") and len(e.args) == 1 and not e.keywords:
            m_ = strip_cast(e.args[0])
            if isinstance(m_, ast.Call) and chain(m_.func) == "map" and len(m_.args) == 2 and not m_.keywords and (e.func.id == "all") is pol:
                elts = _literal_elts(fi, m_.args[1])
                if elts is not None:
                    return [x for el in elts for x in _derive(fi, _apply_fn(m_.args[0], el), pol, depth)]
    if isinstance(e, ast.Compare) and len(e.ops) == 1 and isinstance(e.ops[0], (ast.In, ast.NotIn)):
        # k in chain(a, b) / k in a.keys() | b.keys() / k in {*a, *b}: false only if k is in none of the parts
        parts = _union_parts(e.comparators[0])
        if parts is not None and len(parts) > 1 and (isinstance(e.ops[0], ast.In) is not pol):
            return [x for p_ in parts for x in _derive(fi, ast.Compare(left=clone(e.left), ops=[ast.In()], comparators=[clone(p_)]), False, depth)]
    if isinstance(e, ast.Call) and isinstance(e.func, ast.Name) and not e.keywords and len(e.args) == 1:
        a = e.args[0]
        if e.func.id == "bool":
            return _derive(fi, a, pol, depth)
        if e.func.id in ("any", "all") and (e.func.id == "all") is pol and isinstance(a, (ast.GeneratorExp, ast.ListComp)) \
                and len(a.generators) == 1:
            g = a.generators[0]
            elts = _literal_elts(fi, g.iter)
            if elts is not None and isinstance(g.target, ast.Name) and not g.ifs and not g.is_async:
                return [x for el in elts for x in _derive(fi, _subst_name(a.elt, g.target.id, el), pol, depth)]
        return [(e, pol)]
    if isinstance(e, ast.IfExp) and isinstance(e.body, ast.Constant) and isinstance(e.orelse, ast.Constant) \
            and bool(e.body.value) is not bool(e.orelse.value):
        return _derive(fi, e.test, pol if e.body.value else not pol, depth)
    if isinstance(e, ast.Compare) and len(e.ops) > 1 and pol:
        out, left = [], e.left
        for op, right in zip(e.ops, e.comparators):
            out.append((ast.Compare(left=left, ops=[op], comparators=[right]), True))
            left = right
        return out
    if isinstance(e, ast.Name) and fi is not None and depth > 0 and _bindings(fi, e.id) == 1:
        d = single_def(fi, e.id)
        v = strip_cast(d[0]) if d is not None and d[1] is None else None
        shaped = isinstance(v, _BOOL_SHAPES) or (isinstance(v, ast.Call) and chain(v.func) in ("bool", "any", "all"))
        if shaped and all(_bindings(fi, nm) <= 1 for nm in names_in(v)):
            return [(e, pol), *_derive(fi, v, pol, depth - 1)]
    return [(e, pol)]


def _apply_fn(f: ast.AST, x: ast.AST) -> ast.AST:
    """The expression `f(x)` computes when f is a one-parameter lambda (its body with x for the parameter), else the call itself."""
    f = strip_cast(f)
    if isinstance(f, ast.Lambda) and len(f.args.args) == 1 and not (f.args.vararg or f.args.kwarg or f.args.kwonlyargs or f.args.posonlyargs):
        return _subst_name(f.body, f.args.args[0].arg, x)
    return ast.Call(func=clone(f), args=[clone(x)], keywords=[])


def _union_parts(e: ast.AST):
    """The collections whose members make up collection expression e (chain(a, b), a.keys() | b.keys(), {*a, *b}, set(chain(..)));
    None when e is not such a union."""
    e = strip_cast(e)
    if isinstance(e, ast.Call) and not e.keywords and not any(isinstance(a, ast.Starred) for a in e.args):
        if chain(e.func) in ("chain", "itertools.chain") and e.args:
            return [p for a in e.args for p in (_union_parts(a) or [a])]
        if chain(e.func) in ("set", "frozenset", "list", "tuple") and len(e.args) == 1:
            return _union_parts(e.args[0])
        return None
    if isinstance(e, ast.BinOp) and isinstance(e.op, ast.BitOr):
        return [*(_union_parts(e.left) or [e.left]), *(_union_parts(e.right) or [e.right])]
    if isinstance(e, (ast.Set, ast.List, ast.Tuple)) and e.elts and all(isinstance(x, ast.Starred) for x in e.elts):
        return [p for x in e.elts for p in (_union_parts(x.value) or [x.value])]
    return None


def _fact_truth(f: Fact) -> bool:
    """Truth value of f.atom that the fact records (Fact.pos is relative to the operator: `a != b` true is eq/neg)."""
    return fact_of(f.atom, True).pos == f.pos


def _read_call(n: ast.Call) -> ast.AST:
    """Attribute / item reads spelled as calls, rewritten: getattr(x, 'a') -> x.a, attrgetter('a.b')(x) -> x.a.b, itemgetter(k)(x) -> x[k];
    any other call is returned as it is."""
    if n.keywords or any(isinstance(a, ast.Starred) for a in n.args):
        return n
    if chain(n.func) == "getattr" and len(n.args) == 2 and isinstance(n.args[1], ast.Constant) and isinstance(n.args[1].value, str) \
            and n.args[1].value.isidentifier():
        return ast.Attribute(value=n.args[0], attr=n.args[1].value, ctx=ast.Load())
    g = n.func
    if isinstance(g, ast.Call) and len(n.args) == 1 and len(g.args) == 1 and not g.keywords and isinstance(g.args[0], ast.Constant):
        k = g.args[0].value
        if chain(g.func) in ("attrgetter", "operator.attrgetter") and isinstance(k, str) and all(p.isidentifier() for p in k.split(".")):
            out = n.args[0]
            for p in k.split("."):
                out = ast.Attribute(value=out, attr=p, ctx=ast.Load())
            return out
        if chain(g.func) in ("itemgetter", "operator.itemgetter"):
            return ast.Subscript(value=n.args[0], slice=g.args[0], ctx=ast.Load())
    return n


def _canon_reads(v: ast.AST) -> ast.AST:
    """v with the reads spelled as calls (_read_call) rewritten; v itself when there is none (a rewritten copy keeps v's place in
    the tree, so that it can still be located in the control-flow graph)."""
    if not any(isinstance(x, ast.Call) and chain(x.func) in ("getattr", "attrgetter()", "operator.attrgetter()") for x in ast.walk(v)):
        return v

    class _R(ast.NodeTransformer):
        def visit_Call(self, n: ast.Call):  # noqa: N802
            self.generic_visit(n)
            return _read_call(n)

    new = _R().visit(clone(v))
    new._parent = parent_of(v)  # type: ignore[attr-defined]
    return new


def _unchanged_since(ctx: Ctx, fi: FuncInfo, name: str, def_stmt: ast.AST, at: ast.AST | None) -> bool:
    """`name` has the same value when `at` runs as it had when def_stmt last ran: it is bound once, or none of its bindings lies on
    a path from def_stmt to `at` (that does not run def_stmt again)."""
    if _bindings(fi, name) <= 1:
        return True
    if at is None:
        return False
    cfg = ctx.cfg(fi)
    dn, un = cfg.nodes_for(def_stmt), cfg.nodes_for(at)
    if not dn or not un:
        return False
    after_def = cfg.reach([w for n in dn for w, lab in n.succ if lab != "exc"], cut_nodes=dn)
    for st, _, _ in local_defs(fi, name):
        for b in cfg.nodes_for(st):
            if b in dn or (b in after_def and any(u in cfg.reach([w for w, lab in b.succ if lab != "exc"], cut_nodes=dn) for u in un)):
                return False
    return True


def _alias_def(ctx: Ctx, fi: FuncInfo, name: str, at: ast.AST | None) -> ast.AST | None:
    """Value of local `name` when it is a pure alias whose only definition dominates `at` and whose operands still have the
    value they had at the definition."""
    d = single_def(fi, name)
    if d is None or d[1] is not None:
        return None
    v = _canon_reads(strip_cast(d[0]))
    if not _is_pure_alias(v):
        return None
    def_stmt = local_defs(fi, name)[0][0]
    if any(not _unchanged_since(ctx, fi, nm, def_stmt, at) for nm in names_in(v)):
        return None
    if at is not None:
        cfg = ctx.cfg(fi)
        dn = cfg.nodes_for(def_stmt)
        un = cfg.nodes_for(at)
        if un and not all(u in dn or cfg.must_complete(u, dn) for u in un):
            return None
    return v


def _expand(ctx: Ctx, fi: FuncInfo, e: ast.AST | None, env: dict | None = None, at: ast.AST | None = None, depth: int = 4):
    """Copy of expression e (a node of fi) in the caller's terms: helper parameters replaced by the bound arguments (env) and
    pure local aliases (`keys = hop.keys`, `path = circuit.hops`) replaced by their definition."""
    if e is None:
        return None
    at = e if at is None else at

    class _T(ast.NodeTransformer):
        def visit_Name(self, n: ast.Name):  # noqa: N802
            if not isinstance(n.ctx, ast.Load):
                return n
            if env and n.id in env:
                return clone(env[n.id])
            if depth > 0:
                v = _alias_def(ctx, fi, n.id, at)
                if v is not None:
                    return _expand(ctx, fi, v, env, at=v, depth=depth - 1)
            return n

        def visit_Call(self, n: ast.Call):  # noqa: N802
            self.generic_visit(n)
            return _read_call(n)

    return _T().visit(clone(strip_cast(e)))


def _xchain(ctx: Ctx, fi: FuncInfo, e: ast.AST | None, env: dict | None = None, at: ast.AST | None = None) -> str | None:
    return None if e is None else chain(_expand(ctx, fi, e, env, at))


def _xfacts(ctx: Ctx, fi: FuncInfo, site, env: dict | None = None) -> list[Fact]:
    """Dominating facts at site, operands expanded (aliases / helper parameters)."""
    return _xfacts_of(ctx, fi, facts_at(ctx.cfg(fi), site), env, site=site, at=site if isinstance(site, ast.AST) else None)


def _fkey(x: Fact):
    return (x.op, norm(x.left), norm(x.right) if x.right is not None else None, x.pos)


def _xfacts_of(ctx: Ctx, fi: FuncInfo, facts, env: dict | None = None, site=None, depth: int = 2, at: ast.AST | None = None) -> list[Fact]:
    """The given facts of fi and everything they imply (_derive; with a site also _decision_facts), operands expanded (`at`: the
    place of fi where the facts are used - aliases are followed as far as their operands keep their value up to there)."""
    if at is None and isinstance(site, ast.AST):
        at = site
    out, seen = [], set()

    def add(x: Fact) -> None:
        k = _fkey(x)
        if k not in seen:
            seen.add(k)
            out.append(x)

    for f in facts:
        truth = _fact_truth(f)
        parts = list(_derive(fi, f.atom, truth))
        whole = _expand(ctx, fi, f.atom, env, at=at)
        parts += [(a, p) for a, p in _derive(None, whole, truth) if norm(a) != norm(whole)]
        for a, p in parts:
            g = fact_of(a, p)
            add(Fact(g.op, _expand(ctx, fi, g.left, env, at=at), _expand(ctx, fi, g.right, env, at=at) if g.right is not None else None, g.pos, f.atom))
            if site is not None and depth > 0:
                for x in _decision_facts(ctx, fi, env, g, site, depth - 1):
                    add(x)
    return out


def _enum_token(e: ast.AST):
    """('enum', class, member) when e reads a member of a plain Enum of the repository whose members all have different values
    (two member names then denote two different, truthy objects); else None."""
    ctx = _CURRENT[0]
    if ctx is None or not (isinstance(e, ast.Attribute) and isinstance(e.value, ast.Name)):
        return None
    for ci in ctx.repo.classes.get(e.value.id, []):
        if not ci.base_names or not set(ci.base_names) <= {"Enum", "enum.Enum"} or e.attr not in ci.attrs or ci.methods.keys() & {"__bool__", "__eq__", "__len__"}:
            continue
        members = {k: v for k, v in ci.attrs.items() if not k.startswith("_")}
        vals = [norm(v) for v in members.values()]
        if len(set(vals)) == len(vals) or all(norm(v) == "auto()" for v in members.values()):
            return ("enum", ci.name, e.attr)
    return None


def _const_or_none(e: ast.AST | None):
    """(True, value) for a constant expression (a missing `return` value is None; a member of an Enum is its _enum_token), else
    (False, None)."""
    if e is None:
        return True, None
    e = strip_cast(e)
    if isinstance(e, ast.Constant):
        return True, e.value
    tok = _enum_token(e)
    if tok is not None:
        return True, tok
    return False, None


class _NotNone:
    """Abstract value of a local: some object that is not None (a display, a constructed record); nothing else is known."""

    def __repr__(self) -> str:
        return "<not None>"


_NOTNONE = _NotNone()


def _satisfies(f: Fact, value) -> bool | None:
    """Does a local holding the constant `value` make fact f (about that local) true?  None: f is not a test of a constant (or
    cannot be decided for the abstract value _NOTNONE)."""
    known, k = _const_or_none(f.right)
    if value is _NOTNONE:
        if f.op == "is" and known and k is None:
            return f.pos is False
        return None
    if f.op == "truthy":
        return bool(value) is f.pos
    if f.op == "is" and known and k is None:
        return (value is None) is f.pos
    if f.op in ("eq", "is") and known and (f.op == "eq" or isinstance(k, tuple)):
        return (value == k and type(value) is type(k)) is f.pos
    if f.op == "in":
        elts = _literal_elts(None, f.right)
        ks = [_const_or_none(x) for x in elts] if elts is not None else None
        if ks is not None and all(known_ for known_, _ in ks):
            return any(value == k_ and type(value) is type(k_) for _, k_ in ks) is f.pos
    return None


def _abstract_value(ctx: Ctx, fi: FuncInfo, v: ast.AST | None, idx=None):
    """What a definition (local_defs: value, tuple index) binds: a constant, _NOTNONE (a display / a constructed record), or
    _UNSET (unknown)."""
    v = _def_value(ctx, fi, v, idx)
    if v is None:
        return _UNSET
    v = strip_cast(v)
    if _const_or_none(v)[0]:
        return _const_or_none(v)[1]
    if isinstance(v, (ast.List, ast.Tuple, ast.Set, ast.Dict, ast.JoinedStr, ast.ListComp, ast.SetComp, ast.DictComp, ast.GeneratorExp, ast.Lambda)):
        return _NOTNONE
    if isinstance(v, ast.Call) and ((isinstance(v.func, ast.Name) and v.func.id in ("list", "tuple", "set", "dict", "frozenset", "deque"))
                                    or _record_args(ctx, fi.module, v) is not None):
        return _NOTNONE
    return _UNSET


def _decision_facts(ctx: Ctx, fi: FuncInfo, env, f: Fact, site, depth: int) -> list[Fact]:
    """Facts implied by a test of a decision: f tests a local of fi that holds a constant tag / flag assigned on different paths
    (`kind = 'raw'` ... `if kind == 'raw'`), or the result of a helper that returns such constants (or a test).  Whatever holds at
    every assignment / `return` that can have produced a value passing the test holds at the site."""
    x = strip_cast(f.left)
    if not isinstance(x, ast.Name) or is_param(fi, x.id) or (env and x.id in env) or _satisfies(f, 0) is None:
        return []
    cfg = ctx.cfg(fi)
    site_nodes = cfg.nodes_for(site) if not hasattr(site, "succ") else [site]
    defs = local_defs(fi, x.id)
    if not defs or not site_nodes:
        return []
    sets = []                          # one fact list per producer that can have produced a passing value
    for st, v, idx in defs:
        if v is None:
            return []
        others = [st2 for st2, _, _ in defs if st2 is not st]
        v = strip_cast(v)
        alts = None                    # [(value expression | None, [(atom, truth)] in fi, helper return info | None)]
        if idx is None and isinstance(v, ast.IfExp):
            alts = [(v.body, _derive(fi, v.test, True), None), (v.orelse, _derive(fi, v.test, False), None)]
        elif isinstance(v, ast.Call) and len(defs) == 1 and (_helper(ctx, fi, v) or _new_helper(ctx, fi, v)) is not None:
            h = _helper(ctx, fi, v) or _new_helper(ctx, fi, v)
            if h is fi or any(isinstance(n, (ast.Yield, ast.YieldFrom)) for n in walk_no_nested(h.node)):
                return []
            henv = _bind(ctx, fi, v, h, env)
            hcfg = ctx.cfg(h)
            rets = [r for r in walk_no_nested(h.node) if isinstance(r, ast.Return)]
            alts = []
            for r in rets:
                rv = r.value
                if idx is not None:
                    rv = strip_cast(rv) if rv is not None else None
                    if not (isinstance(rv, ast.Tuple) and idx < len(rv.elts) and not any(isinstance(e, ast.Starred) for e in rv.elts)):
                        return []
                    rv = rv.elts[idx]
                alts.append((rv, [], (h, henv, r)))
            rnodes = [g for r in rets for g in hcfg.nodes_for(r)]
            if hcfg.exit in hcfg.reach(cut_nodes=rnodes):
                if idx is not None:
                    return []
                alts.append((None, [], (h, henv, None)))
        else:
            dv = None if _starred_target(st) else _def_value(ctx, fi, v, idx)
            alts = None if dv is None else [(dv, [], None)]
        if alts is None:
            return []
        for val, extra, hret in alts:
            known, c = _const_or_none(val)
            more = []
            if known:
                if not _satisfies(f, c):
                    continue
            elif f.op == "truthy" and hret is not None:
                more = _derive(hret[0], val, f.pos)       # `return <test>`: the test has the truthiness the caller observes
            elif _abstract_value(ctx, hret[0] if hret is not None else fi, val) is _NOTNONE and _satisfies(f, _NOTNONE) is False:
                continue                                  # a display / record where the test asks for None
            # (any other value may pass the test: what holds where it is produced is one of the alternatives)
            if hret is not None:
                h, henv, r = hret
                if r is None:
                    sets.append([])
                    continue
                sets.append(_xfacts(ctx, h, r, henv) + _xfacts_of(ctx, h, [fact_of(a, p) for a, p in more], henv, at=r))
            else:
                pf = [(a, p) for a, p in _path_facts(ctx, fi, st, others, site_nodes) if not isinstance(a, (ast.For, ast.AsyncFor, ast.While))]
                sets.append(_xfacts_of(ctx, fi, [fact_of(a, p) for a, p in [*pf, *extra]], env, site=st, depth=depth))
    if not sets:
        return []
    keys = set.intersection(*[{_fkey(z) for z in fs} for fs in sets])
    return [z for z in sets[0] if _fkey(z) in keys]


def _method_target(ctx: Ctx, fi: FuncInfo, call: ast.Call) -> FuncInfo | None:
    """The function a call inside fi runs when it is spelled `self.<m>(...)` / `cls.<m>(...)` / `<OwnClass>.<m>(...)` /
    `type(self).<m>(...)` (a plain, static or class method of fi's class) or `<f>(...)` (a module-level function of a later
    change); None for everything else (properties, other decorators, foreign receivers)."""
    f = call.func
    if isinstance(f, ast.Name):
        t = ctx.repo.resolve_name(fi.module, f.id)
        if isinstance(t, FuncInfo) and t.cls is None and not t.node.decorator_list and _is_new(t):
            return t
        return None
    if isinstance(f, ast.Attribute) and isinstance(f.value, ast.Name) and f.value.id in fi.module.imports \
            and not is_param(fi, f.value.id) and not local_defs(fi, f.value.id):
        r_ = ctx.repo.resolve_name(fi.module, f.value.id)        # `<imported module>.<function>(...)`
        if isinstance(r_, tuple) and r_[0] == "module" and r_[1] is not None:
            t = r_[1].functions.get(f.attr)
            if isinstance(t, FuncInfo) and not t.node.decorator_list and _is_new(t):
                return t
            return None
    if not (isinstance(f, ast.Attribute) and fi.cls is not None):
        return None
    r = f.value
    own = isinstance(r, ast.Name) and (r.id in ("self", "cls") or any(c.name == r.id for c in fi.cls.mro()))
    own = own or (isinstance(r, ast.Call) and chain(r.func) == "type" and len(r.args) == 1 and chain(r.args[0]) == "self")
    if not own:
        return None
    t = fi.cls.lookup(f.attr)
    if not isinstance(t, FuncInfo) or any(chain(d) not in ("staticmethod", "classmethod") for d in t.node.decorator_list):
        return None
    if isinstance(r, ast.Name) and r.id not in ("self", "cls") and not t.node.decorator_list:
        return None                          # `Class.method(x, ...)`: an unbound plain method (the receiver is an argument)
    return t


def _helper(ctx: Ctx, fi: FuncInfo, call: ast.Call) -> FuncInfo | None:
    """Target of `self.<m>(...)` when <m> is a method of the same class that no rule analyses on its own (or a new module-level
    function called by name)."""
    t = _method_target(ctx, fi, call)
    if t is None or (t.cls is not None and t.name in REVIEWED):
        return None
    return t


def _positional_params(t: FuncInfo) -> list[str]:
    """Names of the positional parameters of helper t that a call binds (without the receiver of a plain / class method)."""
    a = t.node.args
    names = [x.arg for x in a.posonlyargs + a.args]
    static = t.cls is None or any(chain(d) == "staticmethod" for d in t.node.decorator_list)
    return names if static else names[1:]


def _bind(ctx: Ctx, fi: FuncInfo, call: ast.Call, target: FuncInfo, env: dict | None) -> dict:
    a = target.node.args
    if a.vararg or a.kwarg or any(isinstance(x, ast.Starred) for x in call.args) or any(k.arg is None for k in call.keywords):
        raise AnalysisError(f"undecided: helper {target.qualname} is called with packed arguments")
    params = _positional_params(target)
    if len(call.args) > len(params):
        raise AnalysisError(f"undecided: helper {target.qualname} is called with more arguments than it declares")
    out = {}
    for p, v in zip(params, call.args):
        out[p] = _expand(ctx, fi, v, env)
    for k in call.keywords:
        out[k.arg] = _expand(ctx, fi, k.value, env)
    # parameters the call leaves to their (constant) defaults
    pos = a.posonlyargs + a.args
    for p, d in [*zip(reversed(pos), reversed(a.defaults)), *zip(a.kwonlyargs, a.kw_defaults)]:
        if d is not None and p.arg not in out and isinstance(d, ast.Constant):
            out[p.arg] = clone(d)
    out.update(_canon_locals(ctx, target, out))
    return out


# the reviewed names of the routing-table lookups of each role function: a helper that performs such a lookup itself may call the
# result anything; the rules compare roles by these names
CANON = {
    "outgoing_crypto": {("circuits", "cell.circuit_id"): "circuit", ("exit_sockets", "cell.circuit_id"): "exit_socket",
                        ("relays", "cell.circuit_id"): "relay", ("relays", "relay.circuit_id"): "other"},
    "incoming_crypto": {("circuits", "cell.circuit_id"): "circuit", ("exit_sockets", "cell.circuit_id"): "exit_socket"},
    "relay_cell": {("relays", "cell.circuit_id"): "next_relay", ("relays", "next_relay.circuit_id"): "this_relay"},
}


def _role_of(ctx: Ctx, fi: FuncInfo, _seen=()) -> str | None:
    """The one role function (outgoing_crypto / incoming_crypto / relay_cell) from which helper fi is reached."""
    if fi.name in CANON and fi.cls is not None and fi.cls.name == "PythonCryptoEndpoint":
        return fi.name
    if not _is_new(fi) or len(_seen) > 4:
        return None
    roles = set()
    for _, c_fi, _ in _callers(ctx, fi.name):
        if c_fi is None or c_fi is fi or c_fi in _seen:
            continue
        roles.add(_role_of(ctx, c_fi, (*_seen, fi)))
    return roles.pop() if len(roles) == 1 else None


def _canon_locals(ctx: Ctx, t: FuncInfo, env: dict) -> dict:
    """{local of helper t: reviewed name} for locals bound once to a lookup `self.<table>.get(<id>)` / `self.<table>[<id>]`."""
    table = CANON.get(_role_of(ctx, t) or "")
    if not table or t.name in CANON:
        return {}
    used = {n.id for n in ast.walk(t.node) if isinstance(n, ast.Name)} | set(t.params())
    res: dict = {}
    assigns = sorted((n for n in walk_no_nested(t.node) if isinstance(n, (ast.Assign, ast.AnnAssign)) and n.value is not None),
                     key=lambda n: (n.lineno, n.col_offset))
    for st in assigns:
        tg = st.targets[0] if isinstance(st, ast.Assign) and len(st.targets) == 1 else st.target if isinstance(st, ast.AnnAssign) else None
        if not isinstance(tg, ast.Name) or _bindings(t, tg.id) != 1:
            continue
        v = strip_cast(st.value)
        tbl = key = None
        if isinstance(v, ast.Call) and isinstance(v.func, ast.Attribute) and v.func.attr == "get" and 1 <= len(v.args) <= 2 and not v.keywords \
                and (len(v.args) == 1 or (isinstance(v.args[1], ast.Constant) and v.args[1].value is None)):
            tbl, key = chain(v.func.value), v.args[0]
        elif isinstance(v, ast.Subscript):
            tbl, key = chain(v.value), v.slice
        if not tbl or not tbl.startswith("self.") or key is None:
            continue
        name = table.get((tbl[5:], norm(_expand(ctx, t, key, {**env, **res}))))
        if name and name != tg.id and name not in used:
            res[tg.id] = ast.Name(id=name, ctx=ast.Load())
    return res


@dataclass(frozen=True)
class _Test:
    """A test of (a part of) a helper's result, taken on one of its out-edges: `if self._judge(cell) is not Verdict.OK`,
    `ok, why = self._judge(cell)` ... `if not ok`, `if verdict.route is None`."""
    text: str                         # the test (identity for memoising)
    lab: bool                         # the out-edge
    sel: object = None                # field name / tuple index of the part of the result that is tested
    fact: object = field(default=None, compare=False, hash=False)

    def may_take(self, ctx: Ctx, h: FuncInfo, n) -> bool:
        """Can the value helper h returns through CFG node n make the test take the edge?  (unknown values can)"""
        v = n.ast.value if n.kind == "stmt" and isinstance(n.ast, ast.Return) else None
        for x in _possible_values(ctx, h, v, self.sel):
            if x is _UNSET:
                return True
            known, c = _const_or_none(x)
            if not known:
                c = _abstract_value(ctx, h, x)
                if c is _UNSET:
                    return True
            r = _satisfies(self.fact, c)
            if r is None or r is self.lab:
                return True
        return False


def _possible_values(ctx: Ctx, h: FuncInfo, v: ast.AST | None, sel=None, depth: int = 3) -> list:
    """Expressions one of which gives the value (or its part `sel`) of expression v of helper h; _UNSET stands for 'anything'."""
    if v is None:
        return [None] if sel is None else [_UNSET]
    v = strip_cast(v)
    if depth <= 0:
        return [_UNSET]
    if isinstance(v, ast.IfExp):
        return _possible_values(ctx, h, v.body, sel, depth - 1) + _possible_values(ctx, h, v.orelse, sel, depth - 1)
    if isinstance(v, ast.Name) and not is_param(h, v.id):
        defs = local_defs(h, v.id)
        out = []
        for st, dv, idx in defs:
            if isinstance(st, (ast.For, ast.AsyncFor)) and dv is None:
                # a loop variable over a display: one of the elements (or the matching part of one)
                elts = _literal_elts(h, st.iter)
                if elts is None:
                    return [_UNSET]
                for el in elts:
                    if isinstance(st.target, ast.Name):
                        out += _possible_values(ctx, h, el, sel, depth - 1)
                    elif isinstance(st.target, (ast.Tuple, ast.List)) and all(isinstance(t, ast.Name) for t in st.target.elts):
                        part = _project(ctx, h.module, el, [t.id for t in st.target.elts].index(v.id))
                        out += _possible_values(ctx, h, part, sel, depth - 1) if part is not None else [_UNSET]
                    else:
                        return [_UNSET]
                continue
            x = None if _starred_target(st) else _def_value(ctx, h, dv, idx)
            out += _possible_values(ctx, h, x, sel, depth - 1) if x is not None else [_UNSET]
        return out or [_UNSET]
    if sel is None:
        return [v]
    part = _project(ctx, h.module, v, sel)
    return [part] if part is not None else [_UNSET]


def _cond_subject(ctx: Ctx, fi: FuncInfo, n):
    """(call, fact of the test being true, selector) when cond node n tests (a part of) the result of a call against constants:
    the call itself, a local bound once to it (or, by unpacking, to a part of it), or a field / constant index of such a local."""
    f = fact_of(n.ast, True)
    if _satisfies(f, 0) is None:
        return None
    x, sel = strip_cast(f.left), None
    if isinstance(x, ast.Attribute) and isinstance(x.value, ast.Name):
        x, sel = x.value, x.attr
    elif isinstance(x, ast.Subscript) and isinstance(x.value, ast.Name) and isinstance(x.slice, ast.Constant) and isinstance(x.slice.value, int):
        x, sel = x.value, x.slice.value
    if isinstance(x, ast.Name):
        if is_param(fi, x.id) or _bindings(fi, x.id) != 1:
            return None
        d = local_defs(fi, x.id)
        if len(d) != 1 or d[0][1] is None or _starred_target(d[0][0]) or (d[0][2] is not None and sel is not None):
            return None
        x, sel = strip_cast(d[0][1]), d[0][2] if d[0][2] is not None else sel
    return (x, f, sel) if isinstance(x, ast.Call) else None


def _cond_call(ctx: Ctx, fi: FuncInfo, n) -> ast.Call | None:
    """The call whose result a cond node tests: the atom itself, or a local bound once to the call."""
    a = n.ast
    if isinstance(a, ast.Name) and _bindings(fi, a.id) == 1:
        a = resolve(fi, a)
    return a if isinstance(a, ast.Call) else None


def _decorator_wrappers(ctx: Ctx, fi: FuncInfo) -> list:
    """[(wrapper function, its call of the decorated body, {parameter of fi: argument in the wrapper's terms})] for the NEW private
    decorators of fi (`@d` / `@d(args)`, d a module-level function of a later change): a function decorated this way denotes the
    wrapper the decorator returns, and the one call `func(self, ...)` inside the wrapper stands for the body of fi.  Decorators of
    the reviewed tree are not followed (they are part of what was reviewed)."""
    out = []
    for d in fi.node.decorator_list:
        target = d.func if isinstance(d, ast.Call) else d
        t = ctx.repo.resolve_name(fi.module, target.id) if isinstance(target, ast.Name) else None
        if not isinstance(t, FuncInfo) or t.cls is not None or not _is_new(t):
            continue
        dec = t.node
        if isinstance(d, ast.Call):             # a decorator factory: the decorator is the one function it defines (and returns)
            inner = [n for n in dec.body if isinstance(n, (ast.FunctionDef, ast.AsyncFunctionDef))]
            if len(inner) != 1:
                raise AnalysisError(f"undecided: decorator factory {t.qualname} applied to {fi.qualname}")
            dec = inner[0]
        ws = [n for n in dec.body if isinstance(n, (ast.FunctionDef, ast.AsyncFunctionDef))]
        pos = dec.args.posonlyargs + dec.args.args
        if len(ws) != 1 or len(pos) != 1:
            raise AnalysisError(f"undecided: shape of decorator {t.qualname} applied to {fi.qualname}")
        fparam, w = pos[0].arg, ws[0]
        wfi = ctx.repo.info(w)
        inner_calls = [c for c in calls(wfi) if isinstance(c.func, ast.Name) and c.func.id == fparam]
        others = [n for n in ast.walk(w) if isinstance(n, ast.Name) and n.id == fparam and not any(c.func is n for c in inner_calls)]
        if len(inner_calls) != 1 or others or is_param(wfi, fparam) or local_defs(wfi, fparam):
            raise AnalysisError(f"undecided: how the wrapper of decorator {t.qualname} runs {fi.qualname}")
        c = inner_calls[0]
        names = [x.arg for x in fi.node.args.posonlyargs + fi.node.args.args]
        if any(isinstance(x, ast.Starred) for x in c.args) or any(k.arg is None for k in c.keywords) or len(c.args) > len(names):
            raise AnalysisError(f"undecided: arguments the wrapper of decorator {t.qualname} passes to {fi.qualname}")
        env = {p_: _expand(ctx, wfi, a, None, at=c) for p_, a in zip(names, c.args)}
        env.update({k.arg: _expand(ctx, wfi, k.value, None, at=c) for k in c.keywords})
        out.append((wfi, c, env))
    return out


def _decorator_facts(ctx: Ctx, fi: FuncInfo) -> list:
    """What the wrappers of fi's new private decorators have established when they run fi's body, in terms of fi's parameters
    (facts that mention a local of the wrapper are left out: the body cannot name it)."""
    out = []
    for wfi, c, env in _decorator_wrappers(ctx, fi):
        back = {}
        for p_, a in env.items():
            a = strip_cast(a)
            if isinstance(a, ast.Name) and is_param(wfi, a.id) and _still_param(ctx, wfi, a, c) == a.id and a.id not in back:
                back[a.id] = ast.Name(id=p_, ctx=ast.Load())
        hidden = ({n.id for n in ast.walk(wfi.node) if isinstance(n, ast.Name) and isinstance(n.ctx, (ast.Store, ast.Del))} | set(wfi.params())) - set(back)
        for f in _xfacts(ctx, wfi, c, None):
            used = names_in(f.left) | (names_in(f.right) if f.right is not None else set())
            if used & hidden:
                continue
            sub = lambda e: None if e is None else _expand(ctx, wfi, e, back, at=c, depth=0)  # noqa: E731
            out.append(Fact(f.op, sub(f.left), sub(f.right), f.pos, f.atom))
    return out


@dataclass
class _Site:
    fi: FuncInfo                      # function that contains the call textually
    call: ast.Call
    env: dict | None                  # helper parameter -> argument (in the role function's terms)
    facts: list                       # dominating facts, outer call sites first
    via: list = field(default_factory=list)      # [(function, helper call)] from the role function down to fi
    op: str | None = None             # operation when the callee is picked at run time (dispatch table / conditional callable)
    elem: object = None               # _Elem: the layer-plan element this step stands for (call inside `for ... in <plan>`)
    plan: object = None               # _Plan the element belongs to
    subst: dict | None = None         # loop variable -> (function, env, expression) of the plan element


def _new_helper(ctx: Ctx, fi: FuncInfo, call: ast.Call) -> FuncInfo | None:
    """Target of `self.<m>(...)` when <m> is a method of the same class that the reviewed tree does not have (or a new
    module-level function called by name)."""
    t = _method_target(ctx, fi, call)
    if t is None or not _is_new(t):
        return None
    return t


def _callee(ctx: Ctx, *names: str):
    """Site predicate for _sites: the callee is one of the given chains (read directly or through local aliases / helper parameters)."""
    return lambda fi, env, c: chain(c.func) in names or _xchain(ctx, fi, c.func, env, at=c) in names


def _sites(ctx: Ctx, fi: FuncInfo, is_site, helper_of=_helper, env: dict | None = None, outer=(), via=(), depth: int = 3) -> list[_Site]:
    """Call sites (is_site(call)) of a function including those in the helpers it calls, with the facts that dominate them."""
    out = []
    if not via and not outer and env is None and fi.node.decorator_list:
        outer = _decorator_facts(ctx, fi)
    for c in calls(fi):
        if is_site(fi, env, c):
            out.append(_Site(fi, c, env, list(outer) + _xfacts(ctx, fi, c, env), list(via)))
            continue
        t = helper_of(ctx, fi, c)
        if t is not None and depth > 0 and all(t is not g for g, _ in via) and t is not fi:
            out.extend(_sites(ctx, t, is_site, helper_of, _bind(ctx, fi, c, t, env), list(outer) + _xfacts(ctx, fi, c, env),
                              [*via, (fi, c)], depth - 1))
    return out


def _crypto_sites(ctx: Ctx, fi: FuncInfo, env: dict | None = None, outer=(), via=(), depth: int = 3) -> list[_Site]:
    """The encrypt_cell/decrypt_cell steps of a role function including those in the helpers it calls (see _step_sites)."""
    out = []
    for c in calls(fi):
        if _is_crypto_call(ctx, fi, c):
            out.extend(_step_sites(ctx, fi, c, env, list(outer), list(via)))
            continue
        t = _helper(ctx, fi, c)
        if t is not None and depth > 0 and all(t is not g for g, _ in via) and t is not fi:
            out.extend(_crypto_sites(ctx, t, _bind(ctx, fi, c, t, env), list(outer) + _xfacts(ctx, fi, c, env), [*via, (fi, c)], depth - 1))
    return out


def _unit(ctx: Ctx, fi: FuncInfo, depth: int = 3) -> list[FuncInfo]:
    """fi and the helpers it (transitively) calls."""
    out = [fi]
    if depth > 0:
        for c in calls(fi):
            t = _helper(ctx, fi, c)
            if t is not None and t not in out:
                out.extend(g for g in _unit(ctx, t, depth - 1) if g not in out)
    return out


# ------------------------------------------------------------------------------------ values decided by the path
def _reaching_defs(ctx: Ctx, fi: FuncInfo, name: str, site_nodes):
    """[(stmt, value)] definitions of local `name` that can be the latest one when a site node runs."""
    cfg = ctx.cfg(fi)
    defs = local_defs(fi, name)
    nodes = {id(st): cfg.nodes_for(st) for st, _, _ in defs}
    out = []
    for st, v, idx in defs:
        others = [n for st2, _, _ in defs if st2 is not st for n in nodes[id(st2)]]
        mine = nodes[id(st)]
        starts = [w for n in mine for w, lab in n.succ if lab != "exc"]
        r = cfg.reach(starts, cut_nodes=others)
        if any(s in r for s in site_nodes):
            out.append((st, v if idx is None else None))
    return out


def _path_facts(ctx: Ctx, fi: FuncInfo, def_stmt, other_defs, site_nodes, no_complete=()):
    """(atom, polarity) that hold on every path entry -> def_stmt -> site that passes no other definition (and completes none
    of the no_complete nodes)."""
    cfg = ctx.cfg(fi)
    dn = cfg.nodes_for(def_stmt)
    out = []
    for n in dn:
        out.extend(cfg.facts_at(n))
    others = [n for st in other_defs for n in cfg.nodes_for(st)]
    starts = [w for n in dn for w, lab in n.succ if lab != "exc"]
    base = cfg.reach(starts, cut_nodes=others, cut_out_normal=no_complete)
    if not any(s in base for s in site_nodes):
        return out
    for c in cfg.nodes:
        if c.kind != "cond" or c not in base:
            continue
        for pol in (True, False):
            r = cfg.reach(starts, cut_nodes=others, cut_out_normal=no_complete,
                          cut_edge=lambda u, v, lab, c=c, pol=pol: u is c and lab is pol)
            if not any(s in r for s in site_nodes):
                out.append((c.ast, pol))
    return out


def _conditional_value(ctx: Ctx, fi: FuncInfo, name: str, at: ast.AST):
    """`if T: x = A else: x = B` (any equivalent control flow): (T-atom, polarity, A, B) = x is A iff atom has polarity, else B."""
    cfg = ctx.cfg(fi)
    site_nodes = cfg.nodes_for(at)
    defs = local_defs(fi, name)
    if not site_nodes or is_param(fi, name) or any(v is None or idx is not None for _, v, idx in defs):
        return None
    all_nodes = [n for st, _, _ in defs for n in cfg.nodes_for(st)]
    if not all(cfg.must_complete(s, all_nodes) for s in site_nodes):
        return None
    rd = _reaching_defs(ctx, fi, name, site_nodes)
    if len(rd) != 2:
        return None
    (s1, v1), (s2, v2) = rd
    f1 = _path_facts(ctx, fi, s1, [s2], site_nodes)
    f2 = _path_facts(ctx, fi, s2, [s1], site_nodes)
    for a, p in f1:
        if isinstance(a, (ast.For, ast.AsyncFor, ast.While)):
            continue
        if any(a2 is a and p2 is (not p) for a2, p2 in f2):
            cn = [n for n in cfg.by_ast.get(id(a), []) if n.kind == "cond"]
            # the deciding test runs once per call (not inside a loop)
            if any(n in cfg.reach([w for w, _ in n.succ]) for n in cn):
                return None
            return a, p, v1, v2
    return None


def _is_const_name(text: str) -> bool:
    return text.replace("_", "").isalnum() and text.upper() == text and not text[0].isdigit()


def _eq_sides(ctx: Ctx, fi: FuncInfo, f: Fact, env: dict | None):
    l, r = norm(_expand(ctx, fi, f.left, env)), norm(_expand(ctx, fi, f.right, env))
    return (r, l) if _is_const_name(l) and not _is_const_name(r) else (l, r)


def _dir_canon(ctx: Ctx, fi: FuncInfo, e: ast.AST | None, env: dict | None, at: ast.AST, depth: int = 4) -> str:
    """Canonical text of a direction argument: aliases followed, a value chosen by if/else written as `A if L == R else B`."""
    if e is None:
        return "<none>"
    e = strip_cast(e)
    if isinstance(e, ast.Name) and not (env and e.id in env) and not is_param(fi, e.id) and depth > 0:
        defs = local_defs(fi, e.id)
        if len(defs) == 1:
            v = _alias_def(ctx, fi, e.id, at)
            if v is not None:
                return _dir_canon(ctx, fi, v, env, v, depth - 1)
        elif len(defs) > 1:
            cv = _conditional_value(ctx, fi, e.id, at)
            if cv is not None:
                a, p, v1, v2 = cv
                return _ifexp_text(ctx, fi, a, p, v1, v2, env, depth - 1)
    if isinstance(e, ast.IfExp):
        return _ifexp_text(ctx, fi, e.test, True, e.body, e.orelse, env, depth - 1)
    if isinstance(e, ast.Call) and isinstance(e.func, ast.Attribute) and e.func.attr == "get" and len(e.args) == 2 and not e.keywords:
        # {K: A}.get(x, B)  ==  A if x == K else B
        d = _dict_display(fi, e.func.value, ctx)
        if d is not None and len(d.keys) == 1:
            return _ifexp_text(ctx, fi, _eq(e.args[0], d.keys[0]), True, d.values[0], e.args[1], env, depth - 1)
    return norm(_expand(ctx, fi, e, env, at=at))


def _ifexp_text(ctx: Ctx, fi: FuncInfo, test: ast.AST, pol: bool, a: ast.AST, b: ast.AST, env, depth: int) -> str:
    while isinstance(test, ast.UnaryOp) and isinstance(test.op, ast.Not):
        test, pol = test.operand, not pol
    f = fact_of(test, pol)
    ta, tb = _dir_canon(ctx, fi, a, env, a, depth), _dir_canon(ctx, fi, b, env, b, depth)
    if not f.pos:
        ta, tb = tb, ta
    if f.op == "eq":
        l, r = _eq_sides(ctx, fi, f, env)
        return f"{ta} if {l} == {r} else {tb}"
    if f.op == "truthy":
        return f"{ta} if {norm(_expand(ctx, fi, f.left, env))} else {tb}"
    f.pos = True
    return f"{ta} if {f} else {tb}"


# ------------------------------------------------------------------------------------ callables picked at run time, layer plans
OPS = ("encrypt_cell", "decrypt_cell")


def _shared_const(ctx: Ctx | None, fi: FuncInfo | None, e: ast.AST, depth: int = 3):
    """The expression a module-level constant (`_TABLE`) or a class-level constant of fi's class (`self._TABLE`, `cls._TABLE`,
    `Class._TABLE`) is bound to, when e names one and fi has no local of that name; else None."""
    if ctx is None or fi is None or depth <= 0:
        return None
    e = strip_cast(e)
    v = None
    if isinstance(e, ast.Name):
        if is_param(fi, e.id) or local_defs(fi, e.id):
            return None
        r = ctx.repo.resolve_name(fi.module, e.id)
        v = r[2] if isinstance(r, tuple) and r[0] == "const" else None
    elif isinstance(e, ast.Attribute) and isinstance(e.value, ast.Name) and fi.cls is not None and \
            (e.value.id in ("self", "cls") or any(c.name == e.value.id for c in fi.cls.mro())):
        stored = any(isinstance(n, ast.Attribute) and n.attr == e.attr and isinstance(n.ctx, (ast.Store, ast.Del))
                     for c in fi.cls.mro() for g in c.methods.values() for n in ast.walk(g.node))
        v = None if stored else fi.cls.lookup_attr(e.attr)
    if v is None:
        return None
    v = strip_cast(v)
    while isinstance(v, ast.Call) and chain(v.func) in ("MappingProxyType", "types.MappingProxyType", "dict", "tuple", "frozenset") \
            and len(v.args) == 1 and not v.keywords:
        v = strip_cast(v.args[0])
    return _shared_const(ctx, fi, v, depth - 1) or v


def _dict_display(fi: FuncInfo | None, e: ast.AST, ctx: Ctx | None = None):
    e = strip_cast(e)
    if isinstance(e, ast.Name) and fi is not None and _bindings(fi, e.id) == 1:
        e = resolve(fi, e)
    e = _shared_const(ctx, fi, e) or e
    if isinstance(e, ast.Dict) and e.keys and all(k is not None for k in e.keys):
        return e
    return None


def _seq_display(fi: FuncInfo | None, e: ast.AST, ctx: Ctx | None = None):
    """Elements of a tuple / list display (read directly, through a local bound once, or from a shared constant)."""
    e = strip_cast(e)
    if isinstance(e, ast.Name) and fi is not None and _bindings(fi, e.id) == 1:
        e = resolve(fi, e)
    e = _shared_const(ctx, fi, e) or e
    if isinstance(e, (ast.Tuple, ast.List)) and not any(isinstance(x, ast.Starred) for x in e.elts):
        return list(e.elts)
    return None


def _eq(l: ast.AST, r: ast.AST, neg: bool = False) -> ast.Compare:
    return ast.Compare(left=clone(l), ops=[ast.NotEq() if neg else ast.Eq()], comparators=[clone(r)])


def _used(ctx: Ctx) -> set:
    u = getattr(ctx, "_c04_used_refs", None)
    if u is None:
        u = ctx._c04_used_refs = set()  # type: ignore[attr-defined]
    return u


def _alts(ctx: Ctx, fi: FuncInfo, e: ast.AST, at: ast.AST, leaf, depth: int = 3):
    """[(label, [(atom, truth)])]: the alternatives when expression `e` (of fi) denotes one of several values picked at run time,
    leaf(expression) -> label | None recognising the values: a local bound to one, a conditional expression / if-else between them,
    a dict display of them indexed or .get()-ed by a key, a tuple display indexed by a test or a constant (held in a local, a
    module-level or a class-level constant) - each with the tests that select it.  None when the expression is anything else."""
    e = strip_cast(e)
    lab = leaf(e)
    if lab is not None:
        return [(lab, [])]
    if depth <= 0:
        return None

    def sub(x):
        return _alts(ctx, fi, x, at, leaf, depth - 1)

    def both(a, pol, v1, v2):
        a1, a2 = sub(v1), sub(v2)
        if a1 is None or a2 is None:
            return None
        return [(o, [*fs, (a, pol)]) for o, fs in a1] + [(o, [*fs, (a, not pol)]) for o, fs in a2]

    def table(d, key, default):
        out = []
        for k, v in zip(d.keys, d.values):
            a = sub(v)
            if a is None:
                return None
            out += [(o, [*fs, (_eq(key, k), True)]) for o, fs in a]
        if default is not None and not (isinstance(default, ast.Constant) and default.value is None):
            a = sub(default)
            if a is None:
                return None
            out += [(o, [*fs, *[(_eq(key, k), False) for k in d.keys]]) for o, fs in a]
        return out

    if isinstance(e, ast.Name):
        if is_param(fi, e.id):
            return None
        defs = local_defs(fi, e.id)
        if len(defs) == 1 and defs[0][1] is not None and defs[0][2] is None:
            return sub(defs[0][1])
        if len(defs) == 2 and all(v is not None and idx is None for _, v, idx in defs):
            cv = _conditional_value(ctx, fi, e.id, at)
            if cv is not None:
                return both(*cv)
        return None
    if isinstance(e, ast.IfExp):
        return both(e.test, True, e.body, e.orelse)
    if isinstance(e, ast.Call) and isinstance(e.func, ast.Attribute) and e.func.attr == "get" and 1 <= len(e.args) <= 2 \
            and not e.keywords:
        d = _dict_display(fi, e.func.value, ctx)
        return None if d is None else table(d, e.args[0], e.args[1] if len(e.args) == 2 else None)
    if isinstance(e, ast.Subscript):
        d = _dict_display(fi, e.value, ctx)
        if d is not None:
            return table(d, e.slice, None)
        elts = _seq_display(fi, e.value, ctx)
        ix = strip_cast(e.slice)
        while isinstance(ix, ast.Call) and chain(ix.func) in ("int", "bool") and len(ix.args) == 1 and not ix.keywords:
            ix = strip_cast(ix.args[0])
        if elts is not None and isinstance(ix, ast.Constant) and isinstance(ix.value, int) and -len(elts) <= ix.value < len(elts):
            return sub(elts[ix.value])
        if elts is not None and len(elts) == 2 and isinstance(ix, (ast.Compare, ast.BoolOp)) or \
                (elts is not None and len(elts) == 2 and isinstance(ix, ast.UnaryOp) and isinstance(ix.op, ast.Not)):
            # (a, b)[test]: a comparison / boolean operation yields False (0) or True (1)
            if isinstance(ix, ast.BoolOp) and not all(isinstance(strip_cast(v), (ast.Compare, ast.UnaryOp)) for v in ix.values):
                return None                      # `x and y` yields an operand, not a bool
            return both(ix, True, elts[1], elts[0])
        return None
    return None


def _op_alts(ctx: Ctx, fi: FuncInfo, func: ast.AST, at: ast.AST, depth: int = 3):
    """[(operation, [(atom, truth)])]: the alternatives when expression `func` (of fi) denotes self.encrypt_cell / self.decrypt_cell
    picked at run time (see _alts); the method may also be named by a string: getattr(self, <'encrypt_cell' | 'decrypt_cell'>)."""
    def method(x):
        if isinstance(x, ast.Attribute) and isinstance(x.value, ast.Name) and x.value.id == "self" and x.attr in OPS:
            _used(ctx).add(id(x))
            return x.attr
        return None

    def name(x):
        if isinstance(x, ast.Constant) and x.value in OPS:
            _used(ctx).add(id(x))
            return x.value
        return None

    func = strip_cast(func)
    if isinstance(func, ast.Call) and chain(func.func) == "getattr" and len(func.args) == 2 and not func.keywords and chain(func.args[0]) == "self":
        return _alts(ctx, fi, func.args[1], at, name, depth)
    r = _alts(ctx, fi, func, at, method, depth)
    if r is None and isinstance(func, ast.Name) and not is_param(fi, func.id) and _bindings(fi, func.id) == 1:
        d = single_def(fi, func.id)
        if d is not None and d[1] is None and isinstance(strip_cast(d[0]), ast.Call) and chain(strip_cast(d[0]).func) == "getattr":
            return _op_alts(ctx, fi, d[0], at, depth - 1) if depth > 0 else None
    return r


def _crypto_alts(ctx: Ctx, fi: FuncInfo, c: ast.Call) -> list:
    """[(operation, selecting tests)] when call c performs an encrypt_cell / decrypt_cell step of self, [] otherwise.  The callee may
    be a functools.partial of the method (written in place or held in a local bound once): its leading arguments then count as
    the leading arguments of the step (_step_arg)."""
    memo = getattr(ctx, "_c04_alts", None)
    if memo is None:
        memo = ctx._c04_alts = {}  # type: ignore[attr-defined]
        ctx._c04_pre = {}  # type: ignore[attr-defined]
    if id(c) not in memo:
        f = strip_cast(c.func)
        g = f
        if isinstance(g, ast.Name) and not is_param(fi, g.id) and _bindings(fi, g.id) == 1:
            g = strip_cast(resolve(fi, g))
        if isinstance(g, ast.Call) and chain(g.func) in ("partial", "functools.partial") and g.args and not g.keywords \
                and not any(isinstance(a, ast.Starred) for a in g.args):
            ctx._c04_pre[id(c)] = list(g.args[1:])  # type: ignore[attr-defined]
            f = strip_cast(g.args[0])
        r = None
        if isinstance(f, (ast.Attribute, ast.Name, ast.IfExp, ast.Subscript, ast.Call)):
            r = _op_alts(ctx, fi, f, c)
        memo[id(c)] = r or []
    return memo[id(c)]


def _step_positional(ctx: Ctx, c: ast.Call) -> list:
    """Positional arguments of a crypto step: those a functools.partial bound in advance, then those of the call."""
    return [*getattr(ctx, "_c04_pre", {}).get(id(c), []), *c.args]


def _step_arg(ctx: Ctx, c: ast.Call, index: int, name: str):
    pos = _step_positional(ctx, c)
    if index < len(pos) and not any(isinstance(a, ast.Starred) for a in pos[: index + 1]):
        return pos[index]
    return next((k.value for k in c.keywords if k.arg == name), None)


def _is_crypto_call(ctx: Ctx, fi: FuncInfo, c: ast.Call) -> bool:
    return bool(_crypto_alts(ctx, fi, c)) or _loop_callable(ctx, fi, c) is not None


def _raw_facts(fi: FuncInfo, pairs) -> list[Fact]:
    out = []
    for a, p in pairs:
        if isinstance(a, (ast.For, ast.AsyncFor, ast.While)):
            continue
        out.append(fact_of(a, p))
    return out


@dataclass
class _Elem:
    """One element of a layer plan: `yield (d, hops)`, `plan.append((d, hops))`, an element of a returned / assigned display."""
    fi: FuncInfo
    env: dict | None
    expr: ast.AST
    node: ast.AST                      # the statement that produces it
    index: int                         # position inside a display
    facts: list                        # expanded facts that hold whenever the element is part of the plan


@dataclass
class _Plan:
    elems: list
    empties: list                      # [[(fi, env, atom, truth)]]: for every way the plan can be empty, the tests that hold then
    flipped: bool = False              # the loop walks the plan last-to-first
    ordered: bool = True               # production order == order of the elements in the plan
    marks: list = field(default_factory=list)    # [(function, statement, 'empty' | 'full')]: what a statement makes of a plan held in a local
    var: str | None = None             # that local


def _value_alts(fi: FuncInfo, v: ast.AST | None):
    """[(kind, elements, [(atom, truth)])] for a plan value: a display, an empty list()/tuple(), None, a conditional expression
    between those; None when the value is something else."""
    if v is None:
        return [("none", [], [])]
    v = strip_cast(v)
    if isinstance(v, ast.Constant) and v.value is None:
        return [("none", [], [])]
    if isinstance(v, (ast.List, ast.Tuple)) and not any(isinstance(x, ast.Starred) for x in v.elts):
        return [("list", list(v.elts), [])]
    if isinstance(v, ast.Call) and isinstance(v.func, ast.Name) and v.func.id in ("list", "tuple") and not v.keywords:
        if not v.args:
            return [("list", [], [])]
        if len(v.args) == 1 and isinstance(strip_cast(v.args[0]), (ast.List, ast.Tuple)):
            return _value_alts(fi, v.args[0])
        return None
    if isinstance(v, ast.IfExp):
        a, b = _value_alts(fi, v.body), _value_alts(fi, v.orelse)
        if a is None or b is None:
            return None
        return [(k, e, [*fs, *_derive(fi, v.test, True)]) for k, e, fs in a] + [(k, e, [*fs, *_derive(fi, v.test, False)]) for k, e, fs in b]
    if isinstance(v, ast.BinOp) and isinstance(v.op, ast.Add):          # [a] + ([b] if t else [])
        a, b = _value_alts(fi, v.left), _value_alts(fi, v.right)
        if a is None or b is None or any(k != "list" for k, _, _ in [*a, *b]):
            return None
        return [("list", [*e1, *e2], [*f1, *f2]) for _, e1, f1 in a for _, e2, f2 in b]
    return None


_GROW = ("append", "extend", "insert")
_MUTATE = ("pop", "remove", "clear", "sort", "reverse", "__setitem__", "__delitem__")


def _plan_of_local(ctx: Ctx, fi: FuncInfo, env, name: str, targets, outer) -> _Plan | None:
    """The plan held by local `name` of fi when control reaches one of the CFG nodes `targets`: displays assigned to it on the
    different paths and elements appended afterwards.  None when the local is built in a way that is not understood."""
    cfg = ctx.cfg(fi)
    if is_param(fi, name):
        return None
    ordered = True
    grow = []                          # (statement, [element expressions])
    for n in walk_no_nested(fi.node):
        if isinstance(n, ast.Call) and isinstance(n.func, ast.Attribute) and isinstance(n.func.value, ast.Name) and n.func.value.id == name:
            st = enclosing_stmt(n)
            plain = isinstance(st, ast.Expr) and st.value is n and not n.keywords
            if n.func.attr == "append" and plain and len(n.args) == 1:
                grow.append((st, [n.args[0]]))
            elif n.func.attr == "extend" and plain and len(n.args) == 1 and isinstance(n.args[0], (ast.List, ast.Tuple)):
                grow.append((st, list(n.args[0].elts)))
            elif n.func.attr == "insert" and plain and len(n.args) == 2:
                grow.append((st, [n.args[1]]))
                ordered = False
            elif n.func.attr in _GROW or n.func.attr in _MUTATE:
                return None
        elif isinstance(n, ast.AugAssign) and isinstance(n.target, ast.Name) and n.target.id == name:
            if isinstance(n.op, ast.Add) and isinstance(n.value, (ast.List, ast.Tuple)):
                grow.append((n, list(n.value.elts)))
            else:
                return None
        elif isinstance(n, ast.Subscript) and isinstance(n.ctx, (ast.Store, ast.Del)) and isinstance(n.value, ast.Name) and n.value.id == name:
            return None
    # the list is not reachable under another name: every read of the local is the receiver of one of the calls above, the iterable
    # of a `for`, a test of the value, or a `return`
    for n in walk_no_nested(fi.node):
        if isinstance(n, ast.Name) and n.id == name and isinstance(n.ctx, ast.Load):
            p_ = parent_of(n)
            while isinstance(p_, ast.Call) and isinstance(p_.func, ast.Name) and p_.func.id in ("reversed", "list", "tuple", "iter", "bool", "len") \
                    and len(p_.args) == 1:
                n, p_ = p_, parent_of(p_)
            ok_use = (isinstance(p_, ast.Attribute) and isinstance(parent_of(p_), ast.Call) and parent_of(p_).func is p_) or \
                (isinstance(p_, (ast.For, ast.AsyncFor)) and p_.iter is n) or isinstance(p_, (ast.Return, ast.Compare, ast.If, ast.While, ast.BoolOp, ast.UnaryOp)) or \
                (isinstance(p_, ast.AugAssign))
            if not ok_use:
                return None
    defs = [(st, v, idx) for st, v, idx in local_defs(fi, name) if not isinstance(st, ast.AugAssign)]
    if not defs:
        return None
    alts, subs = {}, {}
    for st, v, idx in defs:
        if idx is not None or not isinstance(st, (ast.Assign, ast.AnnAssign)):
            return None
        a = _value_alts(fi, v)
        if a is None:
            # one of the bindings takes the plan from a helper (a generator / a function returning displays): its elements, with
            # the facts that lead to this binding, are part of the plan
            hc = strip_cast(v) if v is not None else None
            while isinstance(hc, ast.Call) and isinstance(hc.func, ast.Name) and hc.func.id in ("list", "tuple", "iter") and len(hc.args) == 1 \
                    and not hc.keywords and not isinstance(hc.args[0], ast.Starred):
                hc = strip_cast(hc.args[0])             # the helper's elements in the helper's order
            h = _helper(ctx, fi, hc) if isinstance(hc, ast.Call) else None
            if h is None or h is fi or grow:
                return None
            subs[id(st)] = (hc, h)
            a = []
        alts[id(st)] = a
    grow_nodes = [g for st, _ in grow for g in cfg.nodes_for(st)]
    elems, empties = [], []
    full_defs: dict = {}

    def reaches(st, cut_nodes=()) -> bool:
        starts = [w for g in cfg.nodes_for(st) for w, lab in g.succ if lab != "exc"]
        r = cfg.reach(starts, cut_nodes=cut_nodes)
        return any(t in r for t in targets)

    for st, v, _ in defs:
        others = [g for st2, _, _ in defs if st2 is not st for g in cfg.nodes_for(st2)]
        if not reaches(st, others):
            continue
        dom = _xfacts(ctx, fi, st, env)
        if id(st) in subs:
            sub = _plan_of_helper(ctx, fi, subs[id(st)][0], subs[id(st)][1], env, [*outer, *dom])
            if sub is None:
                return None
            elems += sub.elems
            ordered = ordered and sub.ordered
            full_defs[id(st)] = not sub.empties
            if sub.empties:
                pf = _path_facts(ctx, fi, st, [st2 for st2, _, _ in defs if st2 is not st], targets)
                here = [(fi, env, a, p) for a, p in pf if not isinstance(a, (ast.For, ast.AsyncFor, ast.While))]
                empties += [[*e, *here] for e in sub.empties]
            continue
        for kind, elts, fs in alts[id(st)]:
            extra = _xfacts_of(ctx, fi, [fact_of(a, p) for a, p in fs], env, at=st)
            for i, e in enumerate(elts):
                elems.append(_Elem(fi, env, e, st, i, [*outer, *dom, *extra]))
            if kind == "list" and not elts:
                starts = [w for g in cfg.nodes_for(st) for w, lab in g.succ if lab != "exc"]
                r = cfg.reach(starts, cut_nodes=others, cut_out_normal=grow_nodes)
                if any(t in r for t in targets):
                    pf = _path_facts(ctx, fi, st, [st2 for st2, _, _ in defs if st2 is not st], targets, no_complete=grow_nodes)
                    empties.append([(fi, env, a, p) for a, p in [*pf, *fs] if not isinstance(a, (ast.For, ast.AsyncFor, ast.While))])
    for st, elts in grow:
        if reaches(st):
            dom = _xfacts(ctx, fi, st, env)
            for i, e in enumerate(elts):
                elems.append(_Elem(fi, env, e, st, i, [*outer, *dom]))
    marks = [(fi, st, "full" if (full_defs.get(id(st), False) if id(st) in subs else all(kind == "list" and elts for kind, elts, _ in alts[id(st)]))
              else "empty") for st, _, _ in defs]
    marks += [(fi, st, "full") for st, elts in grow if elts]
    return _Plan(elems, empties, ordered=ordered, marks=marks, var=name)


def _plan_of_helper(ctx: Ctx, fi: FuncInfo, call: ast.Call, h: FuncInfo, env, outer) -> _Plan | None:
    """The plan a helper produces: what a generator yields, or the displays / locally built lists a function returns."""
    henv = _bind(ctx, fi, call, h, env)
    hcfg = ctx.cfg(h)
    ys = [n for n in walk_no_nested(h.node) if isinstance(n, (ast.Yield, ast.YieldFrom))]
    if ys:
        if any(isinstance(y, ast.YieldFrom) or y.value is None or not (isinstance(enclosing_stmt(y), ast.Expr) and enclosing_stmt(y).value is y)
               for y in ys):
            return None
        elems = [_Elem(h, henv, y.value, enclosing_stmt(y), 0, [*outer, *_xfacts(ctx, h, y, henv)]) for y in ys]
        ynodes = [g for y in ys for g in hcfg.nodes_for(y)]
        empties = []
        if hcfg.exit in hcfg.reach(cut_out_normal=ynodes):
            pf = []
            for c in hcfg.nodes:
                if c.kind != "cond":
                    continue
                for pol in (True, False):
                    r = hcfg.reach(cut_out_normal=ynodes, cut_edge=lambda u, v, lab, c=c, pol=pol: u is c and lab is pol)
                    if hcfg.exit not in r:
                        pf.append((h, henv, c.ast, pol))
            empties.append(pf)
        return _Plan(elems, empties)
    elems, empties, ordered = [], [], True
    rets = [n for n in walk_no_nested(h.node) if isinstance(n, ast.Return)]
    if not rets:
        return None
    for r in rets:
        dom = _xfacts(ctx, h, r, henv)
        v = strip_cast(r.value) if r.value is not None else None
        if isinstance(v, ast.Name) and not is_param(h, v.id):
            sub = _plan_of_local(ctx, h, henv, v.id, hcfg.nodes_for(r), [*outer, *dom])
            if sub is None:
                return None
            elems += sub.elems
            empties += sub.empties
            ordered = ordered and sub.ordered
            continue
        a = _value_alts(h, v)
        if a is None:
            return None
        raw = [(h, henv, f.atom, _fact_truth(f)) for f in facts_at(hcfg, r)]
        for kind, elts, fs in a:
            extra = _xfacts_of(ctx, h, [fact_of(x, p) for x, p in fs], henv, at=r)
            for i, e in enumerate(elts):
                elems.append(_Elem(h, henv, e, r, i, [*outer, *dom, *extra]))
            if kind == "list" and not elts:
                empties.append([*raw, *[(h, henv, x, p) for x, p in fs]])
    return _Plan(elems, empties, ordered=ordered)


def _plan_of_iter(ctx: Ctx, fi: FuncInfo, env, loop: ast.For, outer=()) -> _Plan | None:
    """The layer plan a `for` statement of fi walks, or None when its iterable is not one."""
    memo = getattr(ctx, "_c04_plans", None)
    if memo is None:
        memo = ctx._c04_plans = {}  # type: ignore[attr-defined]
    key = (id(loop), tuple(sorted((k, norm(v)) for k, v in (env or {}).items())))
    if key in memo:
        return memo[key]
    memo[key] = None
    cfg = ctx.cfg(fi)
    it, flipped = strip_cast(loop.iter), False
    while isinstance(it, ast.Call) and isinstance(it.func, ast.Name) and it.func.id in ("reversed", "list", "tuple", "iter") \
            and len(it.args) == 1 and not it.keywords:
        flipped = flipped != (it.func.id == "reversed")
        it = strip_cast(it.args[0])
    targets = [n for n in cfg.by_ast.get(id(loop.iter), []) if n.kind == "stmt"]
    plan = None
    src = it
    if isinstance(it, ast.Name) and not is_param(fi, it.id):
        d = single_def(fi, it.id)
        if d is not None and d[1] is None and isinstance(strip_cast(d[0]), ast.Call) and _helper(ctx, fi, strip_cast(d[0])) is not None:
            src = strip_cast(d[0])
        else:
            plan = _plan_of_local(ctx, fi, env, it.id, targets, list(outer))
    if plan is None and isinstance(src, ast.Call):
        h = _helper(ctx, fi, src)
        if h is not None and h is not fi:
            plan = _plan_of_helper(ctx, fi, src, h, env, list(outer))
    elif plan is None and isinstance(src, (ast.List, ast.Tuple)) and not any(isinstance(x, ast.Starred) for x in src.elts):
        dom = _xfacts(ctx, fi, loop.iter, env)
        plan = _Plan([_Elem(fi, env, e, loop, i, [*outer, *dom]) for i, e in enumerate(src.elts)], [] if src.elts else [[]])
    if plan is not None:
        plan.flipped = flipped
    memo[key] = plan
    return plan


def _loop_of(fi: FuncInfo, c: ast.Call):
    """The innermost `for` around call c whose loop variables the call uses."""
    used = names_in(c)
    for a in ancestors(c):
        if a is fi.node:
            break
        if isinstance(a, ast.For) and names_in(a.target) & used and not any(c is x for x in ast.walk(a.iter)):
            return a
    return None


def _elem_binding(ctx: Ctx, fi: FuncInfo, loop: ast.For, el: _Elem):
    """loop variable -> (function, env, expression) when the plan element is unpacked into the loop target."""
    t, e = loop.target, strip_cast(el.expr)
    if isinstance(e, ast.Name) and _bindings(el.fi, e.id) == 1:
        e = resolve(el.fi, e)
    if isinstance(t, ast.Name):
        return {t.id: (el.fi, el.env, e)}
    comps = _components(ctx, el.fi.module, e)
    if isinstance(t, (ast.Tuple, ast.List)) and comps is not None and len(t.elts) == len(comps) and all(isinstance(x, ast.Name) for x in t.elts):
        return {x.id: (el.fi, el.env, y) for x, y in zip(t.elts, comps)}
    return None


def _bound_part(ctx: Ctx, fi: FuncInfo, m: dict | None, e: ast.AST | None, depth: int = 3):
    """(function, env, expression) of the plan element (or the part of it) that expression e of the loop body denotes: a loop
    variable, a field / constant index of one (`step.hops`, `step[1]`), or a local of the body bound once to such a read."""
    if not m or e is None or depth <= 0:
        return None
    e = strip_cast(e)
    if isinstance(e, ast.Name):
        if e.id in m:
            return m[e.id]
        if not is_param(fi, e.id) and _bindings(fi, e.id) == 1:
            d = single_def(fi, e.id)
            if d is not None and d[1] is None:
                return _bound_part(ctx, fi, m, d[0], depth - 1)
        return None
    sel = None
    if isinstance(e, ast.Attribute):
        sel = e.attr
    elif isinstance(e, ast.Subscript) and isinstance(e.slice, ast.Constant) and isinstance(e.slice.value, int):
        sel = e.slice.value
    if sel is None:
        return None
    base = _bound_part(ctx, fi, m, e.value, depth - 1)
    if base is None:
        return None
    g, genv, x = base
    x = strip_cast(x)
    if isinstance(x, ast.Name) and _bindings(g, x.id) == 1:
        x = resolve(g, x)
    part = _project(ctx, g.module, x, sel)
    return None if part is None else (g, genv, part)


def _loop_callable(ctx: Ctx, fi: FuncInfo, c: ast.Call):
    """The enclosing loop when the callee of c is (a part of) a loop variable that takes encrypt_cell / decrypt_cell from a plan."""
    f = c.func
    if not isinstance(f, (ast.Name, ast.Attribute, ast.Subscript)) or chain(f) in CRYPTO_OPS:
        return None
    loop = _loop_of(fi, c)
    if loop is None or not (names_in(f) & names_in(loop.target)):
        return None
    plan = _plan_of_iter(ctx, fi, None, loop)
    if plan is None or not plan.elems:
        return None
    for el in plan.elems:
        m = _elem_binding(ctx, fi, loop, el)
        part = _bound_part(ctx, fi, m, f)
        if part is None or _op_alts(ctx, part[0], part[2], part[2]) is None:
            return None
    return loop


def _step_sites(ctx: Ctx, fi: FuncInfo, c: ast.Call, env, outer, via) -> list[_Site]:
    """The protocol steps call c stands for: one per alternative of a callee picked at run time, times one per element of the
    layer plan when the call sits in a loop over a plan.  [] when c is not a crypto step."""
    here = [*outer, *_xfacts(ctx, fi, c, env)]
    loop = _loop_of(fi, c)
    alts = _crypto_alts(ctx, fi, c)
    if loop is None or not (alts or _loop_callable(ctx, fi, c) is not None):
        return [_Site(fi, c, env, [*here, *_xfacts_of(ctx, fi, [fact_of(a, p) for a, p in fs], env, at=c)], list(via), op=op) for op, fs in alts]
    plan = _plan_of_iter(ctx, fi, env, loop)
    if plan is None:
        raise AnalysisError(f"undecided: {fi.qualname} applies crypto steps in a loop over `{norm(loop.iter)}`, whose elements are not understood")
    out = []
    for el in plan.elems:
        m = _elem_binding(ctx, fi, loop, el)
        if m is None:
            raise AnalysisError(f"undecided: element `{norm(el.expr)}` of the layer plan walked in {fi.qualname} is not unpacked into `{norm(loop.target)}`")
        ealts = alts
        if not ealts:
            g, _, fx = _bound_part(ctx, fi, m, c.func)
            ealts = _op_alts(ctx, g, fx, fx) or []
            ealts = [(op, [(g, a, p) for a, p in fs]) for op, fs in ealts]
        else:
            ealts = [(op, [(fi, a, p) for a, p in fs]) for op, fs in ealts]
        for op, fs in ealts:
            extra = []
            for g, a, p in fs:
                extra += _xfacts_of(ctx, g, [fact_of(a, p)], el.env if g is el.fi else env, at=c if g is fi else el.node)
            out.append(_Site(fi, c, env, [*here, *el.facts, *extra], list(via), op=op, elem=el, plan=plan, subst=m))
    return out


def _site_dir(ctx: Ctx, s: _Site) -> str:
    """Canonical text of the direction argument of a step."""
    d = _step_arg(ctx, s.call, 1, "direction")
    part = _bound_part(ctx, s.fi, s.subst, d)
    if part is not None:
        g, genv, e = part
        return _dir_canon(ctx, g, e, genv, e)
    return _dir_canon(ctx, s.fi, d, s.env, s.call)


def _takes_sequence(ctx: Ctx, op: str) -> bool:
    """encrypt_cell / decrypt_cell declare their hops as one sequence parameter instead of `*hops`."""
    t = ctx.repo.method("PythonCryptoEndpoint", op, CR)
    return t.node.args.vararg is None


def _site_hops(ctx: Ctx, s: _Site) -> str:
    """Canonical text of the hops arguments of a step: `a, b` for single hops, `*x` for a sequence of hops."""
    parts = []
    hop_args = _step_positional(ctx, s.call)[2:] + [k.value for k in s.call.keywords if k.arg == "hops"]
    seq = _takes_sequence(ctx, s.op or call_name(s.call) or "encrypt_cell")
    for a in hop_args:
        star = isinstance(a, ast.Starred) or seq              # a sequence parameter is what `*` would have spread
        v = a.value if isinstance(a, ast.Starred) else a
        part = _bound_part(ctx, s.fi, s.subst, v)
        if seq and part is None:
            e = strip_cast(_resolved(s.fi, v) if isinstance(v, ast.Name) and isinstance(_resolved(s.fi, v), (ast.Tuple, ast.List)) else v)
            if isinstance(e, ast.Call) and isinstance(e.func, ast.Name) and e.func.id in ("tuple", "list") and len(e.args) == 1 and not e.keywords:
                e = strip_cast(e.args[0])
            if isinstance(e, (ast.Tuple, ast.List)) and not any(isinstance(x, ast.Starred) for x in e.elts):
                parts += [norm(_expand(ctx, s.fi, x, s.env, at=s.call)) for x in e.elts]
            else:
                parts.append("*" + norm(_expand(ctx, s.fi, e, s.env, at=s.call)))
            continue
        if part is not None:
            g, genv, e = part
            e = strip_cast(e)
            if star and isinstance(e, ast.Name) and _bindings(g, e.id) == 1 and isinstance(strip_cast(resolve(g, e)), (ast.Tuple, ast.List)):
                e = strip_cast(resolve(g, e))
            if star and isinstance(e, ast.Call) and isinstance(e.func, ast.Name) and e.func.id in ("tuple", "list") and len(e.args) == 1 \
                    and not e.keywords:
                e = strip_cast(e.args[0])
            if star and isinstance(e, (ast.Tuple, ast.List)) and not any(isinstance(x, ast.Starred) for x in e.elts):
                parts += [norm(_expand(ctx, g, x, genv, at=x)) for x in e.elts]
            else:
                parts.append(("*" if star else "") + norm(_expand(ctx, g, e, genv, at=e)))
        else:
            parts.append(norm(_expand(ctx, s.fi, a, s.env, at=s.call)))
    return ", ".join(parts)


def _site_cell(ctx: Ctx, s: _Site) -> str | None:
    a = _step_arg(ctx, s.call, 0, "cell")
    return None if a is None else norm(_expand(ctx, s.fi, a, s.env, at=s.call))


# ------------------------------------------------------------------------------------ every path passes ... (following helpers)
@dataclass
class _Atom:
    """Stands for a condition node when an edge predicate is asked about a test that is implied by the node's test."""
    ast: ast.AST
    kind: str = "cond"


class _MustPass:
    """
    'Every path from entry to a target takes a good edge / completes a good node.'  The good construct may live in a helper of
    the same class whose result guards the target (`if not self._helper(cell): return`): the helper call then counts as good on
    the out-edge(s) for which every matching `return` of the helper is itself covered.
    """

    def __init__(self, ctx: Ctx, good_edge=None, good_node=None, infeasible=None, subject=("cell",), plans: bool = False) -> None:
        self.ctx = ctx
        self.plans = plans                  # a loop over a layer plan whose body is good runs at least once unless the plan can be empty
        self.subject = set(subject)         # a helper decides something only when it is handed (an expression over) one of these names
        self.good_edge = good_edge          # (fi, env, cfg, cond node, label) -> bool
        self.good_node = good_node          # (fi, env, cfg, node) -> bool
        self.infeasible = infeasible        # (fi, env, cfg, cond node, label) -> bool : edge cannot be taken
        self.undecided: list[AnalysisError] = []
        self._memo: dict = {}

    def _guar(self, fi: FuncInfo, call: ast.Call, t: FuncInfo, env, pol, depth: int) -> bool:
        """guarantees() of helper t for this call; a helper the analysis cannot follow gives no guarantee (remembered as undecided)."""
        try:
            given = [_expand(self.ctx, fi, a, env) for a in [*call.args, *[k.value for k in call.keywords]]]
            if not any(isinstance(x, ast.Name) and x.id in self.subject for v in given for x in ast.walk(v)):
                return False                 # a helper that is not given the subject decides nothing about it
            henv = _bind(self.ctx, fi, call, t, env)
            key = (id(t.node), pol, tuple(sorted((k, norm(v)) for k, v in henv.items())))
            if key not in self._memo:
                self._memo[key] = self.guarantees(t, henv, pol, depth)
            return self._memo[key]
        except AnalysisError as ex:
            self.undecided.append(ex)
            return False

    def _implies_good(self, fi: FuncInfo, env, cfg, e: ast.AST, truth: bool) -> bool:
        """`e` having truthiness `truth` implies a fact that good_edge accepts (the test itself or one it is composed of)."""
        if self.good_edge is None:
            return False
        return any(self.good_edge(fi, env, cfg, _Atom(a), p) for a, p in _derive(fi, e, truth))

    def _cuts(self, fi: FuncInfo, env, depth: int, skip=()):
        ctx = self.ctx
        cfg = ctx.cfg(fi)
        cut_normal, cut_edges = set(), set()
        for n in cfg.nodes:
            if n in skip:
                continue
            if n.kind in ("stmt", "cond") and self.good_node is not None and self.good_node(fi, env, cfg, n):
                cut_normal.add(n)
            if n.kind == "cond":
                fixed = strip_cast(_expand(ctx, fi, n.ast, env)) if env else None     # a test of a parameter bound to a constant argument
                for lab in (True, False):
                    if isinstance(fixed, ast.Constant) and bool(fixed.value) is not lab:
                        cut_edges.add((n, lab))
                        continue
                    if self._implies_good(fi, env, cfg, n.ast, lab) or \
                            (self.infeasible is not None and self.infeasible(fi, env, cfg, n, lab)):
                        cut_edges.add((n, lab))
                c = _cond_call(ctx, fi, n)
                t = _helper(ctx, fi, c) if c is not None else None
                if t is not None and depth > 0:
                    for lab in (True, False):
                        if self._guar(fi, c, t, env, lab, depth - 1):
                            cut_edges.add((n, lab))
                elif depth > 0:
                    # a decision (tag / Enum member / flag in a tuple or record) returned by a helper and tested against constants
                    subj = _cond_subject(ctx, fi, n)
                    t = _helper(ctx, fi, subj[0]) if subj is not None else None
                    if t is not None and not any(isinstance(y, (ast.Yield, ast.YieldFrom)) for y in walk_no_nested(t.node)):
                        for lab in (True, False):
                            if self._guar(fi, subj[0], t, env, _Test(norm(n.ast), lab, subj[2], subj[1]), depth - 1):
                                cut_edges.add((n, lab))
        # `try: <table>[key] ... except KeyError:`: the handler runs only if the key is not in the table, provided the lookup is the
        # only thing in the try body that can raise a KeyError
        if self.good_edge is not None:
            for n in cfg.nodes:
                if n.kind == "handler" and n not in skip:
                    absent = _keyerror_means_absent(n.ast)
                    if absent is not None and self.good_edge(fi, env, cfg, _Atom(absent), True):
                        cut_normal.add(n)
        # `for t in (A, B, C): if P(t): return`: when the loop is exhausted every iteration has come back to the loop head, so a test
        # edge that every complete iteration takes holds for each element of the display
        if self.good_edge is not None:
            for n in cfg.nodes:
                if n.kind != "loop" or not isinstance(n.ast, ast.For) or not isinstance(n.ast.target, ast.Name) or n.ast.orelse:
                    continue
                var = n.ast.target.id
                elts = _literal_elts(fi, n.ast.iter)
                if not elts or _bindings(fi, var) != 1:
                    continue
                body = [v for v, lab in n.succ if lab is True]
                inside = cfg.reach(body, cut_nodes=[n])
                for c in inside:
                    if c.kind != "cond":
                        continue
                    for pol in (True, False):
                        if n in cfg.reach(body, cut_edge=lambda u, v, lab, c=c, pol=pol: u is c and lab is pol):
                            continue
                        if any(self._implies_good(fi, env, cfg, _subst_name(c.ast, var, el), pol) for el in elts):
                            cut_edges.add((n, False))
        # `for problem in self._problems(cell): ...; return`: when every iteration leaves the function, the code after the loop runs
        # only if the generator finished without yielding: what every such run of the generator establishes holds there
        if depth > 0:
            for n in cfg.nodes:
                if n.kind != "loop" or not isinstance(n.ast, ast.For):
                    continue
                c = _resolved(fi, n.ast.iter)
                t = _helper(ctx, fi, c) if isinstance(c, ast.Call) else None
                if t is None or not any(isinstance(y, (ast.Yield, ast.YieldFrom)) for y in walk_no_nested(t.node)):
                    continue
                if n in cfg.reach([v for v, lab in n.succ if lab is True]):
                    continue
                if self._guar(fi, c, t, env, "empty", depth - 1):
                    cut_edges.add((n, False))
        if depth > 0:
            for c in calls(fi):
                t = _helper(ctx, fi, c)
                if t is None or any(isinstance(y, (ast.Yield, ast.YieldFrom)) for y in walk_no_nested(t.node)):
                    continue                # (calling a generator function runs none of its code)
                full = None
                for n in cfg.nodes_for(c):
                    if (n.kind == "cond" and n.ast is c) or n in skip:
                        continue
                    if full is None:
                        full = self._guar(fi, c, t, env, None, depth - 1)
                    if full:
                        cut_normal.add(n)
        return cfg, cut_normal, cut_edges

    def reach(self, fi: FuncInfo, env=None, depth: int = 2, skip=(), no_yield: bool = False):
        cfg, cut_normal, cut_edges = self._cuts(fi, env, depth, skip)
        if no_yield:                        # only the paths on which the generator fi yields nothing
            cut_normal |= {g for y in walk_no_nested(fi.node) if isinstance(y, (ast.Yield, ast.YieldFrom)) for g in cfg.nodes_for(y)}

        def is_cut(u, v, lab) -> bool:
            return (u, lab) in cut_edges or (u in cut_normal and lab != "exc")
        gates, marks = self._gates(fi, env, cfg, is_cut) if self.plans else (None, None)
        return cfg, _flag_reach(self.ctx, fi, None, is_cut, env=env, gates=gates, marks=marks), is_cut

    def _gates(self, fi: FuncInfo, env, cfg, is_cut) -> dict:
        """{loop node: [{stable key: value}]}: for every `for` over a layer plan in which each iteration completes a good node, the
        assignments under which the plan can be empty (no iteration).  An empty plan whose emptiness itself implies the good fact
        needs no path: it is left out."""
        ctx = self.ctx
        gates, marks = {}, {}
        for n in cfg.nodes:
            if n.kind != "loop" or not isinstance(n.ast, ast.For):
                continue
            body = [v for v, lab in n.succ if lab is True]
            if n in cfg.reach(body, cut_edge=is_cut):
                continue
            plan = _plan_of_iter(ctx, fi, env, n.ast)
            if plan is None:
                continue
            # a plan held in a local of fi: the statements that make it empty / non-empty are remembered along the path
            pkey = None
            if plan.var is not None and plan.marks and all(g is fi for g, _, _ in plan.marks):
                pkey = f"<plan {plan.var}>"
                for _, st, val in plan.marks:
                    for m in cfg.nodes_for(st):
                        marks[m] = (pkey, val == "full")
            es = []
            for e in plan.empties:
                if any(self._implies_good(g, genv, ctx.cfg(g), a, p) for g, genv, a, p in e):
                    continue
                d = {pkey: False} if pkey is not None else {}
                for g, genv, a, p in e:
                    for a2, p2 in _derive(g, a, p):
                        kv = _stable_key(ctx, g, genv, a2, p2)
                        if kv is not None:
                            d[kv[0]] = kv[1]
                es.append(d)
            gates[n] = es
        return gates, marks

    def holds_for(self, s: _Site) -> bool:
        """holds_at for a site that may live in a helper: in the role function before the helper is entered, or inside the helper."""
        root = s.via[0][0] if s.via else s.fi
        if (self.holds_at(s.fi, s.call) if not s.via else self.holds_at(s.via[0][0], s.via[0][1]) or self.holds_at(s.fi, s.call, s.env)):
            return True
        # the guard may have moved to the callers: every call of the function is reached only past it (facts about the caller's
        # argument read as facts about the parameter it is bound to)
        sites = [(g, c) for _, g, c in _callers(self.ctx, root.name) if g is not None and g is not root and _method_target(self.ctx, g, c) is root]
        others = [c for _, g, c in _callers(self.ctx, root.name) if not any(c is c2 for _, c2 in sites)]
        handed = any(isinstance(x, ast.Attribute) and x.attr == root.name and isinstance(x.ctx, ast.Load)
                     and not (isinstance(parent_of(x), ast.Call) and parent_of(x).func is x)
                     for m_ in self.ctx.repo.modules.values() for x in ast.walk(m_.tree))
        if not sites or others or handed or root.name.startswith("__") or root.node.decorator_list:
            return False
        for g, c in sites:
            try:
                bound = _bind(self.ctx, g, c, root, None)
            except AnalysisError:
                return False
            rename = {v.id: ast.Name(id=p_, ctx=ast.Load()) for p_, v in bound.items() if isinstance(v, ast.Name) and p_ in root.params()}
            if not self.holds_at(g, c, rename or None):
                return False
        return True

    def holds_at(self, fi: FuncInfo, site: ast.AST, env=None) -> bool:
        self.undecided = []
        nodes = self.ctx.cfg(fi).nodes_for(site)
        cfg, seen, _ = self.reach(fi, env, skip=nodes)
        ok = bool(nodes) and not any(n in seen for n in nodes)
        if not ok and self.undecided:
            raise self.undecided[0]
        return ok

    def guarantees(self, fi: FuncInfo, env, pol, depth: int) -> bool:
        """Every normal exit of helper fi whose result may have truthiness pol (None: any) is covered.  pol == 'empty': fi is a
        generator; every way to finish without having yielded anything is covered."""
        if any(isinstance(t, ast.Try) and t.finalbody for t in walk_no_nested(fi.node)):
            raise AnalysisError(f"undecided: helper {fi.qualname} returns through a finally block")
        cfg, seen, is_cut = self.reach(fi, env, depth, no_yield=pol == "empty")
        for n in seen:
            for v, lab in n.succ:
                if v is cfg.exit and lab != "exc" and not is_cut(n, v, lab):
                    if pol == "empty":
                        return False
                    if isinstance(pol, _Test):
                        if pol.may_take(self.ctx, fi, n):
                            return False
                        continue
                    if pol is None or pol in _exit_truth(self.ctx, fi, n, seen):
                        # `return <test>`: the result has truthiness pol only if the test has, which may itself imply the good fact
                        if pol is not None and n.kind == "stmt" and isinstance(n.ast, ast.Return) and n.ast.value is not None \
                                and self._implies_good(fi, env, cfg, n.ast.value, pol):
                            continue
                        return False
        return True


def _keyerror_means_absent(h: ast.AST):
    """`<key> not in <table>` (a comparison node) when h is an `except KeyError` handler of a try whose body can raise KeyError only
    through one lookup `<table>[<key>]`; else None."""
    from ..cfg import call_may_raise
    tr = parent_of(h)
    if not (isinstance(h, ast.ExceptHandler) and isinstance(tr, ast.Try) and h.type is not None and chain(h.type) == "KeyError"):
        return None
    if any(g is not h and g.type is not None and chain(g.type) not in ("CryptoException", "ValueError", "TypeError", "AttributeError")
           for g in tr.handlers[:tr.handlers.index(h)]) or any(g.type is None for g in tr.handlers[:tr.handlers.index(h)]):
        return None
    lookups = []
    for st in tr.body:
        for n in ast.walk(st):
            if isinstance(n, ast.Subscript) and isinstance(n.ctx, ast.Load):
                lookups.append(n)
            elif isinstance(n, ast.Subscript) or (isinstance(n, ast.Call) and call_may_raise(n)) or \
                    isinstance(n, (ast.Await, ast.Yield, ast.YieldFrom, ast.Raise, ast.Delete, ast.FunctionDef, ast.AsyncFunctionDef, ast.Lambda, ast.ClassDef)):
                return None
    if len(lookups) != 1 or chain(lookups[0].value) is None or isinstance(lookups[0].slice, ast.Slice):
        return None
    return ast.Compare(left=clone(lookups[0].slice), ops=[ast.NotIn()], comparators=[clone(lookups[0].value)])


def _const_truth(v: ast.AST | None):
    if v is None:
        return {False}
    if isinstance(v, ast.Constant):
        return {bool(v.value)}
    return {True, False}


def _flags(ctx: Ctx, fi: FuncInfo) -> list[str]:
    """Locals that hold a constant on some path (`ok = True ... ok = False`, `route, why = None, 'refused'`): along a path their
    value is a constant, _NOTNONE, or unknown (_UNSET: after any other binding), so tests of them can often be decided."""
    memo = getattr(ctx, "_c04_flags", None)
    if memo is None:
        memo = ctx._c04_flags = {}  # type: ignore[attr-defined]
    if id(fi.node) in memo:
        return memo[id(fi.node)]
    names = []
    for n in walk_no_nested(fi.node):
        if isinstance(n, ast.Name) and isinstance(n.ctx, ast.Store) and n.id not in names:
            names.append(n.id)
    out = []
    cfg = ctx.cfg(fi)
    for nm in names:
        d = local_defs(fi, nm)
        if is_param(fi, nm) or not d:
            continue
        # every binding is a statement of its own in the CFG (a walrus inside a test is not) and no `a, *b = ...` hides an index
        if any(isinstance(st, (ast.If, ast.While)) or not cfg.nodes_for(st) or _starred_target(st) for st, _, _ in d):
            continue
        if any(_const_or_none(x)[0] for x in (_def_value(ctx, fi, v, idx) for _, v, idx in d) if x is not None):
            out.append(nm)
    memo[id(fi.node)] = out
    return out


def _starred_target(st: ast.AST) -> bool:
    return isinstance(st, ast.Assign) and any(isinstance(x, ast.Starred) for t in st.targets for x in ast.walk(t))


def _stable_key(ctx: Ctx, fi: FuncInfo, env, atom: ast.AST, truth: bool, stored=(), rebound: set | None = None):
    """(key, value) when `atom` having truthiness `truth` fixes the truthiness of a value that cannot change while fi runs: a
    local / parameter bound once or an attribute chain of one that fi does not store to (reads of routing objects and of the cell
    header are not interleaved with writes: fi is synchronous and the steps in between only replace cell.message).
    rebound (a set to fill): names that are bound more than once are accepted too and reported there - the caller forgets the
    key whenever one of their bindings runs."""
    f = fact_of(atom, truth)
    if f.op == "truthy":
        subj, val, none_test = f.left, f.pos, False
    elif f.op == "is" and isinstance(f.right, ast.Constant) and f.right.value is None:
        subj, val, none_test = f.left, not f.pos, True
    else:
        return None
    subj = strip_cast(subj)
    if not isinstance(subj, (ast.Name, ast.Attribute)):
        return None
    loose = {nm for nm in names_in(subj) if not _fixed_name(fi, nm)}
    if loose and (rebound is None or not all(_plain_bindings(ctx, fi, nm) for nm in loose)):
        return None
    x = _expand(ctx, fi, subj, env, at=atom)
    if chain(x) is None or not _is_pure_alias(x) or any(isinstance(n, ast.Attribute) and n.attr in stored for n in ast.walk(x)):
        return None
    if rebound is not None:
        more = {nm for nm in names_in(x) if not (env and nm in env) and (is_param(fi, nm) or local_defs(fi, nm)) and not _fixed_name(fi, nm)}
        if not all(_plain_bindings(ctx, fi, nm) for nm in more):
            return None
        rebound |= loose | more
    key = norm(x)
    if none_test and key not in OBJECT_OR_NONE:
        key += " is not None"
    return key, val


def _plain_bindings(ctx: Ctx, fi: FuncInfo, name: str) -> bool:
    """Every binding of the name is a statement (or loop head / handler entry) of its own in the CFG - not a walrus inside a test."""
    cfg = ctx.cfg(fi)
    return all(not isinstance(st, (ast.If, ast.While)) and bool(cfg.nodes_for(st)) for st, _, _ in local_defs(fi, name))


def _fixed_name(fi: FuncInfo, name: str) -> bool:
    """The name has one value during a call of fi: a parameter that is never re-bound, or a local bound by one plain assignment
    that is not inside a loop (a loop variable or an assignment in a loop body takes a new value per iteration)."""
    defs = [(st, v) for st, v, idx in local_defs(fi, name)
            if not (idx is None and v is not None and isinstance(strip_cast(v), ast.Name) and strip_cast(v).id == name)]
    if is_param(fi, name):
        return not defs
    if len(defs) != 1 or not isinstance(defs[0][0], (ast.Assign, ast.AnnAssign)):
        return False
    return not any(isinstance(a, (ast.For, ast.AsyncFor, ast.While)) for a in ancestors(defs[0][0]) if a is not fi.node)


def _stable_conds(ctx: Ctx, fi: FuncInfo, env, resets: dict | None = None) -> dict:
    """{cond node: (key, value on its True edge)} for the tests of fi that _stable_key understands.  resets (a dict to fill):
    {node: keys to forget when the node completes} - the bindings of names that are bound more than once."""
    cfg = ctx.cfg(fi)
    if any(isinstance(n, (ast.Await, ast.Yield, ast.YieldFrom)) for n in walk_no_nested(fi.node)):
        return {}
    stored = {n.attr for n in walk_no_nested(fi.node) if isinstance(n, ast.Attribute) and isinstance(n.ctx, (ast.Store, ast.Del))}
    out = {}
    for n in cfg.nodes:
        if n.kind == "cond":
            rebound = set() if resets is not None else None
            kv = _stable_key(ctx, fi, env, n.ast, True, stored, rebound)
            if kv is not None:
                out[n] = kv
                for nm in rebound or ():
                    for st, _, _ in local_defs(fi, nm):
                        for d in cfg.nodes_for(st):
                            resets.setdefault(d, set()).add(kv[0])
    return out


def _flag_reach(ctx: Ctx, fi: FuncInfo, starts=None, cut_edge=None, env=None, gates=None, marks=None) -> dict:
    """Forward reachability that remembers (a) the current value of every constant flag and (b) the outcome of every test of a
    value that cannot change during the call (_stable_key), and does not take a branch that contradicts what it remembers.
    gates: {loop node: [{key: value}]} - the loop can be left without an iteration only in a state compatible with one of the
    given assignments (which is then remembered); an empty list closes that edge.
    Returns {node: set of states}; `in` works as for a set of nodes.  starts: nodes, or (node, state) pairs."""
    cfg = ctx.cfg(fi)
    flags = _flags(ctx, fi)
    defnode: dict = {}
    for i, nm in enumerate(flags):
        for st, v, idx in local_defs(fi, nm):
            for n in cfg.nodes_for(st):
                defnode.setdefault(n, []).append((i, _abstract_value(ctx, fi, v, idx)))
    flagtest = {}                      # cond node -> (flag index, the test as a fact about the flag): `if ok`, `if tag == 'x'`, `if tag is None`
    for n in cfg.nodes:
        if n.kind == "cond" and flags:
            f = fact_of(n.ast, True)
            x = strip_cast(f.left)
            if isinstance(x, ast.Name) and x.id in flags and _satisfies(f, 0) is not None:
                flagtest[n] = (flags.index(x.id), f)
    resets: dict = {}
    conds = _stable_conds(ctx, fi, env, resets)
    count: dict = {}
    for k, _ in conds.values():
        count[k] = count.get(k, 0) + 1
    wanted = {k for k, c in count.items() if c > 1} | {k for es in (gates or {}).values() for e in es for k in e} | \
        {k for k, _ in (marks or {}).values()}
    keys = sorted(wanted)
    kidx = {k: len(flags) + i for i, k in enumerate(keys)}
    init = tuple(_UNSET for _ in range(len(flags) + len(keys)))
    todo = [x if isinstance(x, tuple) else (x, init) for x in ([cfg.entry] if starts is None else starts)]
    seen: dict = {}
    while todo:
        u, st = todo.pop()
        if len(st) != len(init):
            st = tuple(st[:len(flags)]) + init[len(flags):]
        if st in seen.setdefault(u, set()):
            continue
        seen[u].add(st)
        for v, lab in u.succ:
            if cut_edge is not None and cut_edge(u, v, lab):
                continue
            st2 = st
            if u in defnode and lab != "exc" and not (u.kind == "loop" and lab is False):
                for i, val in defnode[u]:
                    st2 = st2[:i] + (val,) + st2[i + 1:]
            if u in resets and lab != "exc" and not (u.kind == "loop" and lab is False):
                for k in resets[u]:
                    if k in kidx:
                        st2 = st2[:kidx[k]] + (_UNSET,) + st2[kidx[k] + 1:]
            if marks and u in marks and lab != "exc":      # marks: {node: (key, value)} - completing the node sets the key
                k, val = marks[u]
                st2 = st2[:kidx[k]] + (val,) + st2[kidx[k] + 1:]
            if u in flagtest and lab in (True, False):
                i, f = flagtest[u]
                if st[i] is not _UNSET and _satisfies(f, st[i]) is (not lab):
                    continue
            if u in conds and lab in (True, False) and conds[u][0] in kidx:
                k, on_true = conds[u]
                val = on_true if lab else not on_true
                if st2[kidx[k]] is not _UNSET and st2[kidx[k]] is not val:
                    continue
                st2 = st2[:kidx[k]] + (val,) + st2[kidx[k] + 1:]
            if gates and u in gates and lab is False:
                for e in gates[u]:
                    if all(st2[kidx[k]] is _UNSET or st2[kidx[k]] is val for k, val in e.items()):
                        st3 = list(st2)
                        for k, val in e.items():
                            st3[kidx[k]] = val
                        todo.append((v, tuple(st3)))
                continue
            todo.append((v, st2))
    return seen


def _proved_on_all_paths(ctx: Ctx, g: FuncInfo, env, at_nodes, key: str, value: bool) -> bool:
    """Every path of g from its entry to one of at_nodes that is consistent in the outcomes of its tests of unchanging values
    (_flag_reach) takes an edge on which the unchanging value `key` (_stable_key) has truthiness `value`."""
    at_nodes = list(at_nodes)
    if not at_nodes:
        return False
    resets: dict = {}
    conds = _stable_conds(ctx, g, env, resets)
    if not any(k == key for k, _ in conds.values()) or any(key in ks for ks in resets.values()):
        return False

    def cut(u, v, lab) -> bool:
        return u in conds and lab in (True, False) and conds[u][0] == key and (conds[u][1] if lab else not conds[u][1]) is value
    seen = _flag_reach(ctx, g, None, cut, env=env)
    return not any(n in seen for n in at_nodes)


def _exit_truth(ctx: Ctx, fi: FuncInfo, n, seen: dict | None = None) -> set:
    """Possible truthiness of the result when the function leaves through node n (seen: result of _flag_reach)."""
    if not (n.kind == "stmt" and isinstance(n.ast, ast.Return)):
        return {False}                       # falls off the end: None
    v = strip_cast(n.ast.value) if n.ast.value is not None else None
    if isinstance(v, ast.Name) and seen is not None and v.id in _flags(ctx, fi):
        i = _flags(ctx, fi).index(v.id)
        out = set()
        for st in seen.get(n, ()):
            out |= {True, False} if st[i] is _UNSET or st[i] is _NOTNONE else {bool(st[i])}
        return out
    return _const_truth(v)


def _is_crypto_node(ctx: Ctx, fi: FuncInfo, env, cfg, n) -> bool:
    """n evaluates an encrypt_cell / decrypt_cell step (called directly or through a callable picked at run time) on the cell."""
    memo = getattr(ctx, "_c04_crypto_nodes", None)
    if memo is None:
        memo = ctx._c04_crypto_nodes = {}  # type: ignore[attr-defined]
    key = (id(fi.node), tuple(sorted((k, norm(v)) for k, v in (env or {}).items())))
    if key not in memo:
        memo[key] = {m for c in calls(fi) if _is_crypto_call(ctx, fi, c) and _step_arg(ctx, c, 0, "cell") is not None
                     and norm(_expand(ctx, fi, _step_arg(ctx, c, 0, "cell"), env)) == "cell" for m in cfg.nodes_for(c)}
    return n in memo[key]


def _plaintext_edge(ctx: Ctx, fi: FuncInfo, env, n, lab) -> bool:
    f = fact_of(n.ast, lab)
    return f.op == "truthy" and f.pos and _xchain(ctx, fi, f.left, env) == "cell.plaintext"


def _never_falsy(v: ast.AST) -> bool:
    """A table value that is neither None nor falsy: a bound method / function reference, a lambda, a truthy constant."""
    v = strip_cast(v)
    return isinstance(v, (ast.Attribute, ast.Lambda)) or (isinstance(v, ast.Constant) and bool(v.value))


def _missing_dispatch_edge(ctx: Ctx, fi: FuncInfo, env, n, lab) -> bool:
    """Edge `x is None` / `not x` for `x = {FORWARD: ..., BACKWARD: ...}.get(<a relay direction>)`, or `<a relay direction> not in
    <table / display with FORWARD and BACKWARD>`: a relay direction is FORWARD or BACKWARD (construction sites checked in
    rule_duality), so the lookup finds an entry."""
    f = fact_of(n.ast, lab)
    if f.op == "in" and not f.pos:
        disp = _dict_display(fi, f.right, ctx)
        for v in (disp.values if disp is not None else ()):
            _op_alts(ctx, fi, v, n.ast)          # (references to the two methods in the table are read here: see _refs_understood)
        elts = list(disp.keys) if disp is not None else (_seq_display(fi, f.right, ctx) or _literal_elts(fi, f.right))
        return elts is not None and {"FORWARD", "BACKWARD"} <= {norm(_expand(ctx, fi, k, env)) for k in elts} \
            and (_xchain(ctx, fi, f.left, env, at=n.ast) or "").endswith(".direction")
    none = (f.op == "truthy" and not f.pos) or (f.op == "is" and f.pos and isinstance(f.right, ast.Constant) and f.right.value is None)
    if not none:
        return False
    v = strip_cast(f.left)
    if isinstance(v, ast.Name):
        d = single_def(fi, v.id) if _bindings(fi, v.id) == 1 else None
        v = strip_cast(d[0]) if d is not None and d[1] is None else None
    if not (isinstance(v, ast.Call) and isinstance(v.func, ast.Attribute) and v.func.attr == "get" and not v.keywords and
            (len(v.args) == 1 or (len(v.args) == 2 and isinstance(v.args[1], ast.Constant) and v.args[1].value is None))):
        return False
    disp = _dict_display(fi, v.func.value, ctx)
    if disp is None or not all(_never_falsy(x) for x in disp.values):
        return False
    _op_alts(ctx, fi, v, n.ast)                  # (references to the two methods in the table are read here: see _refs_understood)
    keys = {norm(_expand(ctx, fi, k, env)) for k in disp.keys}
    return {"FORWARD", "BACKWARD"} <= keys and (_xchain(ctx, fi, v.args[0], env, at=n.ast) or "").endswith(".direction")


def _not_plaintext_edge(ctx: Ctx, fi: FuncInfo, env, n, lab) -> bool:
    f = fact_of(n.ast, lab)
    return f.op == "truthy" and not f.pos and _xchain(ctx, fi, f.left, env) == "cell.plaintext"


def _whitelisted_edge(ctx: Ctx, fi: FuncInfo, env, n, lab) -> bool:
    """The edge establishes `cell.message[0] in NO_CRYPTO_PACKETS` (type byte read once into a local accepted)."""
    f = fact_of(n.ast, lab)
    if not (f.op == "in" and f.pos):
        return False
    left = f.left
    if isinstance(left, ast.Name) and _bindings(fi, left.id) == 1:
        left = resolve(fi, left)
    return norm(_expand(ctx, fi, left, env)) == "cell.message[0]" and _is_whitelist(ctx, fi, f.right, env)


def _is_whitelist(ctx: Ctx, fi: FuncInfo, e: ast.AST | None, env=None) -> bool:
    """e denotes the plaintext whitelist: NO_CRYPTO_PACKETS itself, a read-only shared constant derived from it
    (`frozenset(NO_CRYPTO_PACKETS)`), or a collection all of whose members are create / created message ids."""
    if e is None:
        return False
    x = _expand(ctx, fi, e, env)
    if chain(x) == "NO_CRYPTO_PACKETS":
        return True
    elts = _member_elts(ctx, [fi], x)
    if not elts:
        return False
    for el in elts:
        v = ctx.repo.resolve_const(fi.module, el)
        if norm(el) not in ("CreatePayload.msg_id", "CreatedPayload.msg_id") and not (isinstance(v, int) and not isinstance(v, bool) and v in (2, 3)):
            return False
    return True


EXPECTED = {
    "outgoing_crypto": {
        ("encrypt_cell", "FORWARD if circuit.ctype == CIRCUIT_TYPE_RP_SEEDER else BACKWARD", "Hop(circuit.hop.peer, circuit.hs_session_keys)"):
            ({"circuit", "circuit.hs_session_keys"}, set()),
        ("encrypt_cell", "FORWARD", "*circuit.hops"): ({"circuit"}, set()),
        ("encrypt_cell", "BACKWARD", "exit_socket.hop"): ({"exit_socket"}, {"circuit"}),
        ("encrypt_cell", "BACKWARD", "relay.hop"): ({"relay", "relay.rendezvous_relay"}, {"circuit", "exit_socket"}),
        ("encrypt_cell", "other.direction", "other.hop"): ({"relay"}, {"circuit", "exit_socket", "relay.rendezvous_relay"}),
    },
    "incoming_crypto": {
        ("decrypt_cell", "FORWARD", "exit_socket.hop"): ({"exit_socket"}, set()),
        ("decrypt_cell", "BACKWARD", "*circuit.hops"): ({"circuit"}, {"exit_socket"}),
        ("decrypt_cell", "FORWARD if circuit.ctype == CIRCUIT_TYPE_RP_DOWNLOADER else BACKWARD", "Hop(circuit.hop.peer, circuit.hs_session_keys)"):
            ({"circuit", "circuit.hs_session_keys"}, {"exit_socket"}),
    },
    "relay_cell": {
        ("decrypt_cell", "FORWARD", "next_relay.hop"): ({"next_relay.rendezvous_relay"}, set()),
        ("encrypt_cell", "BACKWARD", "this_relay.hop"): ({"next_relay.rendezvous_relay"}, set()),
        ("decrypt_cell", "next_relay.direction", "next_relay.hop"): (set(), {"next_relay.rendezvous_relay"}),
        ("encrypt_cell", "next_relay.direction", "next_relay.hop"): (set(), {"next_relay.rendezvous_relay"}),
    },
}


# values that are either None or an object without __bool__/__len__ (results of table .get(), the e2e key record): for these
# `x is not None` and `x` are the same test; NOT for the boolean rendezvous flag
OBJECT_OR_NONE = {"circuit", "exit_socket", "relay", "circuit.hs_session_keys"}


def _eq_text(f: Fact):
    a, b = norm(f.left), norm(f.right)
    return (b, a) if _is_const_name(a) and not _is_const_name(b) else (a, b)


def _role_sets(facts):
    """(+roles, -roles, equalities) of expanded facts; `x is not None` counts as x present (table objects are never falsy)."""
    pos, neg, eq = set(), set(), set()
    for f in facts:
        l = chain(f.left)
        if f.op == "truthy" and l:
            (pos if f.pos else neg).add(l)
        elif f.op == "is" and l in OBJECT_OR_NONE and isinstance(f.right, ast.Constant) and f.right.value is None:
            (neg if f.pos else pos).add(l)
        elif f.op == "eq" and f.pos:
            a, b = norm(f.left), norm(f.right)
            eq.add((b, a) if _is_const_name(a) and not _is_const_name(b) else (a, b))
    return pos, neg, eq


def _rep_nodes(ctx: Ctx, s: _Site, k: int):
    """CFG nodes that stand for site s in the k-th function of its call chain (the helper call leading to it, or the site itself)."""
    if len(s.via) > k:
        g, c = s.via[k]
    else:
        g, c = s.fi, s.call
    return g, ctx.cfg(g).nodes_for(c)


def _after(cfg, first_nodes, then_nodes) -> bool:
    """then_nodes run only after first_nodes completed normally, never the other way round."""
    r1 = cfg.reach([v for e in first_nodes for v, lab in e.succ if lab != "exc"])
    r2 = cfg.reach([v for h in then_nodes for v, lab in h.succ if lab != "exc"])
    return bool(first_nodes) and bool(then_nodes) and all(h in r1 for h in then_nodes) and not any(e in r2 for e in first_nodes)


def _index_walk(fi: FuncInfo, loop: ast.For, base: str | None):
    """(order, element locals) for `for i in range(...): hop = <base>[f(i)]`: 'forward' / 'reversed' when the indices visit every
    element of the sequence once in that order (decided on exact polynomials in i and len(base)), else None."""
    from ..poly import Poly, eval_expr
    it = strip_cast(loop.iter)
    if base is None or not (isinstance(it, ast.Call) and chain(it.func) == "range" and 1 <= len(it.args) <= 3 and not it.keywords) \
            or not isinstance(loop.target, ast.Name) or _bindings(fi, base) != 1:
        return None
    ivar = loop.target.id

    def sym(e):
        e = strip_cast(e)
        if isinstance(e, ast.Call) and chain(e.func) == "len" and len(e.args) == 1 and chain(e.args[0]) == base:
            return "N"
        return None

    def poly(e):
        e = strip_cast(e)
        if isinstance(e, ast.UnaryOp) and isinstance(e.op, ast.Invert):
            return -poly(e.operand) - Poly.const(1)
        if isinstance(e, ast.Name) and e.id != ivar and _bindings(fi, e.id) == 1 and single_def(fi, e.id) is not None \
                and single_def(fi, e.id)[1] is None:
            return poly(single_def(fi, e.id)[0])
        if isinstance(e, ast.BinOp) and isinstance(e.op, (ast.Add, ast.Sub, ast.Mult)):
            l, r = poly(e.left), poly(e.right)
            return l + r if isinstance(e.op, ast.Add) else l - r if isinstance(e.op, ast.Sub) else l * r
        if isinstance(e, ast.UnaryOp) and isinstance(e.op, ast.USub):
            return -poly(e.operand)
        return eval_expr(e, {ivar: Poly.var("i")}, sym)

    try:
        a = [poly(x) for x in it.args]
        start, stop, step = (Poly.const(0), a[0], Poly.const(1)) if len(a) == 1 else (a[0], a[1], Poly.const(1)) if len(a) == 2 else a
        idx, elems = None, set()
        for n in ast.walk(loop):
            if isinstance(n, ast.Subscript) and chain(n.value) == base and isinstance(n.ctx, ast.Load) and ivar in names_in(n.slice):
                q = poly(n.slice)
                if not any("N" in k for k in q.t) and q.subst({"i": Poly.const(0)}).t.get((), 0) < 0:
                    q = q + Poly.var("N")                      # negative indices count from the end
                if idx is not None and q != idx:
                    return None
                idx = q
                st = enclosing_stmt(n)
                if isinstance(st, ast.Assign) and st.value is n and len(st.targets) == 1 and isinstance(st.targets[0], ast.Name) \
                        and _bindings(fi, st.targets[0].id) == 1:
                    elems.add(st.targets[0].id)
    except AnalysisError:
        return None
    if idx is None:
        return None
    n_, i_, one = Poly.var("N"), Poly.var("i"), Poly.const(1)
    up = start == Poly.const(0) and stop == n_ and step == one
    down = start == n_ - one and stop == Poly.const(-1) and step == Poly.const(-1)
    if not (up or down):
        return None
    if idx == i_:
        return ("forward" if up else "reversed"), elems
    if idx == n_ - one - i_:
        return ("reversed" if up else "forward"), elems
    return None


def _while_walk(ctx: Ctx, fi: FuncInfo, loop: ast.While, base: str | None):
    """(order, element locals) for a hand-written index walk `i = <start>` ... `while i <cmp> <bound>: ... <base>[f(i)] ... i += 1`
    (the update anywhere in the body, the reads before or after it): 'forward' / 'reversed' when the loop runs len(base) times and
    the reads visit every element once in that order - decided on exact polynomials in the iteration number and len(base)."""
    from ..poly import Poly, eval_expr
    if base is None or _bindings(fi, base) != 1:
        return None
    t, neg = strip_cast(loop.test), False
    while isinstance(t, ast.UnaryOp) and isinstance(t.op, ast.Not):
        t, neg = strip_cast(t.operand), not neg
    if not (isinstance(t, ast.Compare) and len(t.ops) == 1):
        return None
    in_loop = lambda nm: [d for d in local_defs(fi, nm) if ancestors_include(d[0], loop)]  # noqa: E731
    l, r, op = strip_cast(t.left), strip_cast(t.comparators[0]), type(t.ops[0])
    swap = {ast.Lt: ast.Gt, ast.Gt: ast.Lt, ast.LtE: ast.GtE, ast.GtE: ast.LtE, ast.NotEq: ast.NotEq}
    inv = {ast.Lt: ast.GtE, ast.Gt: ast.LtE, ast.LtE: ast.Gt, ast.GtE: ast.Lt}
    if op not in swap:
        return None
    if isinstance(l, ast.Name) and in_loop(l.id):
        ivar, bound = l.id, r
    elif isinstance(r, ast.Name) and in_loop(r.id):
        ivar, bound, op = r.id, l, swap[op]
    else:
        return None
    if neg:
        if op not in inv:
            return None
        op = inv[op]
    defs = local_defs(fi, ivar)
    inner, outer = in_loop(ivar), [d for d in defs if not ancestors_include(d[0], loop)]
    if is_param(fi, ivar) or len(inner) != 1 or len(outer) != 1 or outer[0][1] is None or outer[0][2] is not None:
        return None
    upd = inner[0][0]
    for a in ancestors(upd):
        if a is loop:
            break
        if isinstance(a, (ast.For, ast.AsyncFor, ast.While)):
            return None                                          # updated in a nested loop: not once per iteration

    def sym(e):
        e = strip_cast(e)
        if isinstance(e, ast.Call) and chain(e.func) == "len" and len(e.args) == 1 and not e.keywords and chain(e.args[0]) == base:
            return "N"
        return None

    def poly(e, cur):
        e = strip_cast(e)
        if isinstance(e, ast.UnaryOp) and isinstance(e.op, ast.Invert):
            return -poly(e.operand, cur) - Poly.const(1)
        if isinstance(e, ast.Name) and e.id != ivar and not is_param(fi, e.id) and _bindings(fi, e.id) == 1 and single_def(fi, e.id) is not None \
                and single_def(fi, e.id)[1] is None and ivar not in names_in(single_def(fi, e.id)[0]):
            return poly(single_def(fi, e.id)[0], cur)
        if isinstance(e, ast.BinOp) and isinstance(e.op, (ast.Add, ast.Sub, ast.Mult)):
            a, b = poly(e.left, cur), poly(e.right, cur)
            return a + b if isinstance(e.op, ast.Add) else a - b if isinstance(e.op, ast.Sub) else a * b
        if isinstance(e, ast.UnaryOp) and isinstance(e.op, ast.USub):
            return -poly(e.operand, cur)
        return eval_expr(e, {ivar: cur}, sym)

    cfg = ctx.cfg(fi)
    head = [n for n in cfg.by_ast.get(id(loop), []) if n.kind == "loop"]
    un = cfg.nodes_for(upd)
    tests = [n for n in cfg.nodes_for(t) if n.kind == "cond"]
    if len(head) != 1 or len(un) != 1 or len(tests) != 1:
        return None
    try:
        i0 = Poly.var("i")
        if isinstance(upd, ast.AugAssign) and isinstance(upd.op, (ast.Add, ast.Sub)):
            d = poly(upd.value, i0)
            step = d if isinstance(upd.op, ast.Add) else -d
        elif isinstance(upd, (ast.Assign, ast.AnnAssign)) and inner[0][1] is not None and inner[0][2] is None:
            step = poly(inner[0][1], i0) - i0
        else:
            return None
        if step not in (Poly.const(1), Poly.const(-1)):
            return None
        up = step == Poly.const(1)
        start, stop = poly(outer[0][1], i0), poly(bound, i0)
        if "i" in {x for k in [*start.t, *stop.t] for x in k}:
            return None
        # the test as the exclusive end of the values i takes at the loop head
        if op is ast.NotEq or (op is ast.Lt and up) or (op is ast.Gt and not up):
            pass
        elif op is ast.LtE and up:
            stop = stop + Poly.const(1)
        elif op is ast.GtE and not up:
            stop = stop - Poly.const(1)
        else:
            return None
        count = stop - start if up else start - stop
        if count != Poly.var("N"):
            return None                                          # (also makes `!=` safe: the end is hit exactly after len(base) steps)
        # the initial value reaches the loop, the update runs exactly once in every iteration that comes back to the head
        if not cfg.must_complete(head[0], cfg.nodes_for(outer[0][0])):
            return None
        body = [v for v, lab in tests[0].succ if lab is (not neg)]
        if head[0] in cfg.reach(body, cut_nodes=un):
            return None
        k = Poly.var("k")
        at_head = start + (k if up else -k)
        idx, elems = None, set()
        for n in ast.walk(loop):
            if isinstance(n, ast.Subscript) and chain(n.value) == base and isinstance(n.ctx, ast.Load) and ivar in names_in(n.slice):
                rn = cfg.nodes_for(n)
                before = any(x in cfg.reach(body, cut_nodes=un) for x in rn) or any(x in un for x in rn)
                after = any(x in cfg.reach([v for v, lab in un[0].succ if lab != "exc"], cut_nodes=head) for x in rn)
                if before == after or not rn:
                    return None
                q = poly(n.slice, at_head if before else at_head + step)
                if not any("N" in m for m in q.t) and q.subst({"k": Poly.const(0)}).t.get((), 0) < 0:
                    q = q + Poly.var("N")                          # negative indices count from the end
                if idx is not None and q != idx:
                    return None
                idx = q
                st = enclosing_stmt(n)
                if isinstance(st, ast.Assign) and st.value is n and len(st.targets) == 1 and isinstance(st.targets[0], ast.Name) \
                        and _bindings(fi, st.targets[0].id) == 1:
                    elems.add(st.targets[0].id)
    except AnalysisError:
        return None
    if idx is None:
        return None
    if idx == k:
        return "forward", elems, ivar
    if idx == Poly.var("N") - Poly.const(1) - k:
        return "reversed", elems, ivar
    return None


def _iter_order(fi: FuncInfo, it: ast.AST, base: str | None, depth: int = 5) -> str | None:
    """'forward' / 'reversed': order in which iterating `it` visits the elements of sequence `base` (every element once);
    None when the expression is not understood."""
    flip = {"forward": "reversed", "reversed": "forward", None: None}
    it = strip_cast(it)
    if depth <= 0 or base is None:
        return None
    if isinstance(it, ast.Name):
        if it.id == base:
            return "forward" if _bindings(fi, base) == 1 else None
        d = single_def(fi, it.id)
        if d is not None and d[1] is None and _bindings(fi, it.id) == 1:
            return _iter_order(fi, d[0], base, depth - 1)
        return None
    if isinstance(it, ast.Call) and isinstance(it.func, ast.Name) and it.args and not isinstance(it.args[0], ast.Starred):
        if it.func.id == "enumerate" and len(it.args) <= 2 and all(k.arg == "start" for k in it.keywords):
            return _iter_order(fi, it.args[0], base, depth - 1)
        if it.func.id in ("list", "tuple", "iter") and len(it.args) == 1 and not it.keywords:
            return _iter_order(fi, it.args[0], base, depth - 1)
        if it.func.id == "reversed" and len(it.args) == 1 and not it.keywords:
            return flip[_iter_order(fi, it.args[0], base, depth - 1)]
        if it.func.id == "zip" and not any(isinstance(a, ast.Starred) for a in it.args):
            # zip(<counter>, <the hops in some order>): the other iterables only number the layers (the shortest one ends the walk:
            # they must be unbounded or exactly as long as the hops)
            def counter(a) -> bool | None:
                """True: an unbounded / exactly long enough counter; False: a counter that may end the walk early; None: no counter."""
                a = strip_cast(a)
                if isinstance(a, ast.Name) and a.id != base and _bindings(fi, a.id) == 1:
                    a = strip_cast(resolve(fi, a))
                if not (isinstance(a, ast.Call) and chain(a.func) in ("count", "itertools.count", "range")):
                    return None
                if chain(a.func) != "range":
                    return True
                if a.keywords or not 1 <= len(a.args) <= 2:
                    return False
                start = strip_cast(a.args[0]) if len(a.args) == 2 else ast.Constant(value=0)
                stop = strip_cast(a.args[-1])
                if isinstance(stop, ast.Name) and _bindings(fi, stop.id) == 1:
                    stop = strip_cast(resolve(fi, stop))
                n_ = f"len({base})"
                if not (isinstance(start, ast.Constant) and isinstance(start.value, int)):
                    return False
                if start.value == 0:
                    return norm(stop) == n_
                return isinstance(stop, ast.BinOp) and isinstance(stop.op, ast.Add) and \
                    {norm(_resolved(fi, stop.left)), norm(_resolved(fi, stop.right))} == {n_, str(start.value)}
            kinds = [counter(a) for a in it.args]
            mine = [a for a, k in zip(it.args, kinds) if k is None]
            if len(mine) == 1 and all(k is not False for k in kinds) and all(k.arg == "strict" for k in it.keywords):
                return _iter_order(fi, mine[0], base, depth - 1)
        return None
    if isinstance(it, ast.Subscript) and isinstance(it.slice, ast.Slice) and it.slice.lower is None and it.slice.upper is None:
        step = it.slice.step
        if isinstance(step, ast.UnaryOp) and isinstance(step.op, ast.USub) and isinstance(step.operand, ast.Constant):
            step = ast.Constant(value=-step.operand.value)
        inner = _iter_order(fi, it.value, base, depth - 1)
        if step is None or (isinstance(step, ast.Constant) and step.value == 1):
            return inner
        if isinstance(step, ast.Constant) and step.value == -1:
            return flip[inner]
    return None


def _contradictory(facts) -> bool:
    """The (expanded) facts test a constant against its own value: `if sending:` in a helper called with sending=False."""
    for f in facts:
        l = strip_cast(f.left)
        if f.op == "truthy" and isinstance(l, ast.Constant) and bool(l.value) is not f.pos:
            return True
        r = strip_cast(f.right) if f.right is not None else None
        if f.op in ("eq", "is") and isinstance(l, ast.Constant) and isinstance(r, ast.Constant) and (l.value == r.value) is not f.pos:
            return True
    return False


def _layer_loop_owner(ctx: Ctx, fi: FuncInfo, name: str, prim: str, depth: int = 2):
    """(function, cell name, direction name, hops name) of the function that holds the hop loop of encrypt_cell / decrypt_cell: the
    method itself, or - when the method became a thin delegation - the NEW function (same file, another module, a base class) it hands
    its own (cell, direction, hops) to.  The delegation is checked here: every way through the method that is not taken for a cell
    carrying the plaintext flag completes the call, and nothing around the call catches what it raises."""
    cell_n, dir_n = fi.params()[1], fi.params()[2]
    hops_n = fi.node.args.vararg.arg if fi.node.args.vararg else (fi.params()[3] if len(fi.params()) == 4 else None)
    while depth > 0:
        depth -= 1
        if any((_method_call(ctx, fi, c) or (None, None))[1] == prim for c in calls(fi)):
            break
        cands = [(c, t) for c in calls(fi) for t in [_new_helper(ctx, fi, c)] if t is not None and t is not fi]
        if len(cands) != 1 or hops_n is None:
            break
        c, t = cands[0]
        a = t.node.args
        if a.kwarg or a.kwonlyargs or any(k.arg is None for k in c.keywords):
            break
        params = _positional_params(t)
        got = {}
        for i, x in enumerate(c.args):
            if isinstance(x, ast.Starred):
                if a.vararg is None or i != len(params) or i != len(c.args) - 1:
                    got = None
                    break
                got[a.vararg.arg] = x.value
            elif i < len(params):
                got[params[i]] = x
            else:
                got = None
                break
        if got is None:
            break
        for k in c.keywords:
            got[k.arg] = k.value
        back = {}
        for p_, x in got.items():
            nm = _still_param(ctx, fi, x, c)
            if nm is not None:
                back[nm] = p_
        if not {cell_n, dir_n, hops_n} <= set(back):
            break
        if any(isinstance(y, ast.Try) and y.handlers for y in ancestors(c) if ancestors_include(y, fi.node)):
            raise AnalysisError(f"undecided: {fi.qualname} delegates its hop loop inside a try statement")
        cfg = ctx.cfg(fi)
        cn = cfg.nodes_for(c)
        envc = None if cell_n == "cell" else {cell_n: ast.Name(id="cell", ctx=ast.Load())}
        r = cfg.reach(cut_out_normal=cn, cut_edge=lambda u, v, lab: u.kind == "cond" and lab in (True, False) and _plaintext_edge(ctx, fi, envc, u, lab))
        rule = "drop-on-failure" if name == "decrypt_cell" else "crypto-before-send"
        ctx.check(cfg.exit not in r, rule, fi, c, f"{name}: every non-plaintext cell goes through {t.name}",
                  f"{fi.qualname} can return without having handed the cell to {t.name} although the cell does not carry the plaintext flag: "
                  "its layers are not " + ("removed and authenticated, yet the cell is accepted" if name == "decrypt_cell" else "added, yet the cell is sent"))
        fi, cell_n, dir_n, hops_n = t, back[cell_n], back[dir_n], back[hops_n]
    return fi, cell_n, dir_n, hops_n


def rule_duality(ctx: Ctx) -> None:
    _CURRENT[0] = ctx
    repo = ctx.repo
    covered = set()
    units = {fname: _unit(ctx, repo.method("PythonCryptoEndpoint", fname, CR)) for fname in EXPECTED}
    members = [g for u in units.values() for g in u]           # a helper may serve several role functions: each analyses it under its own arguments
    for fname, table in EXPECTED.items():
        fi = repo.method("PythonCryptoEndpoint", fname, CR)
        cfg = ctx.cfg(fi)
        unit = units[fname]
        covered.update(g.node for g in unit)
        for g in unit[1:]:
            outside = sorted({(c_fi.qualname if c_fi is not None else m.relpath) for m, c_fi, c in _callers(ctx, g.name)
                              if c_fi is None or c_fi not in members})
            ctx.check(not outside, "direction-duality", g, g.node, f"{fname}: helper {g.name} is called from the role functions only",
                      f"{g.qualname} performs crypto steps of {fname} but is also called from {outside}: these steps run under a role "
                      "the protocol table does not cover")
        found = {}
        for s in _crypto_sites(ctx, fi):
            if _contradictory(s.facts):
                continue                    # a branch of a shared helper that the constant arguments of this role function rule out
            c = s.call
            op = s.op or call_name(c)
            d = _site_dir(ctx, s)
            hops = _site_hops(ctx, s)
            pos, neg, eq = _role_sets(s.facts)
            key = (op, d, hops)
            found.setdefault(key, s)
            exp = table.get(key)
            if not (exp is not None and exp[0] <= pos and exp[1] <= neg) and d in ("FORWARD", "BACKWARD"):
                # a constant written where the reviewed code passes `<route>.direction`, under a test that pins that direction to
                # the constant: the same step
                flip = "BACKWARD" if d == "FORWARD" else "FORWARD"
                for (o2, d2, h2), exp2 in table.items():
                    if o2 == op and h2 == hops and d2.endswith(".direction") and \
                            ((d2, d) in eq or any(f.op == "eq" and not f.pos and _eq_text(f) == (d2, flip) for f in s.facts)):
                        key, d, exp = (o2, d2, h2), d2, exp2
                        found.setdefault(key, s)
            if exp is not None and not (exp[0] <= pos and exp[1] <= neg):
                # a role fact that no single dominating test states (`elif relay and relay.rendezvous_relay: ... elif relay: <here>`):
                # it holds here when every path that is consistent in its tests of unchanging values establishes it on the way
                places = [(s.fi, s.env, s.call)]
                if s.elem is not None:
                    places.append((s.elem.fi, s.elem.env, s.elem.node))
                if s.via:
                    places.append((s.via[0][0], None, s.via[0][1]))
                for want, have, val in ((exp[0], pos, True), (exp[1], neg, False)):
                    for k in sorted(want - have):
                        if any(_proved_on_all_paths(ctx, g, genv, ctx.cfg(g).nodes_for(a), k, val) for g, genv, a in places):
                            have.add(k)
            ok = exp is not None and exp[0] <= pos and exp[1] <= neg and _site_cell(ctx, s) == "cell"
            if fname == "relay_cell" and d == "next_relay.direction" and ok:
                # the direction of a relay route is FORWARD or BACKWARD (construction sites checked below): `!= one` is `== other`
                want, other = ("FORWARD", "BACKWARD") if op == "decrypt_cell" else ("BACKWARD", "FORWARD")
                ok = ("next_relay.direction", want) in eq or \
                    any(f.op == "eq" and not f.pos and _eq_text(f) == ("next_relay.direction", other) for f in s.facts)
            ctx.check(ok, "direction-duality", s.fi, c, f"{fname}: {op}(dir={d}, hops={hops}) under role +{sorted(pos)} -{sorted(neg)}",
                      f"{fname}: crypto step {op}(direction={d}, hops={hops}) under role +{sorted(pos)} -{sorted(neg)} is not a row of the "
                      "onion protocol table (wrong operation, direction, key set or role)")
        for key in table:
            ctx.check(key in found, "direction-duality", fi, fi.node, f"{fname}: protocol row {key} present",
                      f"{fname}: the protocol step {key} is missing: a layer is no longer added/removed for that role")
        # ordering of the e2e layer relative to the hop layers
        if fname in ("outgoing_crypto", "incoming_crypto"):
            e2e = [x for k, x in found.items() if k[2].startswith("Hop(")]
            hopl = [x for k, x in found.items() if k[2] == "*circuit.hops"]
            if e2e and hopl and e2e[0].plan is not None and e2e[0].plan is hopl[0].plan:
                # both layers are elements of one plan that a single loop applies in order
                a, b, plan = e2e[0].elem, hopl[0].elem, e2e[0].plan
                if not plan.ordered or a.fi is not b.fi:
                    raise AnalysisError(f"undecided: order of the elements of the layer plan of {fname}")
                if a.node is b.node:
                    first = a.index < b.index
                    strict = a.index != b.index
                else:
                    pcfg = ctx.cfg(a.fi)
                    first = _after(pcfg, pcfg.nodes_for(a.node), pcfg.nodes_for(b.node))
                    strict = first or _after(pcfg, pcfg.nodes_for(b.node), pcfg.nodes_for(a.node))
                e2e_first = first != plan.flipped
                what = "sending: e2e layer applied before (inside) the hop layers" if fname == "outgoing_crypto" else \
                    "receiving: hop layers removed before the e2e layer"
                ctx.check(strict and e2e_first == (fname == "outgoing_crypto"), "direction-duality", e2e[0].fi, e2e[0].call, what,
                          f"{fname}: order of the end-to-end layer and the hop layers is wrong ({what})")
            elif e2e and hopl:
                k = 0
                while k < len(e2e[0].via) and k < len(hopl[0].via) and e2e[0].via[k][1] is hopl[0].via[k][1]:
                    k += 1
                g, n_e2e = _rep_nodes(ctx, e2e[0], k)
                g2, n_hop = _rep_nodes(ctx, hopl[0], k)
                gcfg = ctx.cfg(g)
                if fname == "outgoing_crypto":
                    ok = g is g2 and _after(gcfg, n_e2e, n_hop)
                    what = "sending: e2e layer applied before (inside) the hop layers"
                else:
                    ok = g is g2 and _after(gcfg, n_hop, n_e2e)
                    what = "receiving: hop layers removed before the e2e layer"
                ctx.check(ok, "direction-duality", e2e[0].fi, e2e[0].call, what,
                          f"{fname}: order of the end-to-end layer and the hop layers is wrong ({what})")
    # every encrypt_cell / decrypt_cell call of the repository is one of the table-checked sites
    for op in ("encrypt_cell", "decrypt_cell"):
        for m, c_fi, c in _callers(ctx, op):
            ctx.check(c_fi is not None and c_fi.node in covered, "direction-duality", c_fi or m.relpath, c,
                      f"{op} called inside outgoing_crypto / incoming_crypto / relay_cell (or a helper of theirs)",
                      f"{op} is called outside outgoing_crypto / incoming_crypto / relay_cell: a layer is added or removed at a place "
                      "the protocol table does not describe")
    # ... and every other mention of the two methods (a dispatch table entry, a conditional callable) was understood as one
    for m in repo.modules.values():
        for node in ast.walk(m.tree):
            if isinstance(node, ast.Attribute) and node.attr in OPS and isinstance(node.ctx, ast.Load) \
                    and not (isinstance(parent_of(node), ast.Call) and parent_of(node).func is node):
                c_fi = repo.function_of(node)
                inside = c_fi is not None and c_fi.node in covered
                ctx.check(inside, "direction-duality", c_fi or m.relpath, node, f"{node.attr} referenced inside the role functions",
                          f"{node.attr} is handed around outside outgoing_crypto / incoming_crypto / relay_cell: a layer can be added or removed at a "
                          "place the protocol table does not describe")
                if inside:
                    ctx._c04_refs = [*getattr(ctx, "_c04_refs", []), (c_fi, node)]  # type: ignore[attr-defined]  (see _refs_understood)
            elif isinstance(node, ast.Constant) and isinstance(node.value, str) and node.value in OPS:
                # the method named by a string (for getattr): inside the role functions or in a shared table they read
                c_fi = repo.function_of(node)
                ctx.check(c_fi is None or c_fi.node in covered, "direction-duality", c_fi or m.relpath, node, f"'{node.value}' named inside the role functions",
                          f"the method name '{node.value}' is used outside outgoing_crypto / incoming_crypto / relay_cell: a layer can be added or "
                          "removed at a place the protocol table does not describe")
                ctx._c04_refs = [*getattr(ctx, "_c04_refs", []), (c_fi, node)]  # type: ignore[attr-defined]
    # direction values of relay routes are FORWARD/BACKWARD constants at every construction site
    n = 0
    for m, fi, c in _callers(ctx, "RelayRoute"):
        if fi is None:
            continue
        n += 1
        d = arg(c, 2, "direction")
        ctx.check(d is not None and _xchain(ctx, fi, d, at=c) in ("FORWARD", "BACKWARD"), "direction-duality", fi, c,
                  f"RelayRoute constructed with direction {norm(d) if d is not None else None}",
                  "a relay route is constructed with a direction that is not FORWARD/BACKWARD")
    ctx.floor("direction-duality.relayroute", n, 4)
    # on_created: backward route points to the requester, forward route to the new hop, both with the hop's session keys
    oc = repo.method("TunnelCommunity", "on_created", TC)
    rr = _sites(ctx, oc, _callee(ctx, "RelayRoute"), _new_helper)
    pairs = {_xchain(ctx, s.fi, arg(s.call, 2, "direction"), s.env, at=s.call): _request_field(ctx, oc, s, arg(s.call, 0, "circuit_id")) for s in rr}
    ctx.check(pairs == {"BACKWARD": "request.from_circuit_id", "FORWARD": "request.to_circuit_id"}, "direction-duality", oc, oc.node,
              "on_created builds BACKWARD route -> from_circuit and FORWARD route -> to_circuit",
              f"relay routes built in on_created have the wrong direction/circuit pairing: {pairs}")
    # FORWARD != BACKWARD
    t = repo.module("ipv8/messaging/anonymization/tunnel.py")
    f_, b_ = repo.resolve_const(t, t.constants["FORWARD"]), repo.resolve_const(t, t.constants["BACKWARD"])
    ctx.check(f_ != b_, "direction-duality", t.relpath, "FORWARD/BACKWARD", "direction constants differ", "FORWARD == BACKWARD")

    # encrypt_cell / decrypt_cell loop shape
    for name, prim, order in (("encrypt_cell", "encrypt_str", "reversed"), ("decrypt_cell", "decrypt_str", "forward")):
        fi0 = repo.method("PythonCryptoEndpoint", name, CR)
        if len(fi0.params()) < 3:
            raise AnalysisError(f"anchor-lost: parameters (cell, direction, hops) of {name}")
        fi, cell_n, dir_n, hops_param = _layer_loop_owner(ctx, fi0, name, prim)
        env_c = None if cell_n == "cell" else {cell_n: ast.Name(id="cell", ctx=ast.Load())}
        cfg = ctx.cfg(fi)
        mcalls = {id(c): _method_call(ctx, fi, c) for c in calls(fi)}       # however the method call is spelled (getattr, methodcaller, ...)
        prims = [c for c in calls(fi) if mcalls[id(c)] is not None and mcalls[id(c)][1] == prim]
        all_loops = [l for l in walk_no_nested(fi.node) if isinstance(l, (ast.For, ast.While))]
        # the hop loop: the innermost loop around the primitive (a `for` over the hops, or a `while` that walks them by index)
        loops = [l for l in all_loops if any(ancestors_include(c, l) for c in prims)
                 and not any(l2 is not l and ancestors_include(l2, l) and any(ancestors_include(c, l2) for c in prims) for l2 in all_loops)]
        loops = loops or [l for l in all_loops if isinstance(l, ast.For)]
        ctx.anchor(loops, f"hop loop in {name}")
        lp = loops[0]
        elem_vars, ivar = set(), None
        loop_heads = [n for n in cfg.by_ast.get(id(lp), []) if n.kind == "loop"]
        if isinstance(lp, ast.While):
            ww = _while_walk(ctx, fi, lp, hops_param)
            if ww is None:
                raise AnalysisError(f"undecided: order in which {name} walks the hops (`while {norm(lp.test)}`)")
            got, elem_vars, ivar = ww
            loop_vars = set(elem_vars)
            wt, wneg = strip_cast(lp.test), False
            while isinstance(wt, ast.UnaryOp) and isinstance(wt.op, ast.Not):
                wt, wneg = strip_cast(wt.operand), not wneg
            body_starts = [v for n in cfg.nodes_for(wt) if n.kind == "cond" for v, lab in n.succ if lab is (not wneg)]
        else:
            got = _iter_order(fi, lp.iter, hops_param)
            if got is None:
                iw = _index_walk(fi, lp, hops_param)
                if iw is not None:
                    got, elem_vars = iw
                    ivar = lp.target.id
            if got is None:
                raise AnalysisError(f"undecided: order in which {name} walks the hops (`{norm(lp.iter)}`)")
            loop_vars = (names_in(lp.target) - {lp.target.id} if ivar is not None and isinstance(lp.target, ast.Name) else names_in(lp.target)) | elem_vars
            body_starts = [v for head_ in loop_heads for v, lab in head_.succ if lab is True]
        ctx.check(got == order, "direction-duality", fi, lp, f"{name} iterates hops {order}",
                  f"{name} must iterate the hops {'last-to-first (first hop outermost)' if order == 'reversed' else 'first-to-last'}")
        ctx.anchor(prims, f"{prim} in {name}")

        def elem_keys(e: ast.AST, at: ast.AST, depth: int = 3) -> bool:
            """e (read at `at` inside the hop loop) is the `.keys` of the hop of this iteration: `<loop variable>.keys`,
            `<hops>[<checked index>].keys`, or a local bound once, earlier in the same iteration, to one of them."""
            e = strip_cast(e)
            if isinstance(e, ast.Name) and depth > 0 and not is_param(fi, e.id) and _bindings(fi, e.id) == 1:
                ds = [d for d in local_defs(fi, e.id)]
                if len(ds) != 1 or ds[0][1] is None or ds[0][2] is not None or not isinstance(ds[0][0], (ast.Assign, ast.AnnAssign)) \
                        or not ancestors_include(ds[0][0], lp):
                    return False
                dn, un_ = cfg.nodes_for(ds[0][0]), cfg.nodes_for(at)
                before_def = cfg.reach(body_starts, cut_out_normal=dn)
                if not dn or not un_ or any(u in before_def and u not in dn for u in un_):
                    return False
                return elem_keys(ds[0][1], ds[0][0], depth - 1)
            if not (isinstance(e, ast.Attribute) and e.attr == "keys"):
                return False
            x = strip_cast(e.value)
            if isinstance(x, ast.Name):
                return x.id in loop_vars
            return ivar is not None and isinstance(x, ast.Subscript) and chain(x.value) == hops_param and ivar in names_in(x.slice)

        for c in prims:
            st = enclosing_stmt(c)
            r_, _, margs = mcalls[id(c)]
            recv = _expand(ctx, fi, r_, at=c)
            rc_ = chain(recv) or ""
            # the result replaces cell.message: stored directly, or held in a local (bound by this statement only) that is stored
            # into cell.message on every normal way from the call to the next iteration / the end of the function
            stored = isinstance(st, ast.Assign) and len(st.targets) == 1 and st.value is c and chain(st.targets[0]) == f"{cell_n}.message"
            if not stored and isinstance(st, (ast.Assign, ast.AnnAssign)) and st.value is c:
                tg = st.targets[0] if isinstance(st, ast.Assign) and len(st.targets) == 1 else getattr(st, "target", None)
                if isinstance(tg, ast.Name) and _bindings(fi, tg.id) == 1:
                    puts = [w for w in walk_no_nested(fi.node) if isinstance(w, ast.Assign) and len(w.targets) == 1
                            and chain(w.targets[0]) == f"{cell_n}.message" and isinstance(strip_cast(w.value), ast.Name) and strip_cast(w.value).id == tg.id]
                    pn = [g for w in puts for g in cfg.nodes_for(w)]
                    stored = bool(pn) and all(cfg.always_followed_by(g, pn, exits=[cfg.exit, *loop_heads]) for g in cfg.nodes_for(st))
            # the receiver is <loop variable>.keys (read directly or once into a local)
            ok = stored and len(margs) == 2 and norm(_expand(ctx, fi, margs[0], env_c, at=c)) == "cell.message" \
                and norm(_expand(ctx, fi, margs[1], at=c)) == dir_n and elem_keys(recv, c) \
                and ancestors_include(c, lp)
            ctx.check(ok, "direction-duality", fi, st, f"{name}: cell.message = hop.keys.{prim}(cell.message, direction)",
                      f"{name} does not replace the message by the {prim} of the message under the given direction")
            facts = _xfacts(ctx, fi, c)
            has_keys = any(chain(f.left) == rc_ and ((f.op == "truthy" and f.pos) or
                                                     (f.op == "is" and not f.pos and isinstance(f.right, ast.Constant) and f.right.value is None))
                           for f in facts)
            ctx.check(has_keys, "crypto-before-send", fi, c, f"{name}: a hop without keys raises instead of skipping the layer",
                      f"{name} can skip a layer silently when a hop has no keys", [str(f) for f in facts])
        # the "no keys" branch must raise (not continue / return)
        for n in cfg.nodes:
            if n.kind != "cond":
                continue
            a = n.ast
            parts = _derive(fi, a, True)                    # (the test may be spelled through operator.not_ / partial(is_, None) / bool())
            if len(parts) != 1:
                continue
            f = fact_of(*parts[0])
            if f.op == "is" and isinstance(f.left, ast.Constant) and f.left.value is None and f.right is not None:
                f = Fact("is", f.right, f.left, f.pos, f.atom)       # `None is x`
            if not ((_xchain(ctx, fi, f.left, at=a) or "").endswith(".keys") or (ancestors_include(a, lp) and elem_keys(_expand(ctx, fi, f.left, at=a), a))):
                continue
            nokeys_pol = None                               # the out-edge of the test on which the keys are missing
            if f.op == "truthy":
                nokeys_pol = not f.pos
            elif f.op == "is" and isinstance(f.right, ast.Constant) and f.right.value is None:
                nokeys_pol = f.pos
            if nokeys_pol is None:
                continue
            starts = [v for v, lab in n.succ if lab is nokeys_pol]
            r = cfg.reach(starts, follow_exc=False)
            ok = cfg.exit not in r and not any(x.kind == "loop" for x in r)
            ctx.check(ok, "crypto-before-send", fi, a, f"{name}: the missing-keys branch raises",
                      f"{name}: when a hop has no keys the layer is skipped (continue/return) instead of raising CryptoException")
        # no layer is skipped: an iteration of the hop loop that does not raise has applied the primitive - it cannot go on to the next
        # hop, leave the loop (break: all remaining layers skipped) or return before (except for a cell carrying the plaintext flag)
        pn = {g for c in prims for g in cfg.nodes_for(c)}
        inside = lambda x: x.ast is not None and (x.ast is lp or ancestors_include(x.ast, lp)) and not (x.kind == "stmt" and x.ast is getattr(lp, "iter", None))  # noqa: E731
        for head_ in loop_heads:
            r = cfg.reach(body_starts, cut_out_normal=pn,
                          cut_edge=lambda u, v, lab: (lab == "exc" and not inside(v)) or
                          (u.kind == "cond" and lab in (True, False) and _plaintext_edge(ctx, fi, env_c, u, lab)))
            skipped = sorted({x for x in r if x is head_ or not inside(x)}, key=lambda x: x.id)
            how = "goes on to the next hop" if head_ in skipped else "leaves the loop / returns"
            rule = "drop-on-failure" if name == "decrypt_cell" else "crypto-before-send"
            ctx.check(not skipped, rule, fi, lp, f"{name}: every iteration of the hop loop applies {prim} or raises",
                      f"{name}: an iteration of the hop loop can end without having applied {prim} ({how}): the layer of that hop "
                      + ("(and of every later hop) is not removed and not authenticated, yet the cell is accepted as decrypted"
                         if name == "decrypt_cell" else "is not added, yet the cell is sent as encrypted"))
        # wrong-other primitive absent
        other = "decrypt_str" if prim == "encrypt_str" else "encrypt_str"
        ctx.check(not [c for c in calls(fi) if call_name(c) == other or (mcalls[id(c)] is not None and mcalls[id(c)][1] == other)], "direction-duality", fi, fi.node,
                  f"{name} uses only {prim}", f"{name} calls {other}")
        # a method of the keys picked by a name the analysis cannot read could be either primitive
        for c in calls(fi):
            g = strip_cast(c.func)
            if isinstance(g, ast.Call) and chain(g.func) in ("getattr", "methodcaller", "operator.methodcaller") and mcalls[id(c)] is None:
                raise AnalysisError(f"undecided: which method `{norm(c)[:80]}` calls in {fi.qualname}")
        # every failure of the foreign AEAD call is turned into CryptoException (=> caller drops the cell).  The binary
        # extension documents no exception contract (decrypt_str raises RuntimeError on a tag mismatch, ValueError on short
        # input), so only a catch-all handler contains it.
        from ..cfg import _catches_all
        for c in prims:
            tr = next((a for a in ancestors(c) if isinstance(a, ast.Try) and any(c in list(ast.walk(b)) for b in a.body)), None)
            if tr is None:
                for a in ancestors(c):
                    if a is fi.node:
                        break
                    if isinstance(a, (ast.With, ast.AsyncWith)):
                        _no_unmodelled_manager(a)
            ok = tr is not None and any(_catches_all(h) for h in tr.handlers)
            ctx.check(ok, "drop-on-failure", fi, c, f"{name}: {prim} is wrapped in try/except Exception",
                      f"{name}: the AEAD call {prim} is not contained by a catch-all handler: a tag mismatch raises RuntimeError (not ValueError) "
                      "out of process_cell into the transport instead of dropping the cell")
            for h in (tr.handlers if tr is not None else []):
                raises = [s for s in ast.walk(h) if isinstance(s, ast.Raise)]
                # `except CryptoException: raise` passes the CryptoException on unchanged
                passes_on = chain(h.type) == "CryptoException" if h.type is not None else False
                ok = bool(raises) and all((s.exc is None and passes_on) or
                                          (s.exc is not None and (chain(s.exc) == "CryptoException" or
                                                                  (isinstance(s.exc, ast.Call) and chain(s.exc.func) == "CryptoException")))
                                          for s in raises) and cfg_handler_always_raises(ctx, fi, h)
                ctx.check(ok, "drop-on-failure", fi, h, f"{name}: AEAD failure re-raised as CryptoException",
                          f"{name} swallows an authentication failure of the AEAD layer")


def _request_field(ctx: Ctx, root: FuncInfo, s: _Site, e: ast.AST | None) -> str | None:
    """Text of expression e (an argument at site s, reached from `root`) with the pending extend request - the object popped from
    the request cache as CreateRequestCache, whatever local / helper parameter holds it - written `request`."""
    if e is None:
        return None
    x = _expand(ctx, s.fi, e, s.env, at=s.call)

    def is_request(v: ast.AST, depth: int = 3) -> bool:
        v = strip_cast(v)
        if isinstance(v, ast.Name) and depth > 0:
            # (a name left in the expanded text is a local of the function that contains the site, or - inside a bound helper
            # argument - of the function the helper was entered from)
            for g in ([s.fi] if not s.via else [s.fi, *[h for h, _ in s.via]]):
                if not is_param(g, v.id) and _bindings(g, v.id) == 1:
                    d = single_def(g, v.id)
                    if d is not None and d[1] is None:
                        return is_request(d[0], depth - 1)
            return False
        return isinstance(v, ast.Call) and chain(v.func) == "self.request_cache.pop" and bool(v.args) and chain(v.args[0]) == "CreateRequestCache"

    class _T(ast.NodeTransformer):
        def visit_Attribute(self, n: ast.Attribute):  # noqa: N802
            if is_request(n.value):
                return ast.Attribute(value=ast.Name(id="request", ctx=ast.Load()), attr=n.attr, ctx=ast.Load())
            return self.generic_visit(n)

    return norm(_T().visit(x))


def ancestors_include(node: ast.AST, anc: ast.AST) -> bool:
    return any(a is anc for a in ancestors(node))


def cfg_handler_always_raises(ctx: Ctx, fi: FuncInfo, h: ast.ExceptHandler) -> bool:
    cfg = ctx.cfg(fi)
    hn = [n for n in cfg.by_ast.get(id(h), []) if n.kind == "handler"]
    for n in hn:
        r = cfg.reach([n], follow_exc=False)
        # following only normal edges from the handler entry we must not reach the normal exit or the loop head
        if cfg.exit in r or any(x.kind == "loop" for x in r):
            return False
    return bool(hn)


def parent_of(node: ast.AST):
    from ..model import parent
    return parent(node)


def _allowed_member(ctx: Ctx, fi: FuncInfo | None, allowed: set, _seen=()) -> bool:
    """fi is one of the allowed functions, or a NEW helper that is reachable only from them (called, never passed around)."""
    if fi is None:
        return False
    if fi.qualname in allowed:
        return True
    if not _is_new(fi) or fi in _seen:
        return False
    callers = [c_fi for _, c_fi, _ in _callers(ctx, fi.name)]
    passed = [n for m in ctx.repo.modules.values() for n in ast.walk(m.tree)
              if isinstance(n, ast.Attribute) and n.attr == fi.name and isinstance(n.ctx, ast.Load)
              and not (isinstance(parent_of(n), ast.Call) and parent_of(n).func is n)]
    return bool(callers) and not passed and all(_allowed_member(ctx, c, allowed, (*_seen, fi)) for c in callers)


def _whitelist_flag(ctx: Ctx, fi: FuncInfo, v: ast.AST, at: ast.AST) -> bool:
    """Value v (in fi: TunnelCommunity.send_cell or a helper of it) is true only if `payload.msg_id in NO_CRYPTO_PACKETS`."""
    if fi.qualname == "TunnelCommunity.send_cell":
        envs = [None]
    else:
        envs = []
        for _, c_fi, c in _callers(ctx, fi.name):
            if c_fi is None or c_fi.qualname != "TunnelCommunity.send_cell":
                raise AnalysisError(f"undecided: plaintext flag set in {fi.qualname}, a helper that send_cell reaches only indirectly")
            envs.append(_bind(ctx, c_fi, c, fi, None))
    for env in envs:
        implied = [fact_of(a, p) for a, p in _derive(None, _expand(ctx, fi, v, env, at=at), True)]
        if not any(f.op == "in" and f.pos and norm(f.left) == "payload.msg_id" and _is_whitelist(ctx, fi, f.right) for f in implied):
            return False
    return bool(envs)


def rule_plaintext(ctx: Ctx) -> None:
    _CURRENT[0] = ctx
    repo = ctx.repo
    pm = repo.module(PL)
    ncp = pm.constants.get("NO_CRYPTO_PACKETS")
    ctx.anchor(ncp, "NO_CRYPTO_PACKETS")
    disp = ncp
    while isinstance(disp, ast.Call) and isinstance(disp.func, ast.Name) and disp.func.id in ("frozenset", "set", "tuple", "list") \
            and len(disp.args) == 1 and not disp.keywords:
        disp = disp.args[0]
    elts = _literal_elts(None, disp) or []
    names = [norm(e) for e in elts]
    vals = [repo.resolve_const(pm, e) for e in elts]
    vals = vals if all(isinstance(v, int) for v in vals) else ["<non-constant>"]
    ctx.check(sorted(names) == ["CreatePayload.msg_id", "CreatedPayload.msg_id"] and sorted(vals) == [2, 3], "plaintext-whitelist", PL, ncp,
              "NO_CRYPTO_PACKETS == [create, created]", f"the set of message types that may travel unencrypted is {names} = {vals}")
    # who sets plaintext: the attribute is stored / the constructor argument is given only by TunnelCommunity.send_cell (or a new
    # helper that only it calls), with the value `payload.msg_id in NO_CRYPTO_PACKETS`; the constructor itself copies its parameter
    setters = []                      # (function | None, module, statement / call, value)
    for m in repo.modules.values():
        for node in ast.walk(m.tree):
            if isinstance(node, ast.Attribute) and node.attr == "plaintext" and isinstance(node.ctx, ast.Store):
                st = enclosing_stmt(node)
                v = st.value if isinstance(st, (ast.Assign, ast.AnnAssign)) and not isinstance(parent_of(node), (ast.Tuple, ast.List)) else None
                setters.append((repo.function_of(node), m, st, v))
    for m, fi, c in _callers(ctx, "setattr"):
        if len(c.args) == 3 and isinstance(c.args[1], ast.Constant) and c.args[1].value == "plaintext":
            setters.append((fi, m, c, c.args[2]))
    for m, fi, c in _callers(ctx, "CellPayload"):
        if fi is None:
            continue
        if any(isinstance(x, ast.Starred) for x in c.args) or any(k.arg is None for k in c.keywords):
            raise AnalysisError(f"undecided: CellPayload constructed with packed arguments in {fi.qualname}")
        p = arg(c, 2, "plaintext")
        if p is not None:
            setters.append((fi, m, c, p))
        else:
            ctx.check(True, "plaintext-whitelist", fi, c, "CellPayload constructed without a plaintext argument", "")
    for fi, m, st, v in setters:
        if fi is not None and fi.qualname == "CellPayload.__init__":
            ok = v is not None and chain(v) == "plaintext" and is_param(fi, "plaintext") and _bindings(fi, "plaintext") == 1
        else:
            ok = fi is not None and v is not None and _allowed_member(ctx, fi, {"TunnelCommunity.send_cell"}) and _whitelist_flag(ctx, fi, v, st)
        ctx.check(ok, "plaintext-whitelist", fi or m.relpath, st, "plaintext flag set only from msg_id in NO_CRYPTO_PACKETS",
                  "the plaintext flag of an outgoing cell is set by something other than membership in NO_CRYPTO_PACKETS")
    ctx.floor("plaintext-whitelist.setters", len(setters), 2)
    # drop rule on the receive side: every path to the delivery establishes `not cell.plaintext` or `type in NO_CRYPTO_PACKETS`
    # (whatever the spelling of the guard: drop-guard with early return, inverted if/else, de Morgan, guard in a helper)
    wl = _MustPass(ctx, good_edge=lambda fi, env, cfg, n, lab: _not_plaintext_edge(ctx, fi, env, n, lab) or _whitelisted_edge(ctx, fi, env, n, lab))
    for clsname, meth, rel, deliver in (("PythonCryptoEndpoint", "process_cell", CR, "self.tunnel_community.on_packet"),
                                        ("TunnelCommunity", "on_cell", TC, "self.on_packet_from_circuit")):
        fi = repo.method(clsname, meth, rel)
        sites = ctx.anchor(_sites(ctx, fi, _callee(ctx, deliver), _helper if rel == CR else _new_helper), f"{deliver} in {meth}")
        for s in sites:
            ctx.check(wl.holds_for(s), "plaintext-whitelist", s.fi, s.call,
                      f"{meth}: no path delivers a plaintext cell whose type is not create/created",
                      f"{meth} can deliver a cell that arrived unencrypted although its message type requires encryption")
    rc = repo.method("PythonCryptoEndpoint", "relay_cell", CR)
    npt = _MustPass(ctx, good_edge=lambda fi, env, cfg, n, lab: _not_plaintext_edge(ctx, fi, env, n, lab))
    for s in ctx.anchor(_sites(ctx, rc, _callee(ctx, "self.endpoint.send"), _helper), "endpoint.send in relay_cell"):
        ctx.check(npt.holds_for(s), "plaintext-whitelist", s.fi, s.call, "relay_cell forwards only cells without the plaintext flag",
                  "a relay forwards cells marked plaintext (no layer is added/removed for them)", [str(f) for f in s.facts])


def _has_cond(cfg, text: str) -> bool:
    return any(n.kind == "cond" and norm(n.ast) == text for n in cfg.nodes)


def _path_with(cfg, site_ast, edges) -> bool:
    """Is there a path entry -> site that takes all labelled cond edges (in order)?"""
    starts = [cfg.entry]
    for text, pol in edges:
        nxt = []
        r = cfg.reach(starts)
        for n in cfg.nodes:
            if n.kind == "cond" and norm(n.ast) == text and n in r:
                nxt.extend(v for v, lab in n.succ if lab is pol)
        if not nxt:
            return False
        starts = nxt
    r = cfg.reach(starts)
    return any(n in r for n in cfg.nodes_for(site_ast))


def _resolved(fi: FuncInfo, e: ast.AST | None):
    """e, or the value of the local bound once that e names."""
    if e is None:
        return None
    e = strip_cast(e)
    if isinstance(e, ast.Name) and _bindings(fi, e.id) == 1:
        return resolve(fi, e)
    return e


def _is_result_of(ctx: Ctx, fi: FuncInfo, env, e: ast.AST | None, callee: str) -> bool:
    """e is the call `<callee>(cell)` or a local bound once to it."""
    e = _resolved(fi, e)
    return isinstance(e, ast.Call) and chain(e.func) == callee and arg(e, 0, "cell") is not None \
        and norm(_expand(ctx, fi, arg(e, 0, "cell"), env)) == "cell"


def _result_ok_edge(ctx: Ctx, fi: FuncInfo, env, n, lab, callee: str) -> bool:
    """The edge establishes that `<callee>(cell)` returned the cell (truthy / not None; the alternative result is None)."""
    f = fact_of(n.ast, lab)
    if (f.op == "truthy" and f.pos) or (f.op == "is" and not f.pos and isinstance(f.right, ast.Constant) and f.right.value is None):
        return _is_result_of(ctx, fi, env, f.left, callee)
    return False


def _cell_to_bin(ctx: Ctx, fi: FuncInfo, env, e: ast.AST | None, producer: str) -> bool:
    """e is `<cell>.to_bin(...)` where <cell> is the cell or what `<producer>(cell)` returned (the same object)."""
    if not (isinstance(e, ast.Call) and isinstance(e.func, ast.Attribute) and e.func.attr == "to_bin"):
        return False
    x = e.func.value
    return norm(_expand(ctx, fi, x, env)) == "cell" or _is_result_of(ctx, fi, env, x, producer)


def rule_crypto_before_send(ctx: Ctx) -> None:
    _CURRENT[0] = ctx
    repo = ctx.repo
    sc = repo.method("PythonCryptoEndpoint", "send_cell", CR)
    passed = _MustPass(ctx, good_edge=lambda fi, env, g, n, lab: _result_ok_edge(ctx, fi, env, n, lab, "self.outgoing_crypto"))
    sends = _sites(ctx, sc, _callee(ctx, "self.endpoint.send"), _helper)
    for s in ctx.anchor(sends, "endpoint.send in send_cell"):
        cfg = ctx.cfg(s.fi)
        pkt = _resolved(s.fi, arg(s.call, 1, "packet"))
        ok_pkt = _cell_to_bin(ctx, s.fi, s.env, pkt, "self.outgoing_crypto")
        ctx.check(passed.holds_for(s) and ok_pkt, "crypto-before-send", s.fi, s.call,
                  "send_cell: endpoint.send dominated by truthy outgoing_crypto(cell), packet = cell.to_bin",
                  "a cell can leave send_cell without passing outgoing_crypto", [str(f) for f in s.facts])
        # to_bin must be taken after the crypto step
        tb = cfg.nodes_for(pkt) if ok_pkt else []
        oc = [n for c in calls(s.fi, "self.outgoing_crypto") for n in cfg.nodes_for(c)]
        ctx.check(bool(tb) and (not oc and bool(s.via) or bool(oc) and all(cfg.must_complete(t, oc) for t in tb)), "crypto-before-send", s.fi, s.call,
                  "cell serialised after the crypto step", "the cell is serialised before it is encrypted")
    # outgoing_crypto returns None in the CryptoException handler and cell otherwise
    oc = repo.method("PythonCryptoEndpoint", "outgoing_crypto", CR)
    _returns_none_on_crypto_exception(ctx, oc, "crypto-before-send")
    # a cell is returned (= handed to the wire by send_cell) only after an encrypt step completed, or when it carries the plaintext
    # flag: in particular a cell for which no routing entry (hence no keys) exists is not returned untouched
    layer = _layer_or_plaintext(ctx)
    for r in _truthy_returns(oc):
        ctx.check(layer.holds_at(oc, r), "crypto-before-send", oc, r, "outgoing_crypto never returns an unencrypted non-plaintext cell for an unknown circuit",
                  "outgoing_crypto returns the cell untouched when no circuit/exit/relay entry exists: send_cell then puts the payload on the wire in clear")
    rc = repo.method("PythonCryptoEndpoint", "relay_cell", CR)
    cfg = ctx.cfg(rc)
    # every path to endpoint.send completes an encrypt/decrypt step (directly or inside a helper whose result guards the send);
    # the infeasible neither-FORWARD-nor-BACKWARD path of the direction dispatch is cut (domain checked in rule_duality)
    step = _MustPass(ctx, good_node=lambda fi, env, g, n: _is_crypto_node(ctx, fi, env, g, n),
                     infeasible=lambda fi, env, g, n, lab: _third_direction_edge(ctx, fi, env, g, n, lab)
                     or _missing_dispatch_edge(ctx, fi, env, n, lab), plans=True)
    sends = _sites(ctx, rc, _callee(ctx, "self.endpoint.send"), _helper)
    for s in sends:
        ctx.check(step.holds_for(s), "crypto-before-send", s.fi, s.call, "relay_cell: every path to endpoint.send completes an encrypt/decrypt step",
                  "a relay can forward a cell without adding or removing its layer")
    # a cell whose crypto step failed is dropped: no path from the failure of a step (exception caught or reported by the helper's
    # result) leads to endpoint.send
    starts = _failure_starts(ctx, rc, None, 2)
    ctx.anchor(starts, "exceptional exit of a crypto step in relay_cell")
    for x in _crypto_sites(ctx, rc):
        for g, c in [(x.fi, x.call), *x.via]:
            _catches_crypto_exception(c, g.node)             # (undecided when a step runs under an exception-swallowing context manager)
    after_failure = _flag_reach(ctx, rc, starts)
    for s in sends:
        top = s.via[0][1] if s.via else s.call              # the statement of relay_cell that (leads to the helper that) sends
        ok = not any(n in after_failure for n in cfg.nodes_for(top))
        ctx.check(ok, "drop-on-failure", s.fi, s.call, "relay_cell drops the cell on CryptoException", "relay_cell forwards a cell whose crypto step failed")


def _third_direction_edge(ctx: Ctx, fi: FuncInfo, env, cfg, n, lab) -> bool:
    """Edge `X != D` of a test of a relay direction against FORWARD/BACKWARD taken where `X != other constant` already holds."""
    f = fact_of(n.ast, lab)
    if f.op != "eq" or f.pos:
        return False
    l, r = _eq_sides(ctx, fi, f, env)
    if r not in ("FORWARD", "BACKWARD") or not l.endswith(".direction"):
        return False
    other = "BACKWARD" if r == "FORWARD" else "FORWARD"
    for g in facts_at(cfg, n):
        if g.op == "eq" and not g.pos and _eq_sides(ctx, fi, g, env) == (l, other):
            return True
    return False


def _failure_starts(ctx: Ctx, fi: FuncInfo, env, depth: int) -> list:
    """(node, flag state) pairs of fi at which execution continues when an encrypt/decrypt step (here or in a helper) has failed."""
    cfg = ctx.cfg(fi)
    base = _flag_reach(ctx, fi)
    starts = []

    def leave(n, pred) -> None:
        for v, lab in n.succ:
            if pred(lab):
                starts.extend((v, st) for st in base.get(n, ()))

    for c in calls(fi):
        if _is_crypto_call(ctx, fi, c):
            for n in cfg.nodes_for(c):
                leave(n, lambda lab: lab == "exc")
            continue
        t = _helper(ctx, fi, c)
        if t is None or depth <= 0 or t is fi:
            continue
        try:
            exits: list = []
            outcomes = _failure_outcomes(ctx, t, _bind(ctx, fi, c, t, env), depth - 1, exits)
        except AnalysisError:
            if any(_is_crypto_call(ctx, t, x) for x in calls(t)):
                raise
            continue
        tested = [m for m in cfg.nodes if m.kind == "cond" and _cond_call(ctx, fi, m) is c]
        # the result is a decision (tag / Enum member / part of a tuple or record) tested against constants: after a failure the
        # test can only take the edges that a value returned after the failure can take
        decided = [(m, sj) for m in cfg.nodes if m.kind == "cond" and m not in tested
                   for sj in [_cond_subject(ctx, fi, m)] if sj is not None and sj[0] is c]
        for n in cfg.nodes_for(c):
            if "raise" in outcomes:
                leave(n, lambda lab: lab == "exc")
            if not (outcomes - {"raise"}):
                continue
            if not tested and not decided:
                leave(n, lambda lab: lab != "exc")
            for m in tested:
                for o in outcomes - {"raise"}:
                    leave(m, lambda lab, o=o: lab is o)
            for m, sj in decided:
                for o in (True, False):
                    if any(_Test(norm(m.ast), o, sj[2], sj[1]).may_take(ctx, t, x) for x in exits):
                        leave(m, lambda lab, o=o: lab is o)
    return starts


def _failure_outcomes(ctx: Ctx, fi: FuncInfo, env, depth: int, exits: list | None = None) -> set:
    """How helper fi can end after one of its crypto steps failed: 'raise', True / False (truthiness of the result).
    exits (a list to fill): the CFG nodes through which it then returns."""
    cfg = ctx.cfg(fi)
    starts = _failure_starts(ctx, fi, env, depth)
    if not starts:
        return set()
    if any(isinstance(t, ast.Try) and t.finalbody for t in walk_no_nested(fi.node)):
        raise AnalysisError(f"undecided: helper {fi.qualname} returns through a finally block")
    r = _flag_reach(ctx, fi, starts)
    out = set()
    if cfg.raise_exit in r:
        out.add("raise")
    for n in r:
        if any(v is cfg.exit and lab != "exc" for v, lab in n.succ):
            out |= _exit_truth(ctx, fi, n, r)
            if exits is not None:
                exits.append(n)
    return out


def _no_unmodelled_manager(w: ast.AST) -> None:
    """A `with` whose manager is defined in the analysed tree and that the rewrite into try/except (_desugar_managers) had to leave
    alone: its __exit__ / generator may catch, convert or swallow what the block raises, which the control-flow graph does not show -
    no verdict about the block's failures."""
    ctx = _CURRENT[0]
    fi = ctx.repo.function_of(w) if ctx is not None else None
    if fi is None:
        return
    for i in w.items:
        e = i.context_expr
        if isinstance(e, ast.Name) and not is_param(fi, e.id):
            d = local_defs(fi, e.id)
            e = d[0][1] if len(d) == 1 and d[0][2] is None and d[0][1] is not None else e
        if _manager_of(ctx, fi, e) is not None:
            raise AnalysisError(f"undecided: a crypto step of {fi.qualname} runs under `with {norm(i.context_expr)}`, a context manager of the analysed tree "
                                "whose shape is not understood: where control continues after a failure is not modelled")


def _catches_crypto_exception(node: ast.AST, within: ast.AST) -> bool:
    """node sits in the body of a try (inside function `within`) that has a handler for CryptoException (or for everything)."""
    from ..cfg import _catches_all
    prev = node
    for a in ancestors(node):
        if isinstance(a, (ast.With, ast.AsyncWith)) and any(isinstance(i.context_expr, ast.Call) and chain(i.context_expr.func) in ("suppress", "contextlib.suppress")
                                                            for i in a.items):
            # the control-flow graph does not model a context manager that swallows exceptions: no verdict about what runs afterwards
            raise AnalysisError(f"undecided: a crypto step runs under `with {norm(a.items[0].context_expr)}`: where control continues after a failure is not modelled")
        if isinstance(a, (ast.With, ast.AsyncWith)):
            _no_unmodelled_manager(a)
        if isinstance(a, ast.Try) and any(prev is b for b in a.body) and \
                any(_catches_all(h) or "CryptoException" in [chain(t) for t in (h.type.elts if isinstance(h.type, ast.Tuple) else [h.type])]
                    for h in a.handlers):
            return True
        if a is within:
            break
        prev = a
    return False


def _returns_none_on_crypto_exception(ctx: Ctx, fi: FuncInfo, rule: str) -> None:
    """A failed layer (CryptoException raised by a step) is contained by fi and makes it return None: every step runs under a
    handler for CryptoException (in fi or in the helper that performs the step), and from the failure of a step no `return` of a
    possibly truthy value can be reached - whatever the handler looks like (return in the handler, flag tested later, try/else)."""
    sites = ctx.anchor(_crypto_sites(ctx, fi), f"crypto steps in {fi.name}")
    done = set()
    for s in sites:
        if id(s.call) in done:
            continue
        done.add(id(s.call))
        levels = [(s.fi, s.call), *[(g, c) for g, c in reversed(s.via)]]
        ctx.check(any(_catches_crypto_exception(c, g.node) for g, c in levels), rule, s.fi, s.call, f"{fi.name}: a failing layer is caught",
                  f"{fi.name} lets the CryptoException of a failed layer escape to its caller, which does not catch it")
    cfg = ctx.cfg(fi)
    after = _flag_reach(ctx, fi, _failure_starts(ctx, fi, None, 2))
    for r in ctx.anchor(_truthy_returns(fi), f"return of the cell in {fi.name}"):
        ctx.check(not any(n in after for n in cfg.nodes_for(r)), rule, fi, r, f"{fi.name} returns None when a layer fails",
                  f"{fi.name} returns the cell although a crypto layer failed")


def cfg_handler_never_falls_through(ctx: Ctx, fi: FuncInfo, h: ast.ExceptHandler) -> bool:
    cfg = ctx.cfg(fi)
    # every normal path out of the handler ends in a `return None`
    for hn in [n for n in cfg.by_ast.get(id(h), []) if n.kind == "handler"]:
        r = cfg.reach([hn], follow_exc=False)
        for n in r:
            if n.kind == "stmt" and isinstance(n.ast, ast.Return) and not any(n.ast is s for s in ast.walk(h)):
                return False
    return True


def rule_drop_on_failure(ctx: Ctx) -> None:
    _CURRENT[0] = ctx
    repo = ctx.repo
    pc = repo.method("PythonCryptoEndpoint", "process_cell", CR)
    accepted = _MustPass(ctx, good_edge=lambda fi, env, g, n, lab: _result_ok_edge(ctx, fi, env, n, lab, "self.incoming_crypto"))
    deliveries = _sites(ctx, pc, _callee(ctx, "self.tunnel_community.on_packet"), _helper)
    for s in ctx.anchor(deliveries, "delivery in process_cell"):
        ctx.check(accepted.holds_for(s), "drop-on-failure", s.fi, s.call, "delivery dominated by truthy incoming_crypto(cell)",
                  "a cell is delivered although incoming_crypto rejected it (or was not consulted)", [str(f) for f in s.facts])
        # the delivered bytes are the decrypted cell
        pk = _resolved(s.fi, arg(s.call, 0, "packet"))
        ok2 = isinstance(pk, ast.Tuple) and len(pk.elts) == 2 and _cell_to_bin(ctx, s.fi, s.env, _resolved(s.fi, pk.elts[1]), "self.incoming_crypto")
        ctx.check(ok2, "drop-on-failure", s.fi, s.call, "delivered packet is the decrypted cell re-serialised", "delivered bytes are not the decrypted cell")
    ic = repo.method("PythonCryptoEndpoint", "incoming_crypto", CR)
    _returns_none_on_crypto_exception(ctx, ic, "drop-on-failure")
    # encrypted cells of unknown circuits are dropped: the cell is returned (= accepted) only after a decrypt step completed or when
    # it carries the plaintext flag (such cells skip decryption by design and are then limited by the whitelist rule)
    layer = _layer_or_plaintext(ctx)
    for r in _truthy_returns(ic):
        ctx.check(layer.holds_at(ic, r), "drop-on-failure", ic, r, "encrypted cell for an unknown circuit is never returned",
                  "incoming_crypto accepts an encrypted cell for which no keys are known")


def _truthy_returns(fi: FuncInfo) -> list:
    """`return` statements of outgoing_crypto / incoming_crypto whose value can be truthy; such a value is the cell itself."""
    out = [r for r in walk_no_nested(fi.node) if isinstance(r, ast.Return) and r.value is not None and True in _const_truth(strip_cast(r.value))]

    def cell_or_nothing(v) -> bool:
        v = strip_cast(v)
        if isinstance(v, ast.Constant):
            return not v.value
        if isinstance(v, ast.IfExp):
            return cell_or_nothing(v.body) and cell_or_nothing(v.orelse)
        if isinstance(v, ast.BoolOp) and isinstance(v.op, ast.And):
            return cell_or_nothing(v.values[-1])
        return isinstance(v, ast.Name) and v.id == "cell" and _bindings(fi, "cell") == 1
    for r in out:
        if not cell_or_nothing(r.value):
            raise AnalysisError(f"undecided: {fi.qualname} returns `{norm(r.value)}`, not the cell it was given")
    return out


def _layer_or_plaintext(ctx: Ctx) -> _MustPass:
    """'Every path completes an encrypt/decrypt step on the cell or establishes cell.plaintext.'"""
    return _MustPass(ctx, good_node=lambda fi, env, g, n: _is_crypto_node(ctx, fi, env, g, n),
                     good_edge=lambda fi, env, g, n, lab: _plaintext_edge(ctx, fi, env, n, lab), plans=True)


E2E_TYPES = {"CIRCUIT_TYPE_RP_DOWNLOADER", "CIRCUIT_TYPE_RP_SEEDER"}


def _circuit_types(ctx: Ctx) -> dict:
    """name -> value of the CIRCUIT_TYPE_* constants (pairwise different, checked)."""
    t = ctx.repo.module("ipv8/messaging/anonymization/tunnel.py")
    out = {k: ctx.repo.resolve_const(t, v) for k, v in t.constants.items() if k.startswith("CIRCUIT_TYPE_")}
    if not E2E_TYPES <= set(out) or len(set(map(repr, out.values()))) != len(out):
        raise AnalysisError("anchor lost: CIRCUIT_TYPE_* constants of tunnel.py (distinct values expected)")
    return out


def _never_mutated(ctx: Ctx, name: str) -> bool:
    """No module of the repository changes a shared constant called `name` in place or re-binds it: no `name.append(..)` /
    `X.name.add(..)`, no store / delete / augmented assignment through it, no `global name`, one binding statement only."""
    memo = ctx.__dict__.setdefault("_c04_never_mutated", {})
    if name in memo:
        return memo[name]
    ok, binds = True, 0
    for m in ctx.repo.modules.values():
        for n in ast.walk(m.tree):
            if isinstance(n, ast.Global) and name in n.names:
                ok = False
            elif isinstance(n, (ast.Name, ast.Attribute)) and (n.id if isinstance(n, ast.Name) else n.attr) == name:
                p_ = parent_of(n)
                if isinstance(n.ctx, ast.Del):
                    ok = False
                elif isinstance(n.ctx, ast.Store):
                    binds += 1
                    if isinstance(p_, ast.AugAssign):
                        ok = False
                elif isinstance(p_, ast.Attribute) and p_.value is n and isinstance(parent_of(p_), ast.Call) and parent_of(p_).func is p_ \
                        and p_.attr in _MUTATORS | {"sort", "reverse", "clear", "discard", "__setitem__", "__delitem__"}:
                    ok = False
                elif isinstance(p_, ast.Subscript) and p_.value is n and isinstance(p_.ctx, (ast.Store, ast.Del)):
                    ok = False
    memo[name] = ok and binds == 1
    return memo[name]


def _member_elts(ctx: Ctx, fis, e: ast.AST | None, depth: int = 4):
    """Elements of the collection a membership test reads: a tuple / list / set display, the keys of a dict display, such a
    display wrapped in frozenset()/set()/tuple()/list(), a union (`a | b`, {*a, *b}, chain(a, b)) of such collections, or a
    read-only module / class-level constant (of the module of one of the functions `fis`) bound to one.  None when unknown."""
    if e is None or depth <= 0:
        return None
    e = strip_cast(e)
    if isinstance(e, (ast.Name, ast.Attribute)):
        for fi in fis:
            if fi is None:
                continue
            v = _shared_const(ctx, fi, e)
            if v is not None and v is not e:
                return _member_elts(ctx, fis, v, depth - 1) if _never_mutated(ctx, e.id if isinstance(e, ast.Name) else e.attr) else None
        return None
    if isinstance(e, ast.Call) and chain(e.func) in ("frozenset", "set", "tuple", "list", "sorted") and len(e.args) == 1 and not e.keywords \
            and not isinstance(e.args[0], ast.Starred):
        return _member_elts(ctx, fis, e.args[0], depth - 1)
    if isinstance(e, ast.Dict):
        return list(e.keys) if e.keys and all(k is not None for k in e.keys) else None
    if isinstance(e, (ast.Tuple, ast.List, ast.Set)) and not any(isinstance(x, ast.Starred) for x in e.elts):
        return list(e.elts)
    parts = _union_parts(e)
    if parts:
        out = []
        for p_ in parts:
            sub = _member_elts(ctx, fis, p_, depth - 1)
            if sub is None:
                return None
            out += sub
        return out
    return None


def _not_e2e(ctx: Ctx, facts, fis=()) -> bool:
    """The facts establish that circuit.ctype is neither RP_DOWNLOADER nor RP_SEEDER (exclusion of both, or membership in /
    equality with other circuit types)."""
    types = _circuit_types(ctx)
    excluded = set()
    for f in facts:
        if norm(f.left) != "circuit.ctype" or f.right is None:
            continue
        if f.op == "in":
            elts = _member_elts(ctx, fis, f.right)
            names = {norm(x) for x in elts} if elts is not None else None
            if names is None or not names <= set(types):
                continue
            if not f.pos:
                excluded |= names
            elif not names & E2E_TYPES:
                return True
        elif f.op == "eq":
            r = norm(f.right)
            if r in types and f.pos and r not in E2E_TYPES:
                return True
            if r in types and not f.pos:
                excluded.add(r)
    return E2E_TYPES <= excluded


def rule_e2e_delivery(ctx: Ctx) -> None:
    """Data of an end-to-end (rendezvous) circuit is opaque payload for BOTH parties: it is never interpreted as IPv8 control traffic."""
    _CURRENT[0] = ctx
    od = ctx.repo.method("TunnelCommunity", "on_data", TC)
    control = ("self.on_packet_from_circuit", "self.endpoint.notify_listeners")
    sites = _sites(ctx, od, _callee(ctx, *control), _new_helper)
    ctx.anchor(sites, "control delivery in on_data")
    for s in sites:
        seen = next((norm(f.left) for f in s.facts if f.op == "truthy" and not f.pos and not isinstance(f.left, ast.Call)), None)
        ctx.check(_not_e2e(ctx, s.facts, [s.fi, od, *[g for g, _ in s.via]]), "plaintext-whitelist", s.fi, s.call,
                  "IPv8-shaped data is interpreted as control traffic only on circuits that are neither RP_DOWNLOADER nor RP_SEEDER",
                  f"on_data decides 'end-to-end payload' by `{seen}` instead of circuit.ctype in [RP_DOWNLOADER, RP_SEEDER]: on one side of an e2e circuit, payload that "
                  "merely looks like IPv8 is dropped, misrouted or executed as a tunnel control message instead of being delivered byte-for-byte")
    raw = _sites(ctx, od, _callee(ctx, "self.on_raw_data"), _new_helper)
    ok = len(raw) == 1 and not raw[0].call.keywords
    if ok:
        top = raw[0].via[0][1] if raw[0].via else raw[0].call          # the statement of on_data that leads to the hand-over
        want = [norm(_expand(ctx, od, ast.Name(id=x, ctx=ast.Load()), at=top)) for x in ("circuit", "origin", "data")]
        ok = [norm(_expand(ctx, raw[0].fi, a, raw[0].env, at=raw[0].call)) for a in raw[0].call.args] == want
    ctx.check(ok, "plaintext-whitelist", od, od.node,
              "other circuit data is handed to on_raw_data(circuit, origin, data) unchanged", "raw circuit data is not delivered unchanged")


def _absent_from_circuits_edge(ctx: Ctx, fi: FuncInfo, env, n, lab, key: str) -> bool:
    """The edge establishes that `key` is not the id of an own circuit: `key not in self.circuits`, `not self.circuits.get(key)`."""
    f = fact_of(n.ast, lab)
    if f.op == "in" and not f.pos:
        r = _xchain(ctx, fi, f.right, env)
        return r in ("self.circuits", "self.circuits.keys()") and norm(_expand(ctx, fi, f.left, env)) == key
    if (f.op == "truthy" and not f.pos) or (f.op == "is" and f.pos and isinstance(f.right, ast.Constant) and f.right.value is None):
        c = f.left
        if isinstance(c, ast.Name) and _bindings(fi, c.id) == 1:
            c = resolve(fi, c)
        return isinstance(c, ast.Call) and chain(c.func) == "self.circuits.get" and bool(c.args) \
            and norm(_expand(ctx, fi, c.args[0], env)) == key
    return False


def _install_guarded(ctx: Ctx, caller: FuncInfo, call: ast.Call, helper: FuncInfo, slot: ast.AST) -> bool:
    """The call of `helper` (which stores an exit socket under `slot`) is dominated in `caller` by `<slot> not in self.circuits`."""
    try:
        env = _bind(ctx, caller, call, helper, None)
    except AnalysisError:
        return False
    key_expr = _expand(ctx, helper, slot, env)
    key = norm(key_expr)
    guard = _MustPass(ctx, subject=names_in(key_expr),
                      good_edge=lambda f, e, cfg, cn, lab: _absent_from_circuits_edge(ctx, f, e, cn, lab, key))
    return guard.holds_at(caller, call)


def rule_key_selection(ctx: Ctx) -> None:
    """
    incoming_crypto / outgoing_crypto pick the key set of a cell by looking its circuit id up in the routing tables, exit sockets
    before own circuits.  The id of an own circuit must therefore never also become the id of an exit socket: whoever gets a
    `create` accepted under that id (e.g. the first hop, which knows the id) negotiates fresh exit keys, and cells authenticated
    with those keys alone are then decrypted, accepted and delivered as data of the victim circuit, while the circuit's genuine
    return traffic no longer decrypts.  Necessary condition: every installation of an exit socket is dominated by the fact that
    the id is not in self.circuits.
    """
    _CURRENT[0] = ctx
    repo = ctx.repo
    n = 0
    for m in repo.modules.values():
        if not m.relpath.startswith("ipv8/messaging/anonymization/"):
            continue
        for node in ast.walk(m.tree):
            # an entry is stored: `t[k] = v`, `t.setdefault(k, v)`, `t.__setitem__(k, v)`, `t.update({k: v, ...})`
            keys = []
            if isinstance(node, ast.Subscript) and isinstance(node.ctx, ast.Store) and (chain(node.value) or "").endswith("exit_sockets"):
                keys = [node.slice]
            elif isinstance(node, ast.Call) and isinstance(node.func, ast.Attribute) and (chain(node.func.value) or "").endswith("exit_sockets"):
                if node.func.attr in ("setdefault", "__setitem__") and node.args:
                    keys = [node.args[0]]
                elif node.func.attr == "update":
                    d = node.args[0] if len(node.args) == 1 and not node.keywords else None
                    if not (isinstance(d, ast.Dict) and all(k is not None for k in d.keys)):
                        raise AnalysisError(f"undecided: entries stored by `{norm(node)[:80]}`")
                    keys = list(d.keys)
            fi = repo.function_of(node) if keys else None
            if fi is None:
                continue
            for slot in keys:
                n += 1
                key = norm(_expand(ctx, fi, slot, at=node))
                subj = names_in(_expand(ctx, fi, slot, at=node)) | names_in(slot)
                guard = _MustPass(ctx, subject=subj,
                                  good_edge=lambda f, env, cfg, cn, lab, key=key: _absent_from_circuits_edge(ctx, f, env, cn, lab, key))
                st = enclosing_stmt(node)
                ok = guard.holds_at(fi, st)
                if not ok:
                    # the function carries a new private decorator whose wrapper establishes the fact before it runs the body
                    base = _expand(ctx, fi, slot, None, at=node)
                    stable = all((is_param(fi, nm) and _bindings(fi, nm) == 1) or nm == "self" for nm in names_in(base))
                    for wfi, wc, wenv in (_decorator_wrappers(ctx, fi) if stable else []):
                        wkey_expr = _expand(ctx, fi, slot, wenv, at=node)
                        if not all(is_param(wfi, nm) and _bindings(wfi, nm) == 1 for nm in names_in(wkey_expr)):
                            continue
                        wkey = norm(wkey_expr)
                        wguard = _MustPass(ctx, subject=names_in(wkey_expr),
                                           good_edge=lambda f, env, cfg, cn, lab, key=wkey: _absent_from_circuits_edge(ctx, f, env, cn, lab, key))
                        if wguard.holds_at(wfi, wc):
                            ok = True
                if not ok and _is_new(fi):
                    # the store lives in a helper of a later change: the id is established to be free before the helper is entered
                    sites = [(c_fi, c) for _, c_fi, c in _callers(ctx, fi.name)]
                    ok = bool(sites) and all(c_fi is not None and _install_guarded(ctx, c_fi, c, fi, slot) for c_fi, c in sites)
                ctx.check(ok, "key-selection", fi, st,
                          f"{fi.qualname}: exit socket installed only under an id that is not the id of an own circuit",
                          f"{fi.qualname} installs an exit socket for circuit id `{norm(slot)}` without having established that the id is not in "
                          "self.circuits: incoming_crypto prefers the exit-socket entry, so cells authenticated only with the new exit keys are "
                          "accepted and delivered as data of the own circuit with that id (injection without the circuit's session keys)")
    ctx.floor("key-selection", n, 1)


def rule_emitters(ctx: Ctx) -> None:
    _CURRENT[0] = ctx
    repo = ctx.repo
    allowed_tb = {"PythonCryptoEndpoint.send_cell", "PythonCryptoEndpoint.relay_cell", "PythonCryptoEndpoint.process_cell"}
    n = 0
    for m, fi, c in _callers(ctx, "to_bin"):
        if fi is None or not fi.module.relpath.startswith("ipv8/messaging/anonymization/"):
            continue
        n += 1
        ctx.check(_allowed_member(ctx, fi, allowed_tb), "cell-emitters", fi, c, f"to_bin called in {fi.qualname}",
                  "a wire cell is serialised outside send_cell/relay_cell/process_cell (crypto step bypassed)")
    ctx.floor("cell-emitters", n, 3)
    for m, fi, c in _callers(ctx, "send_cell"):
        if fi is None:
            continue
        ch = chain(c.func) or ""
        if ch.endswith("crypto_endpoint.send_cell"):
            ctx.check(_allowed_member(ctx, fi, {"TunnelCommunity.send_cell"}), "cell-emitters", fi, c, "crypto_endpoint.send_cell only from TunnelCommunity.send_cell",
                      "the crypto endpoint is asked to send a cell whose plaintext flag was not derived by TunnelCommunity.send_cell")
    # TunnelCommunity.send_cell strips the circuit id ([4:]) and prepends the msg id
    sc = repo.method("TunnelCommunity", "send_cell", TC)
    cells = _sites(ctx, sc, _callee(ctx, "CellPayload"), _new_helper)
    ok = len(cells) == 1 and arg(cells[0].call, 0, "circuit_id") is not None and \
        norm(_expand(ctx, cells[0].fi, arg(cells[0].call, 0, "circuit_id"), cells[0].env, at=cells[0].call)) == "payload.circuit_id"
    ctx.check(ok, "cell-emitters", sc, sc.node, "cell header carries the payload's circuit id", "cell header circuit id differs from the payload's")
    # endpoint.send inside the crypto endpoint only in send_cell / relay_cell
    ce = repo.cls("PythonCryptoEndpoint", CR)
    for fi in ce.methods.values():
        for c in calls(fi, "self.endpoint.send"):
            ctx.check(_allowed_member(ctx, fi, {"PythonCryptoEndpoint.send_cell", "PythonCryptoEndpoint.relay_cell"}), "cell-emitters", fi, c, f"raw send in {fi.name}",
                      "the crypto endpoint sends bytes outside send_cell/relay_cell")


EP = "ipv8/messaging/anonymization/endpoint.py"


def _still_param(ctx: Ctx, fi: FuncInfo, e: ast.AST | None, at: ast.AST) -> str | None:
    """Name of the parameter of fi whose value expression e has when `at` runs: e is the bare parameter and no re-binding of the
    name reaches `at` on any path."""
    e = strip_cast(e) if e is not None else None
    if not isinstance(e, ast.Name) or not is_param(fi, e.id):
        return None
    if _reaching_defs(ctx, fi, e.id, ctx.cfg(fi).nodes_for(at)):
        return None
    return e.id


def _hands_over(ctx: Ctx, root: FuncInfo, s: _Site, pairs) -> bool:
    """Site s (in root or in a helper root calls directly) passes root's own parameters: pairs = [(argument, parameter of root)]."""
    if len(s.via) > 1:
        return False
    for a, want in pairs:
        if a is None:
            return False
        if not s.via:
            if _still_param(ctx, root, a, s.call) != want:
                return False
        else:
            p = _still_param(ctx, s.fi, a, s.call)
            bound = (s.env or {}).get(p) if p else None
            if not (isinstance(bound, ast.Name) and bound.id == want and is_param(root, want)
                    and not _reaching_defs(ctx, root, want, ctx.cfg(root).nodes_for(s.via[0][1]))):
                return False
    return True


def _is_generator(t: FuncInfo) -> bool:
    return any(isinstance(n, (ast.Yield, ast.YieldFrom)) for n in walk_no_nested(t.node))


class _HandOver:
    """
    Follows the VALUES of the two parameters (address, packet) of TunnelEndpoint.send along every path - through copies, tuples,
    `*tuple` arguments, local closures and new helper methods - and records per path whether the pair itself was handed over
    (send_data(..., address, ..., packet), queued as (address, packet), or sent directly) and whether some other value was tunnelled.
    Values: ('param', name) | ('tuple', (values...)) | None (anything else).  The state space is finite, loops are walked to a fixpoint.
    """

    def __init__(self, ctx: Ctx, root: FuncInfo) -> None:
        self.ctx, self.root = ctx, root
        self.addr, self.pkt = ("param", root.params()[1]), ("param", root.params()[2])
        self.handed_sites: list = []
        self.calls_by_id: dict = {}
        self.lost: list = []          # places where a value that carries the caller's packet went out of sight (-> undecided, never "not sent")
        self._memo: dict = {}

    def run(self) -> set:
        env = {p: ("param", p) for p in self.root.params()}
        return self.walk(self.root.node, self.root, env, 3)

    def aeval(self, e, env, fi: FuncInfo | None = None):
        e = strip_cast(e)
        if isinstance(e, ast.Name):
            return env.get(e.id)
        if isinstance(e, (ast.Tuple, ast.List)) and not any(isinstance(x, ast.Starred) for x in e.elts):
            return ("tuple", tuple(self.aeval(x, env, fi) for x in e.elts))
        if isinstance(e, ast.Attribute) and isinstance(e.value, ast.Name) and e.value.id == "self" and "self" in env:
            return ("attr", e.attr)                       # `queue = self.send_queue`: the object the attribute holds
        if isinstance(e, ast.Attribute) and e.attr == "send_data":
            return ("method", "send_data")                # `send_data = tunnel_community.send_data` bound early
        if isinstance(e, ast.Call) and not e.keywords and chain(e.func) in ("partial", "functools.partial") and e.args \
                and not any(isinstance(x, ast.Starred) for x in e.args) and self.aeval(e.args[0], env, fi) == ("method", "send_data"):
            return ("partial", "send_data", tuple(self.aeval(x, env, fi) for x in e.args[1:]))     # leading arguments bound early
        if isinstance(e, ast.Call) and not e.keywords and fi is not None:
            # an iterable handed on as a value (`chain(((address, packet),), self._drain(queue))` passed to a hook): its known leading
            # elements.  It may be a one-shot iterator, so the value is only kept under a name that is read exactly once (LAZY).
            c = chain(e.func)
            t = _new_helper(self.ctx, fi, e) if c not in ("iter", "list", "tuple", "chain", "itertools.chain") else None
            if c in ("iter", "list", "tuple", "chain", "itertools.chain") or (t is not None and _is_generator(t)):
                return ("lazy", self.aiter(e, env, fi))
        return None

    WRAPPERS = ("iter", "list", "tuple")                 # same elements, same order
    COMBINERS = ("iter", "list", "tuple", "chain", "itertools.chain")

    @classmethod
    def rebinding(cls, st, name: str) -> bool:
        """`x = iter(x)` / `x = list(x)` / `x = tuple(x)`: the name keeps standing for the same elements in the same order, and the
        value it stood for before is reachable through the new binding only."""
        if isinstance(st, ast.AnnAssign) and st.value is not None:
            tgs = [st.target]
        elif isinstance(st, ast.Assign):
            tgs = st.targets
        else:
            return False
        v = st.value
        return len(tgs) == 1 and isinstance(tgs[0], ast.Name) and tgs[0].id == name and isinstance(v, ast.Call) and not v.keywords \
            and chain(v.func) in cls.WRAPPERS and len(v.args) == 1 and isinstance(v.args[0], ast.Name) and v.args[0].id == name

    @classmethod
    def read_once(cls, fn, name: str) -> bool:
        skip = {id(st.value.args[0]) for st in ast.walk(fn) if cls.rebinding(st, name)}
        return sum(1 for n in ast.walk(fn) if isinstance(n, ast.Name) and n.id == name and isinstance(n.ctx, ast.Load)
                   and id(n) not in skip) == 1 and \
            not any(isinstance(n, (ast.Global, ast.Nonlocal)) and name in n.names for n in ast.walk(fn))

    def carries(self, v) -> bool:
        """The abstract value v contains one of the two parameters of TunnelEndpoint.send."""
        if v in (self.addr, self.pkt):
            return True
        return isinstance(v, tuple) and len(v) > 1 and v[0] in ("tuple", "lazy", "partial") \
            and any(self.carries(x) for x in (v[-1] if isinstance(v[-1], tuple) else ()))

    def keep(self, fn, name: str, v):
        """The abstract value to remember for `name` of function fn: a one-shot iterable only when the name is read once."""
        if isinstance(v, tuple) and v[0] == "lazy" and not self.read_once(fn, name):
            if self.carries(v):
                self.lost.append(f"`{name}` of {getattr(fn, 'name', '<lambda>')} (an iterable that is read more than once)")
            return None
        return v

    def recognised_use(self, n: ast.Name, a, fi: FuncInfo | None, closures) -> bool:
        """The read n (in statement / condition a) of a name that holds a one-shot iterable with the caller's packet in it is one
        whose effect this walker models: the iterable of a `for`, the value of an assignment, an argument of a followed function -
        directly or wrapped in iter / list / tuple / chain."""
        cur = n
        while True:
            up = parent_of(cur)
            if isinstance(up, ast.Call) and not up.keywords and cur in up.args and chain(up.func) in self.COMBINERS:
                cur = up
                continue
            break
        if cur is a:
            return isinstance(up, (ast.For, ast.AsyncFor)) and up.iter is a
        if isinstance(up, (ast.Assign, ast.AnnAssign)) and up.value is cur:
            return True
        if isinstance(up, ast.keyword):
            cur, up = up, parent_of(up)
        if isinstance(up, ast.Call) and (cur in up.args or cur in up.keywords):
            if isinstance(up.func, ast.Name) and up.func.id in closures:
                return True
            return fi is not None and _new_helper(self.ctx, fi, up) is not None
        return False

    def aiter(self, e, env, fi: FuncInfo | None = None, depth: int = 2) -> tuple:
        """The values the first iterations over expression e bind, as far as they are known: the elements of a display / known tuple,
        of chain(<known>, ...) up to its first unknown operand (a lazy iterable yields its first operand's elements first), of a
        new generator helper up to its first yield that is not reached in a straight line from its entry."""
        e = strip_cast(e)
        if isinstance(e, ast.Call) and not e.keywords:
            c = chain(e.func)
            if c in ("iter", "list", "tuple") and len(e.args) == 1 and not isinstance(e.args[0], ast.Starred):
                return self.aiter(e.args[0], env, fi, depth)
            if c in ("chain", "itertools.chain"):
                out = ()
                for a in e.args:
                    if isinstance(a, ast.Starred):
                        break
                    k = self.aiter(a, env, fi, depth)
                    out += k
                    if not self.exact(a, env):
                        break
                return out
        if isinstance(e, ast.Call) and fi is not None and depth > 0:
            t = _new_helper(self.ctx, fi, e)
            if t is not None:
                return self.produced(t, e, env, depth - 1)
            return ()
        if isinstance(e, ast.Call):
            return ()
        v = self.aeval(e, env)
        return tuple(v[1]) if isinstance(v, tuple) and v[0] in ("tuple", "lazy") else ()

    def produced(self, t: FuncInfo, call: ast.Call, env, depth: int) -> tuple:
        """Known leading elements of the iterable a call of the new helper t gives: for a generator the values of the yields reached
        in a straight line from its entry (a generator runs lazily, so what follows them is simply unknown - the loop that consumes
        it treats the later elements as unknown values); for a plain function whose body is one `return <iterable>`, those of the
        returned iterable.  A helper that itself touches the queue / send_data before its first known yield gives nothing known."""
        inner = self.bind(t.node, call, env, skip_self=len(_positional_params(t)) < len(t.node.args.posonlyargs + t.node.args.args))
        if inner is None or t.is_async:
            return ()
        henv = {"self": None, **inner}
        body = [st for st in t.node.body if not (isinstance(st, ast.Expr) and isinstance(st.value, ast.Constant))]
        is_gen = _is_generator(t)
        if not is_gen:
            if len(body) == 1 and isinstance(body[0], ast.Return) and body[0].value is not None:
                return self.aiter(body[0].value, henv, t, depth)
            return ()
        out = ()
        for st in body:
            if isinstance(st, ast.Expr) and isinstance(st.value, ast.Yield):
                if st.value.value is None or any(isinstance(x, ast.Call) for x in ast.walk(st.value.value)):
                    break
                out += (self.aeval(st.value.value, henv),)
            elif isinstance(st, ast.Expr) and isinstance(st.value, ast.YieldFrom):
                src = st.value.value
                if any(isinstance(x, ast.Call) and _new_helper(self.ctx, t, x) is None and chain(x.func) not in ("iter", "list", "tuple", "chain", "itertools.chain")
                       for x in ast.walk(src)):
                    break
                out += self.aiter(src, henv, t, depth)
                if not self.exact(src, henv):
                    break
            elif isinstance(st, (ast.Assign, ast.AnnAssign)) and st.value is not None and not any(isinstance(x, (ast.Call, ast.Yield, ast.YieldFrom, ast.Await))
                                                                                                    for x in ast.walk(st)):
                v = self.aeval(st.value, henv)
                for tg in (st.targets if isinstance(st, ast.Assign) else [st.target]):
                    for x in ast.walk(tg):
                        if isinstance(x, ast.Name):
                            henv[x.id] = None
                    if isinstance(tg, ast.Name):
                        henv[tg.id] = v
            else:
                break
        return out

    def exact(self, e, env) -> bool:
        """aiter(e) lists ALL elements of e."""
        e = strip_cast(e)
        if isinstance(e, ast.Call) and not e.keywords and chain(e.func) in ("iter", "list", "tuple") and len(e.args) == 1 \
                and not isinstance(e.args[0], ast.Starred):
            return self.exact(e.args[0], env)
        v = self.aeval(e, env)
        return isinstance(v, tuple) and v[0] == "tuple"

    def args(self, call: ast.Call, env, fi: FuncInfo | None = None) -> list | None:
        out = []
        for a in call.args:
            if isinstance(a, ast.Starred):
                v = self.aeval(a.value, env)
                if not (isinstance(v, tuple) and v[0] == "tuple"):
                    return None
                out += list(v[1])
            else:
                out.append(self.aeval(a, env, fi))
        return out

    def bind(self, fn, call: ast.Call, env, skip_self: bool, fi: FuncInfo | None = None):
        a = fn.args
        if a.vararg or a.kwarg or any(k.arg is None for k in call.keywords):
            return None
        vals = self.args(call, env, fi)
        names = [x.arg for x in a.posonlyargs + a.args][1 if skip_self else 0:]
        if vals is None:                    # `*something` that is not a known tuple: nothing is known about any parameter
            return dict.fromkeys(names)
        if len(vals) > len(names):
            return None
        out = dict(zip(names, vals))
        for k in call.keywords:
            out[k.arg] = self.aeval(k.value, env, fi)
        return {k: self.keep(fn, k, v) for k, v in out.items()}

    def event(self, call: ast.Call, fi: FuncInfo | None, env, closures, depth):
        """-> list of (handed, sent) effects of one call, or None when the call is none of our business."""
        ch = chain(call.func) or ""
        vals = self.args(call, env)
        kw = {k.arg: self.aeval(k.value, env) for k in call.keywords if k.arg}
        if isinstance(call.func, ast.Name) and env.get(call.func.id) == ("method", "send_data"):
            ch = "send_data"
        pre = env.get(call.func.id) if isinstance(call.func, ast.Name) else None
        if isinstance(pre, tuple) and pre[:2] == ("partial", "send_data"):
            ch, vals = "send_data", (None if vals is None else [*pre[2], *vals])
        if isinstance(call.func, ast.Attribute) and call.func.attr in ("append", "appendleft") and isinstance(call.func.value, ast.Name) \
                and env.get(call.func.value.id) == ("attr", "send_queue"):
            ch = "self.send_queue." + call.func.attr
        if ch.endswith(".send_data") or ch == "send_data":
            dest = kw.get("dest_address", vals[2] if vals is not None and len(vals) > 2 else None)
            data = kw.get("data", vals[4] if vals is not None and len(vals) > 4 else None)
            self.calls_by_id[id(call)] = call
            if dest == self.addr and data == self.pkt:
                if call not in self.handed_sites:
                    self.handed_sites.append(call)
                return [(True, 0)]
            return [(False, id(call))]
        if ch.endswith("send_queue.append") or ch.endswith("send_queue.appendleft"):
            return [(vals is not None and len(vals) == 1 and vals[0] == ("tuple", (self.addr, self.pkt)), 0)]
        if ch.endswith("endpoint.send") and vals is not None and vals[:2] == [self.addr, self.pkt]:
            return [(True, 0)]
        if isinstance(call.func, ast.Name) and call.func.id in closures and depth > 0:
            fn = closures[call.func.id]
            inner = self.bind(fn, call, env, skip_self=False)
            if inner is None:
                raise AnalysisError(f"undecided: arguments of the local function {fn.name} in {self.root.qualname}")
            return sorted(self.walk(fn, fi, {**env, **inner}, depth - 1, closures))
        if fi is not None and depth > 0:
            t = _new_helper(self.ctx, fi, call)
            if t is not None:
                inner = self.bind(t.node, call, env, skip_self=len(_positional_params(t)) < len(t.node.args.posonlyargs + t.node.args.args), fi=fi)
                if inner is None:
                    raise AnalysisError(f"undecided: arguments of helper {t.qualname}")
                eff = sorted(self.walk(t.node, t, {"self": None, **inner}, depth - 1))
                if _is_generator(t) and any(h or s_ for h, s_ in eff):
                    # the body of a generator runs while it is consumed, not where it is called
                    raise AnalysisError(f"undecided: generator {t.qualname} queues / tunnels packets itself")
                return eff
        return None

    def walk(self, fn, fi: FuncInfo | None, env0: dict, depth: int, outer_closures=None) -> set:
        """{(handed, sent)} over the normal exits of function fn started with the abstract environment env0."""
        from ..cfg import CFG
        key = (id(fn), tuple(sorted((k, v) for k, v in env0.items() if v is not None)))
        if key in self._memo:
            return self._memo[key]
        self._memo[key] = set()
        cfg = self.ctx.cfg(fi) if fi is not None and fi.node is fn else CFG(fn)
        closures = dict(outer_closures or {})
        freeze = lambda env: tuple(sorted((k, v) for k, v in env.items() if v is not None))  # noqa: E731
        start = (cfg.entry, freeze(env0), False, 0)
        todo, seen, out = [start], set(), set()

        def targets(t, v, env) -> None:
            if isinstance(t, ast.Name):
                env[t.id] = self.keep(fn, t.id, v)
            elif isinstance(t, (ast.Tuple, ast.List)):
                if isinstance(v, tuple) and v[0] == "lazy" and self.carries(v):
                    self.lost.append(f"an iterable unpacked into {norm(t)}")
                vs = list(v[1]) if isinstance(v, tuple) and v[0] == "tuple" and len(v[1]) == len(t.elts) else [None] * len(t.elts)
                for x, y in zip(t.elts, vs):
                    targets(x.value if isinstance(x, ast.Starred) else x, None if isinstance(x, ast.Starred) else y, env)

        while todo:
            st = todo.pop()
            if st in seen:
                continue
            seen.add(st)
            if len(seen) > 20000:
                raise AnalysisError(f"undecided: too many states while following the packet through {self.root.qualname}")
            node, fenv, handed, sent = st
            if node is cfg.exit:
                out.add((handed, sent))
                continue
            env = dict(fenv)
            effects = [(handed, sent)]
            a = node.ast
            if node.kind in ("stmt", "cond") and a is not None:
                if isinstance(a, (ast.FunctionDef, ast.AsyncFunctionDef)):
                    closures[a.name] = a
                elif not isinstance(a, (ast.ClassDef,)):
                    for x in walk_no_nested(a):
                        if isinstance(x, ast.Name) and isinstance(x.ctx, ast.Load):
                            v = env.get(x.id)
                            if isinstance(v, tuple) and v[0] == "lazy" and self.carries(v) and not self.recognised_use(x, a, fi, closures):
                                self.lost.append(f"`{x.id}` in `{head(a)}`")
                    for c in sorted((x for x in walk_no_nested(a) if isinstance(x, ast.Call)), key=lambda x: (x.end_lineno, x.end_col_offset)):
                        ev = self.event(c, fi, env, closures, depth)
                        if ev is not None:
                            effects = [(h or h2, s or s2) for h, s in effects for h2, s2 in ev]
                if isinstance(a, ast.Assign):
                    v = self.aeval(a.value, env, fi)
                    for t in a.targets:
                        targets(t, v, env)
                elif isinstance(a, ast.AnnAssign) and a.value is not None:
                    targets(a.target, self.aeval(a.value, env, fi), env)
                elif isinstance(a, (ast.AugAssign, ast.With, ast.AsyncWith, ast.Import, ast.ImportFrom, ast.Delete)):
                    for x in ast.walk(a):
                        if isinstance(x, ast.Name) and isinstance(x.ctx, (ast.Store, ast.Del)):
                            env[x.id] = None
                for x in walk_no_nested(a):
                    if isinstance(x, ast.NamedExpr):
                        env[x.target.id] = self.aeval(x.value, env)
                if isinstance(parent_of(a), (ast.For, ast.AsyncFor)) and parent_of(a).iter is a:
                    known = self.aiter(a, env, fi)
                    src = strip_cast(a)
                    while isinstance(src, ast.Call) and chain(src.func) in ("iter", "list", "tuple") and len(src.args) == 1 and not src.keywords:
                        src = strip_cast(src.args[0])
                    lazy = isinstance(src, ast.Name) and isinstance(env.get(src.id), tuple) and env.get(src.id)[0] == "lazy"
                    if lazy and any(isinstance(x, (ast.For, ast.AsyncFor, ast.While)) for x in ancestors(parent_of(a)) if x is not fn):
                        if self.carries(env.get(src.id)):
                            self.lost.append(f"`{src.id}` walked by a loop inside a loop")
                        known = ()                      # a one-shot iterable walked by a loop that may run again: later runs see the rest only
                    env[f"<iter {id(parent_of(a))}>"] = (known, 0)       # the iterable of a `for` is evaluated here, once
            for v, lab in node.succ:
                env2 = env
                if node.kind == "loop" and isinstance(a, (ast.For, ast.AsyncFor)) and lab in (True, False):
                    # the iterable was evaluated when the loop was entered: its known leading elements are remembered (with the
                    # number of iterations begun so far) under a key of the loop; the loop cannot end before they are used up
                    key = f"<iter {id(a)}>"
                    known, i = env.get(key) or (self.aiter(a.iter, env, fi), 0)
                    env2 = dict(env)
                    if lab is False:
                        if i < len(known):
                            continue
                        env2.pop(key, None)
                    else:
                        for x in ast.walk(a.target):
                            if isinstance(x, ast.Name):
                                env2[x.id] = None
                        if i < len(known):
                            targets(a.target, known[i], env2)
                        env2[key] = (known, min(i + 1, len(known)))
                if node.kind == "handler" and isinstance(a, ast.ExceptHandler) and a.name:
                    env2 = {**env, a.name: None}
                for h, s_ in (effects if lab != "exc" else [(handed, sent)]):
                    todo.append((v, freeze(env2 if lab != "exc" else dict(fenv)), h, s_))
        self._memo[key] = out
        return out


def rule_payload_conservation(ctx: Ctx) -> None:
    """
    What the application hands to the anonymising endpoint is what enters the circuit.  TunnelEndpoint.send(address, packet) either
    sends the packet directly (community not anonymised), queues (address, packet) until a circuit is ready, or passes exactly its own
    `address` and `packet` to TunnelCommunity.send_data; flushing older queued packets on the way must not replace them (a loop that
    re-binds the two names before the hand-over sends an old packet twice and the new one never).  send_data wraps its `data`
    parameter unchanged into the DataPayload it sends.
    """
    _CURRENT[0] = ctx
    repo = ctx.repo
    te = repo.method("TunnelEndpoint", "send", EP)
    if len(te.params()) != 3:
        raise AnalysisError("anchor-lost: TunnelEndpoint.send(self, address, packet)")
    walk = _HandOver(ctx, te)
    outcomes = walk.run()
    ctx.anchor(list(walk.calls_by_id), "send_data reached from TunnelEndpoint.send")
    for c in walk.handed_sites:
        ctx.check(True, "payload-conservation", te, c, "TunnelEndpoint.send passes its own (address, packet) to send_data", "")
    bad = sorted({sent for handed, sent in outcomes if sent and not handed})
    if bad and walk.lost:
        # the walker lost sight of a value that contains the caller's own (address, packet): what the unexplained send_data carries
        # may be exactly that packet
        raise AnalysisError("undecided: the iterable that carries TunnelEndpoint.send's own (address, packet) is used in a way that is "
                            "not followed: " + "; ".join(sorted(set(walk.lost))[:3]))
    for c in [walk.calls_by_id[i] for i in bad]:
        ctx.check(False, "payload-conservation", te, c, "other packets are tunnelled only on paths that also hand over the caller's own packet",
                  "TunnelEndpoint.send tunnels a packet other than the one it was given on a path that never passes its own (address, packet) "
                  "to send_data (the names are re-bound before the hand-over): the data entering the ready circuit is not the data the "
                  "application sent - an older packet leaves the exit twice and the new one never")
    if not bad:
        ctx.check(True, "payload-conservation", te, te.node, "other packets are tunnelled only on paths that also hand over the caller's own packet", "")
    sd = repo.method("TunnelCommunity", "send_data", TC)
    data_p = sd.params()[-1]
    dps = _sites(ctx, sd, _callee(ctx, "DataPayload"), _new_helper)
    ok = len(dps) == 1 and _hands_over(ctx, sd, dps[0], [(arg(dps[0].call, 3, "data"), data_p)])
    if ok:
        sent = [c for c in calls(dps[0].fi, "self.send_cell") if arg(c, 1, "payload") is not None and
                (_resolved(dps[0].fi, arg(c, 1, "payload")) is dps[0].call or arg(c, 1, "payload") is dps[0].call)]
        ok = bool(sent)
    ctx.check(ok, "payload-conservation", sd, sd.node, "send_data wraps its data parameter into the DataPayload it sends",
              "TunnelCommunity.send_data does not send a DataPayload that carries its `data` parameter unchanged")


def rule_own_circuit_sender(ctx: Ctx) -> None:
    """
    Data is treated as coming out of one of OUR circuits (delivered to the application / interpreted as control traffic, attributed
    to the origin it names) only when the sender's full socket address equals the address of the circuit's first hop.  on_data is also
    reached by plain data messages (re-dispatched by on_packet_from_circuit, or sent to our socket by anybody who knows the prefix),
    which carry no authentication of their own: a weaker test (IP only) lets a party without session keys have foreign data delivered.
    """
    _CURRENT[0] = ctx
    od = ctx.repo.method("TunnelCommunity", "on_data", TC)
    if "sock_addr" not in od.params():
        raise AnalysisError("anchor-lost: parameter sock_addr of TunnelCommunity.on_data")
    sinks = ("self.on_raw_data", "self.on_packet_from_circuit", "self.endpoint.notify_listeners")
    sites = ctx.anchor(_sites(ctx, od, _callee(ctx, *sinks), _new_helper), "own-circuit delivery in on_data")
    for s in sites:
        ok = any(f.op == "eq" and f.pos and {norm(f.left), norm(f.right)} == {"sock_addr", "circuit.hop.address"} for f in s.facts)
        ctx.check(ok, "origin-authentic", s.fi, s.call, "own-circuit data accepted only from the first hop's socket address",
                  "on_data hands data to the application as traffic of our own circuit without having established "
                  "`sock_addr == circuit.hop.address` (the full address of the first hop): data that did not come through the circuit "
                  "(no session keys needed) is delivered and attributed to the origin it claims", [str(f) for f in s.facts])


FRESH_KEY = ("generate_key", "generate")         # self.generate_key("curve25519"), OpenSSLSK.generate("curve25519"), LibNaCLSK.generate()


def _fresh_key(ctx: Ctx, fi: FuncInfo, e: ast.AST | None, at: ast.AST, depth: int = 3) -> bool:
    """e (evaluated at `at` in fi) is a key generated during this very call: a key-generation call, or a local all of whose
    reaching definitions are one (nothing read from an attribute / a cache / a parameter)."""
    e = strip_cast(e) if e is not None else None
    if e is None or depth <= 0:
        return False
    if isinstance(e, ast.NamedExpr):
        return _fresh_key(ctx, fi, e.value, at, depth)
    if isinstance(e, ast.Call):
        if call_name(e) in FRESH_KEY:
            return True
        if (call_name(e) or "")[:1].isupper() and len(e.args) == 1 and not e.keywords:      # OpenSSLSK(<freshly generated raw key>)
            return _fresh_key(ctx, fi, e.args[0], at, depth - 1)
        h = _new_helper(ctx, fi, e)
        if h is not None:
            rets = [r for r in walk_no_nested(h.node) if isinstance(r, ast.Return)]
            return bool(rets) and all(_fresh_key(ctx, h, r.value, r, depth - 1) for r in rets)
        return False
    if isinstance(e, ast.Name):
        # the variable of a comprehension / loop over a display of keys: one of the elements
        for a in ancestors(e):
            gens = a.generators if isinstance(a, (ast.ListComp, ast.SetComp, ast.GeneratorExp, ast.DictComp)) else []
            if isinstance(a, (ast.For, ast.AsyncFor)) and isinstance(a.target, ast.Name) and a.target.id == e.id:
                gens = [a]
            for g in gens:
                if isinstance(g.target, ast.Name) and g.target.id == e.id:
                    elts = _literal_elts(fi, g.iter)
                    return elts is not None and any(_fresh_key(ctx, fi, el, g.iter, depth - 1) for el in elts)
    if isinstance(e, ast.Name) and not is_param(fi, e.id):
        cfg = ctx.cfg(fi)
        nodes = cfg.nodes_for(at)
        defs = local_defs(fi, e.id)
        all_nodes = [n for st, _, _ in defs for n in cfg.nodes_for(st)]
        if not defs or not nodes or not all(cfg.must_complete(n, all_nodes) for n in nodes):
            return False
        rd = _reaching_defs(ctx, fi, e.id, nodes)
        return bool(rd) and all(v is not None and _fresh_key(ctx, fi, v, st, depth - 1) for st, v in rd)
    return False


def rule_fresh_ephemerals(ctx: Ctx) -> None:
    """
    Session keys of different circuits are unrelated only because both sides contribute a NEW ephemeral curve25519 key to every
    handshake: generate_diffie_secret returns a key pair generated in that call, and generate_diffie_shared_secret mixes a key generated
    in that call into the shared secret.  If either is cached on the instance, every circuit the same two parties build derives the
    same session keys (and nonce sequence): a cell recorded on one circuit authenticates on the other.
    """
    _CURRENT[0] = ctx
    repo = ctx.repo
    gs = repo.method("TunnelCrypto", "generate_diffie_secret", CR)
    rets = ctx.anchor([r for r in walk_no_nested(gs.node) if isinstance(r, ast.Return)], "return of generate_diffie_secret")
    for r in rets:
        v = _resolved(gs, r.value)
        first = v.elts[0] if isinstance(v, ast.Tuple) and v.elts else None
        ctx.check(_fresh_key(ctx, gs, first, r), "fresh-ephemeral-keys", gs, r, "generate_diffie_secret returns a key generated in this call",
                  "generate_diffie_secret does not return a key pair generated during the call (it is cached / read from the instance): "
                  "every create/extend of this node offers the same ephemeral key, so circuits through the same hop can derive identical "
                  "session keys and a cell of one circuit authenticates on another")
    ss = repo.method("TunnelCrypto", "generate_diffie_shared_secret", CR)
    dh = ctx.anchor([c for c in calls(ss) if call_name(c) == "diffie_hellman" and isinstance(c.func, ast.Attribute)], "diffie_hellman in generate_diffie_shared_secret")
    ctx.check(any(_fresh_key(ctx, ss, c.func.value, c) for c in dh), "fresh-ephemeral-keys", ss, dh[0],
              "generate_diffie_shared_secret mixes in a key generated in this call",
              "generate_diffie_shared_secret derives the shared secret only from keys that outlive the call (the ephemeral key is cached / "
              "read from the instance): with the originator's key repeated too, two circuits get identical session keys and a cell of one "
              "circuit authenticates on the other")


def _proper_part(e: ast.AST | None) -> bool:
    """e reads only a part of a bytes value: a slice with at least one bound (`x[:32]`, `x[32:]`; `r[0]` picks an element of a
    tuple result - a single byte could not be fed to the key derivation)."""
    for n in ast.walk(e) if e is not None else ():
        if isinstance(n, ast.Subscript) and isinstance(n.slice, ast.Slice) and (n.slice.lower is not None or n.slice.upper is not None or n.slice.step is not None):
            return True
    return False


def _kdf_inputs(ctx: Ctx, fi: FuncInfo, env: dict | None = None, via=(), depth: int = 2) -> list:
    """[(function, call of the key-derivation function, its input in fi's caller's terms)] for the calls of the imported
    ipv8_rust_tunnels.generate_session_keys reached from fi (directly or through new helpers)."""
    out = []
    for c in calls(fi):
        f = strip_cast(c.func)
        nm = f.id if isinstance(f, ast.Name) else f.attr if isinstance(f, ast.Attribute) else None
        imp = fi.module.imports.get(f.id) if isinstance(f, ast.Name) else None
        is_kdf = (imp is not None and imp[0] == "ipv8_rust_tunnels" and imp[1] == "generate_session_keys") or \
            (isinstance(f, ast.Attribute) and nm == "generate_session_keys" and chain(f.value) == "ipv8_rust_tunnels")
        if is_kdf:
            a = arg(c, 0, "shared_secret") if not any(isinstance(x, ast.Starred) for x in c.args) else None
            out.append((fi, c, a, env))
            continue
        t = _new_helper(ctx, fi, c)
        if t is not None and depth > 0 and t is not fi and all(t is not g for g in via):
            out.extend(_kdf_inputs(ctx, t, _bind(ctx, fi, c, t, env), (*via, fi), depth - 1))
    return out


def _dh_receivers(fi: FuncInfo, dh: list) -> list:
    """(key expression, where it is evaluated) per Diffie-Hellman application: the receiver of each `k.diffie_hellman(..)` call; a call whose
    receiver is the variable of a comprehension / for loop over a display of keys stands for one application per element."""
    out = []
    for c in dh:
        r = strip_cast(c.func.value)
        elts = None
        if isinstance(r, ast.Name):
            for a in ancestors(c):
                gens = a.generators if isinstance(a, (ast.ListComp, ast.SetComp, ast.GeneratorExp, ast.DictComp)) else []
                if isinstance(a, (ast.For, ast.AsyncFor)) and isinstance(a.target, ast.Name) and a.target.id == r.id:
                    gens = [a]
                for g in gens:
                    if elts is None and isinstance(g.target, ast.Name) and g.target.id == r.id:
                        e = _literal_elts(fi, g.iter)
                        if e is not None:
                            elts = [(el, g.iter) for el in e]
                if elts is not None:
                    break
        out.extend(elts if elts is not None else [(r, c)])
    return out


def rule_whole_secret(ctx: Ctx) -> None:
    """
    A hop's layer can be removed only by the hop the originator chose because the session keys are derived from the WHOLE handshake
    secret: the ephemeral-ephemeral Diffie-Hellman half (which anybody who answers with a fresh key can compute - it is also all that keys
    the created/extended authenticator) followed by the half computed with the hop's long-term private key.  If the key derivation is fed
    only a part of the secret, or the secret is built from keys generated in the call alone, whoever answers a create / extend (a relay
    answering an extend itself) obtains that hop's session keys: it removes a layer it must not be able to remove and reads / forges cells
    in transit.  Both ends run the same code, so honest handshakes keep working.
    """
    _CURRENT[0] = ctx
    repo = ctx.repo
    gk = repo.method("TunnelCrypto", "generate_session_keys", CR)
    if not gk.params():
        raise AnalysisError("anchor-lost: parameter shared_secret of TunnelCrypto.generate_session_keys")
    secret = gk.params()[-1]
    sites = ctx.anchor(_kdf_inputs(ctx, gk), "ipv8_rust_tunnels.generate_session_keys reached from TunnelCrypto.generate_session_keys")
    for fi, c, a, env in sites:
        x = _expand(ctx, fi, a, env, at=c) if a is not None else None
        if env is None:
            whole = a is not None and _still_param(ctx, gk, a, c) == secret
        else:
            p_ = _still_param(ctx, fi, a, c) if a is not None else None
            bound = env.get(p_) if p_ else None
            whole = isinstance(bound, ast.Name) and bound.id == secret and _bindings(gk, secret) == 1
        if not whole and not _proper_part(x):
            raise AnalysisError(f"undecided: what {fi.qualname} feeds to the key derivation (`{norm(a) if a is not None else None}`)")
        ctx.check(whole, "whole-secret-keys", fi, c, "session keys are derived from the whole shared secret",
                  f"{gk.qualname} derives the session keys from a part of the handshake secret only (`{norm(x) if x is not None else None}`): the half "
                  "computed with the hop's long-term key is no longer mixed in, so anybody who answers the create / extend with a fresh key "
                  "(a relay answering an extend itself) obtains the hop's session keys, removes its layer and reads or forges the cells in transit")
    # the callers hand over the secret the handshake produced, not a part of it
    n = 0
    for m, c_fi, c in _callers(ctx, "generate_session_keys"):
        if c_fi is None or c_fi is gk or c_fi in [g for g, _, _, _ in sites] or not isinstance(c.func, ast.Attribute) or not m.relpath.startswith("ipv8/messaging/anonymization/"):
            continue
        n += 1
        a = arg(c, 0, "shared_secret")
        x = _expand(ctx, c_fi, a, None, at=c) if a is not None else None
        ctx.check(x is not None and not _proper_part(x), "whole-secret-keys", c_fi, c, f"{c_fi.name}: the whole handshake secret is expanded into session keys",
                  f"{c_fi.qualname} expands only a part of the handshake secret (`{norm(x) if x is not None else None}`) into session keys: the half bound to "
                  "the hop's long-term key is dropped, so the party answering the handshake need not own that key to obtain the layer's keys")
    ctx.floor("whole-secret-keys.callers", n, 1)
    # the responder's secret contains a Diffie-Hellman result computed with a key that was NOT generated in the call (its identity key)
    ss = repo.method("TunnelCrypto", "generate_diffie_shared_secret", CR)
    dh = ctx.anchor([c for c in calls(ss) if call_name(c) == "diffie_hellman" and isinstance(c.func, ast.Attribute)], "diffie_hellman in generate_diffie_shared_secret")
    recv = _dh_receivers(ss, dh)
    ctx.check(len(recv) >= 2 and any(not _fresh_key(ctx, ss, r, at) for r, at in recv), "whole-secret-keys", ss, dh[0],
              "generate_diffie_shared_secret mixes in the long-term key of the hop",
              "generate_diffie_shared_secret computes the shared secret from keys generated in the call alone: the session keys are no longer "
              "bound to the identity of the hop the originator selected")


def rule_single_entry(ctx: Ctx) -> None:
    """
    Every cell reaches the community through the crypto endpoint, which removes / authenticates the layers: the PythonCryptoEndpoint is
    built over the community's own endpoint (`self.endpoint`, ALL of its interfaces), and setup_tunnels takes the community off that
    endpoint as a direct listener and registers the crypto endpoint instead.  Built over a part of the endpoint (one interface of a
    dispatcher), the community stays a direct listener on the other interfaces: a raw cell arriving there goes straight to
    on_cell and its handlers - never decrypted, never authenticated.
    """
    _CURRENT[0] = ctx
    repo = ctx.repo
    init = repo.method("TunnelCommunity", "__init__", TC)
    sites = ctx.anchor(_sites(ctx, init, _callee(ctx, "PythonCryptoEndpoint"), _new_helper), "PythonCryptoEndpoint(...) in TunnelCommunity.__init__")
    known = {id(s.call) for s in sites}
    for s in sites:
        a = arg(s.call, 0, "endpoint")
        got = _xchain(ctx, s.fi, a, s.env, at=s.call) if a is not None else None
        ctx.check(got == "self.endpoint", "single-entry", s.fi, s.call, "the crypto endpoint wraps the community's own endpoint (self.endpoint)",
                  f"TunnelCommunity builds its PythonCryptoEndpoint over `{norm(a) if a is not None else None}` instead of its own endpoint "
                  "`self.endpoint`: setup_tunnels() then replaces the community as listener only there, the community stays a direct "
                  "listener on every other interface of self.endpoint, and a cell arriving on one of those is handled without being "
                  "decrypted or authenticated (injection without the session keys)")
    for m, fi, c in _callers(ctx, "PythonCryptoEndpoint"):
        if fi is not None and id(c) not in known and isinstance(c.func, ast.Name):
            ctx.check(False, "single-entry", fi, c, "PythonCryptoEndpoint constructed in TunnelCommunity.__init__ only",
                      "a PythonCryptoEndpoint is constructed outside TunnelCommunity.__init__: which endpoint it guards is not checked")
    st = repo.method("PythonCryptoEndpoint", "setup_tunnels", CR)
    comm = st.params()[1] if len(st.params()) > 1 else None
    removed = [s for s in _sites(ctx, st, _callee(ctx, "self.endpoint.remove_listener"), _helper)
               if s.call.args and norm(_expand(ctx, s.fi, s.call.args[0], s.env, at=s.call)) == comm]
    added = [s for s in _sites(ctx, st, _callee(ctx, "self.endpoint.add_prefix_listener", "self.endpoint.add_listener"), _helper)
             if s.call.args and norm(_expand(ctx, s.fi, s.call.args[0], s.env, at=s.call)) == "self"]
    ctx.check(bool(removed) and bool(added), "single-entry", st, st.node,
              "setup_tunnels replaces the community by the crypto endpoint as listener of the wrapped endpoint",
              "setup_tunnels no longer takes the community off the wrapped endpoint / no longer registers the crypto endpoint on it: "
              "cells reach the community without passing the crypto endpoint")


def _module_is_new(ctx: Ctx, m) -> bool:
    import os
    root = getattr(ctx.repo, "root", "/repo")
    return m.relpath.startswith("ipv8/") and not os.path.exists(os.path.join(root, m.relpath))


def rule_public_dispatch(ctx: Ctx) -> None:
    """
    The tunnel community's PUBLIC dispatcher (Community.on_packet: public decode map, which holds the raw cell handler on_cell under
    message id 0) is entered from the crypto endpoint only: PythonCryptoEndpoint.on_packet hands on packets that are not cells, and
    process_cell hands on cells whose layers it has just removed / authenticated.  on_cell and the handlers behind it rely on that -
    they never look at keys.  Any other function of the anonymisation package that hands bytes to on_packet - in particular bytes that
    came OUT of a circuit or in through an exit socket (on_packet_from_circuit, on_raw_data, on_data), whose content the far side
    chooses freely - lets a party without the session keys have a cell of its own making handled as if it had arrived authenticated
    on the circuit it names.
    """
    _CURRENT[0] = ctx
    allowed = {"PythonCryptoEndpoint.on_packet", "PythonCryptoEndpoint.process_cell"}
    n = 0
    for m in ctx.repo.modules.values():
        if not (m.relpath.startswith("ipv8/messaging/anonymization/") or _module_is_new(ctx, m)):
            continue
        for x in ast.walk(m.tree):
            if not (isinstance(x, ast.Attribute) and x.attr == "on_packet" and isinstance(x.ctx, ast.Load)):
                continue
            fi = ctx.repo.function_of(x)
            n += 1
            ctx.check(_allowed_member(ctx, fi, allowed), "public-dispatch", fi if fi is not None else m.relpath, x,
                      f"on_packet referenced in {fi.qualname if fi is not None else m.relpath}",
                      f"{fi.qualname if fi is not None else m.relpath} hands a packet to the public dispatcher on_packet (or passes that "
                      "method on) outside PythonCryptoEndpoint.on_packet / process_cell: the public decode map contains the raw cell handler "
                      "on_cell, which trusts that the crypto endpoint has removed and authenticated the layers - bytes dispatched this way "
                      "(data that came out of a circuit or through an exit socket is chosen by the far side) are executed as a cell of the "
                      "circuit they name without any session key having been involved: foreign data is delivered")
    ctx.floor("public-dispatch", n, 1)


_MUTABLE_CTORS = {"list", "dict", "set", "deque", "collections.deque", "defaultdict", "collections.defaultdict", "OrderedDict",
                  "collections.OrderedDict", "bytearray", "Counter", "collections.Counter"}
_MUTATORS = {"append", "appendleft", "extend", "extendleft", "insert", "add", "update", "setdefault", "pop", "popleft", "popitem", "remove",
             "discard", "clear", "sort", "reverse", "rotate", "__setitem__", "__delitem__"}


def rule_per_circuit_state(ctx: Ctx) -> None:
    """
    State that belongs to one circuit / exit socket / relay route lives in the instance.  A container bound at class level and changed
    through `self.<attr>` (never re-bound per instance) is ONE object shared by every instance of the process: packets queued for one
    exit socket are flushed through another one's socket, so data leaves under the wrong circuit and the reply is attributed (and
    tunnelled back) to the wrong origin.
    """
    _CURRENT[0] = ctx
    n = 0
    for m in ctx.repo.modules.values():
        if not m.relpath.startswith("ipv8/messaging/anonymization/"):
            continue
        for ci in m.classes.values():
            n += 1
            family = [ci, *ci.all_subclasses()]
            for attr, v in ci.attrs.items():
                v = strip_cast(v)
                mutable = isinstance(v, (ast.List, ast.Dict, ast.Set, ast.ListComp, ast.DictComp, ast.SetComp)) or \
                    (isinstance(v, ast.Call) and chain(v.func) in _MUTABLE_CTORS)
                if not mutable:
                    continue
                # re-bound for every instance by a constructor of the class (or, for a subclass, of that subclass)
                def rebinds(c) -> bool:
                    return any(isinstance(x, ast.Attribute) and x.attr == attr and isinstance(x.ctx, ast.Store) and chain(x.value) == "self"
                               for k in c.mro() if "__init__" in k.methods for x in ast.walk(k.methods["__init__"].node))
                changed = []
                for c in family:
                    if rebinds(c):
                        continue
                    for g in c.methods.values():
                        for x in ast.walk(g.node):
                            if not (isinstance(x, ast.Attribute) and x.attr == attr and chain(x.value) == "self"):
                                continue
                            p_ = parent_of(x)
                            if (isinstance(p_, ast.Attribute) and p_.attr in _MUTATORS and isinstance(parent_of(p_), ast.Call) and parent_of(p_).func is p_) or \
                                    (isinstance(p_, ast.Subscript) and p_.value is x and isinstance(p_.ctx, (ast.Store, ast.Del))) or \
                                    (isinstance(p_, ast.AugAssign) and p_.target is x):
                                changed.append((g, enclosing_stmt(x)))
                for g, st_ in changed[:1]:
                    ctx.check(False, "per-circuit-state", g, st_, f"{ci.name}.{attr} is per-instance state",
                              f"{ci.name}.{attr} is bound once at class level to a mutable container (`{norm(v)[:60]}`) and changed through "
                              f"`self.{attr}` in {g.qualname} without being re-bound per instance: every {ci.name} of the process shares the one "
                              "container, so what is stored for one circuit is taken out (sent / delivered / attributed) by another")
    ctx.floor("per-circuit-state.classes", n, 10)


def _refs_understood(ctx: Ctx) -> None:
    """Every mention of self.encrypt_cell / self.decrypt_cell that is not a direct call was consumed by a rule as (part of) a
    callable picked at run time; otherwise the steps it stands for were not compared with the protocol table: no verdict."""
    for c_fi, node in getattr(ctx, "_c04_refs", []):
        if id(node) not in _used(ctx):
            raise AnalysisError(f"undecided: how {c_fi.qualname if c_fi is not None else 'a shared table'} uses the reference `{norm(node)}`")


# ------------------------------------------------------------------ private context managers -> try/except (scoped to this check)
# The control-flow graph treats `with` as transparent, so a context manager of the analysed tree that catches / converts / swallows the
# exceptions of its block (a class with __enter__/__exit__, a @contextmanager generator) hides where control continues after a failed
# crypto step.  Before the rules run, every such `with` whose manager is DEFINED IN THE ANALYSED TREE and simple enough is rewritten into
# the statements Python executes for it (PEP 343): constructor / __enter__ body, `try: BLOCK except E as exc: <__exit__ body>`; for a
# generator the block is put in the place of its single `yield`.  A manager object that does not escape (used only as `v.attr`) is
# replaced by one local per attribute.  Every step is an exact program transformation, and anything outside the understood shapes is
# left untouched.  The rewrite is undone when the check has run (syntax trees are shared between checks and cached between variants).

_CM_DECOS = {"contextmanager": False, "contextlib.contextmanager": False, "asynccontextmanager": True, "contextlib.asynccontextmanager": True}
_CM_BASES = {"object", "AbstractContextManager", "contextlib.AbstractContextManager", "ContextManager", "typing.ContextManager", "Generic"}


class _Bail(Exception):
    """this `with` is not of an understood shape: leave it as it is"""


class _Journal:
    def __init__(self) -> None:
        self.log: list = []

    def set_list(self, lst: list, new: list) -> None:
        self.log.append(("list", lst, list(lst)))
        lst[:] = new

    def set_field(self, node: ast.AST, name: str, value) -> None:
        self.log.append(("field", node, name, getattr(node, name)))
        setattr(node, name, value)

    def set_parent(self, node: ast.AST, p) -> None:
        self.log.append(("parent", node, getattr(node, "_parent", None)))
        node._parent = p  # type: ignore[attr-defined]

    def undo(self) -> None:
        for e in reversed(self.log):
            if e[0] == "list":
                e[1][:] = e[2]
            elif e[0] == "field":
                setattr(e[1], e[2], e[3])
            else:
                e[1]._parent = e[2]
        self.log.clear()


def _block_holding(st: ast.AST):
    p = getattr(st, "_parent", None)
    if p is None:
        return None
    for f in ("body", "orelse", "finalbody"):
        lst = getattr(p, f, None)
        if isinstance(lst, list) and any(x is st for x in lst):
            return lst
    return None


def _adopt(j: _Journal, new: ast.AST, p: ast.AST, reused=()) -> None:
    """parent links of a statement built from new nodes and the (re-used, not copied) statements `reused`"""
    from ..model import set_parents
    for r in reused:
        j.log.append(("parent", r, getattr(r, "_parent", None)))
    set_parents(new)
    new._parent = p  # type: ignore[attr-defined]


def _replace_child(j: _Journal, old: ast.AST, new: ast.AST) -> None:
    p = getattr(old, "_parent", None)
    if p is None:
        raise _Bail
    for f in p._fields:
        v = getattr(p, f, None)
        if v is old:
            j.set_field(p, f, new)
            break
        if isinstance(v, list) and any(x is old for x in v):
            j.set_list(v, [new if x is old else x for x in v])
            break
    else:
        raise _Bail
    new._parent = p  # type: ignore[attr-defined]
    ast.copy_location(new, old)


def _names_of(fn: ast.AST) -> set:
    out = {n.id for n in ast.walk(fn) if isinstance(n, ast.Name)}
    out |= {a.arg for n in ast.walk(fn) if isinstance(n, ast.arguments) for a in [*n.posonlyargs, *n.args, *n.kwonlyargs, n.vararg, n.kwarg] if a is not None}
    out |= {n.name for n in ast.walk(fn) if isinstance(n, ast.ExceptHandler) and n.name}
    return out


def _no_doc(stmts: list) -> list:
    return [s for s in stmts if not (isinstance(s, ast.Expr) and isinstance(s.value, ast.Constant) and isinstance(s.value.value, str))
            and not isinstance(s, ast.Pass)]


def _escaping_jump(stmts: list) -> bool:
    """a return, or a break / continue that leaves the statements"""
    def visit(n, in_loop: bool) -> bool:
        if isinstance(n, ast.Return):
            return True
        if isinstance(n, (ast.Break, ast.Continue)):
            return not in_loop
        if isinstance(n, (ast.FunctionDef, ast.AsyncFunctionDef, ast.ClassDef, ast.Lambda)):
            return False
        loop = in_loop or isinstance(n, (ast.For, ast.AsyncFor, ast.While))
        return any(visit(c, loop) for c in ast.iter_child_nodes(n))
    return any(visit(s, False) for s in stmts)


def _bind_call(call: ast.Call, params: list, defaults: dict, stores_in_block: set, prefix: str, taken: set, immediate: bool = False, nonlocal_user: bool = True):
    """({param: expression to put in its place}, [temp assignments]) for the call's arguments; exact evaluation order and time.
    immediate: the parameters are only read by statements that run at once (a constructor body of plain stores), so a pure
    argument can stand in their place; otherwise only constants and names the block does not re-bind can."""
    if any(isinstance(a, ast.Starred) for a in call.args) or any(k.arg is None for k in call.keywords) or len(call.args) > len(params):
        raise _Bail
    given: dict = dict(zip(params, call.args))
    for k in call.keywords:
        if k.arg in given or k.arg not in params:
            raise _Bail
        given[k.arg] = k.value
    order = [*given.items()]
    for p in params:
        if p not in given:
            if p not in defaults or not isinstance(defaults[p], ast.Constant):
                raise _Bail
            order.append((p, defaults[p]))
    def direct(e: ast.AST) -> bool:
        if immediate:
            return _is_pure_alias(e) and not any(isinstance(n, ast.Call) for n in ast.walk(e))
        return isinstance(e, ast.Constant) or (isinstance(e, ast.Name) and e.id not in stores_in_block)
    # a local name keeps its value until a statement of the user re-binds it (no call can), a constant always; a pure attribute
    # chain is read in place only when nothing with an effect is evaluated among the arguments
    all_direct = all(direct(e) for _, e in order)
    mapping, temps = {}, []
    for p, e in order:
        if isinstance(e, ast.Constant) or (isinstance(e, ast.Name) and e.id not in stores_in_block and not nonlocal_user) or (all_direct and direct(e)):
            mapping[p] = clone(e)
            continue
        t = f"{prefix}__arg_{p}"
        if t in taken:
            raise _Bail
        taken.add(t)
        a = ast.Assign(targets=[ast.Name(id=t, ctx=ast.Store())], value=clone(e), lineno=call.lineno, col_offset=call.col_offset)
        temps.append(ast.fix_missing_locations(a))
        mapping[p] = ast.Name(id=t, ctx=ast.Load())
    return mapping, temps


class _Xlate(ast.NodeTransformer):
    """copy of a manager's statements as they run inside the user: parameters -> arguments, self.X -> local, own locals kept apart"""

    def __init__(self, mapping: dict, selfname: str | None, attr_local, rename: dict) -> None:
        self.mapping, self.selfname, self.attr_local, self.rename = mapping, selfname, attr_local, rename

    def visit_Attribute(self, n: ast.Attribute):  # noqa: N802
        if self.selfname is not None and isinstance(n.value, ast.Name) and n.value.id == self.selfname and self.selfname not in self.mapping:
            return ast.copy_location(ast.Name(id=self.attr_local(n.attr), ctx=n.ctx), n)
        return self.generic_visit(n)

    def visit_Name(self, n: ast.Name):  # noqa: N802
        if n.id in self.mapping:
            if not isinstance(n.ctx, ast.Load):
                raise _Bail
            return ast.copy_location(clone(self.mapping[n.id]), n)
        if self.selfname is not None and n.id == self.selfname:
            raise _Bail                                  # the manager object itself is used (escapes)
        if n.id in self.rename:
            return ast.copy_location(ast.Name(id=self.rename[n.id], ctx=n.ctx), n)
        return n

    def visit_ExceptHandler(self, n: ast.ExceptHandler):  # noqa: N802
        self.generic_visit(n)
        if n.name in self.mapping:
            raise _Bail
        if n.name in self.rename:
            n.name = self.rename[n.name]
        return n

    def visit_FunctionDef(self, n):  # noqa: N802
        raise _Bail

    visit_AsyncFunctionDef = visit_Lambda = visit_ClassDef = visit_Global = visit_Nonlocal = visit_FunctionDef  # noqa: N815


def _own_locals(fn: ast.AST, params: list) -> set:
    out = {n.id for n in ast.walk(fn) if isinstance(n, ast.Name) and isinstance(n.ctx, (ast.Store, ast.Del))}
    out |= {n.name for n in ast.walk(fn) if isinstance(n, ast.ExceptHandler) and n.name}
    return out - set(params)


def _xlate(stmts: list, mapping: dict, selfname, attr_local, rename: dict) -> list:
    x = _Xlate(mapping, selfname, attr_local, rename)
    return [x.visit(clone(s)) for s in _no_doc(stmts)]


def _plain_params(fn: ast.AST):
    a = fn.args
    if a.vararg or a.kwarg or a.kwonlyargs:
        raise _Bail
    ps = [x.arg for x in a.posonlyargs + a.args]
    defaults = dict(zip(ps[len(ps) - len(a.defaults):], a.defaults))
    return ps, defaults


# ---- generator managers
def _yield_path(fn: ast.AST):
    """[(block list, index)] from the function body down to the single `yield` statement; None if the shape is not understood"""
    ys = [n for n in ast.walk(fn) if isinstance(n, (ast.Yield, ast.YieldFrom))]
    if len(ys) != 1 or isinstance(ys[0], ast.YieldFrom) or any(isinstance(n, ast.Return) for n in ast.walk(fn)):
        return None
    def find(block: list):
        for i, s in enumerate(block):
            if isinstance(s, ast.Expr) and s.value is ys[0]:
                return [(block, i)]
            if isinstance(s, ast.Try) and not isinstance(s, getattr(ast, "TryStar", ())):
                sub = find(s.body)
                if sub is not None:
                    return [(block, i), *sub]
            if isinstance(s, ast.With):
                sub = find(s.body)
                if sub is not None:
                    return [(block, i), *sub]
        return None
    return find(fn.body)


def _inline_generator(cmf: FuncInfo, call: ast.Call, target, block: list, user: ast.AST, selfmap: dict, prefix: str, taken: set):
    fn = cmf.node
    path = _yield_path(fn)
    if path is None:
        raise _Bail
    # statements that run after the block completed normally must also run when the block leaves by return / break / continue
    if _escaping_jump(block):
        for blk, i in path:
            owner = blk[i]
            if _no_doc(blk[i + 1:]) or (isinstance(owner, ast.Try) and owner.orelse):
                raise _Bail
    params, defaults = _plain_params(fn)
    if selfmap:
        params = params[1:]
    stores = {n.id for s in block for n in ast.walk(s) if isinstance(n, ast.Name) and isinstance(n.ctx, (ast.Store, ast.Del))}
    mapping, temps = _bind_call(call, params, defaults, stores, prefix, taken, nonlocal_user=any(isinstance(n, ast.Nonlocal) for n in ast.walk(user)))
    mapping.update(selfmap)
    rename = {}
    for nm in sorted(_own_locals(fn, [*params, *selfmap])):
        if nm in taken:
            rename[nm] = f"{prefix}__{nm}"
            if rename[nm] in taken:
                raise _Bail
        taken.add(rename.get(nm, nm))
    body = _xlate(fn.body, mapping, None, None, rename)
    # locate the copied yield statement and put the block there
    ys = [n for s in body for n in ast.walk(s) if isinstance(n, ast.Expr) and isinstance(n.value, ast.Yield)]
    if len(ys) != 1:
        raise _Bail
    y = ys[0]
    put = []
    if target is not None:
        if y.value.value is None:
            raise _Bail
        put.append(ast.copy_location(ast.Assign(targets=[target], value=y.value.value), call))
    elif y.value.value is not None and not isinstance(y.value.value, (ast.Constant, ast.Name)):
        put.append(ast.copy_location(ast.Expr(value=y.value.value), call))
    put.extend(block)
    def place(stmts: list) -> bool:
        for i, s in enumerate(stmts):
            if s is y:
                stmts[i:i + 1] = put
                return True
            if isinstance(s, (ast.Try, ast.With)) and place(s.body):
                return True
        return False
    if not place(body):
        raise _Bail
    return [*temps, *body]


# ---- class managers
def _fold_bool(e: ast.AST, known) -> ast.AST:
    """e with the sub-expressions whose value `known(expr) -> True / False / None` tells replaced, and and/or/not simplified"""
    k = known(e)
    if k is not None:
        return ast.copy_location(ast.Constant(value=k), e)
    if isinstance(e, ast.UnaryOp) and isinstance(e.op, ast.Not):
        x = _fold_bool(e.operand, known)
        if isinstance(x, ast.Constant):
            return ast.copy_location(ast.Constant(value=not x.value), e)
        return ast.copy_location(ast.UnaryOp(op=ast.Not(), operand=x), e)
    if isinstance(e, ast.BoolOp):
        is_and = isinstance(e.op, ast.And)
        vals = []
        for v in e.values:
            x = _fold_bool(v, known)
            if isinstance(x, ast.Constant) and isinstance(x.value, bool):
                if x.value is (not is_and):          # False in `and` / True in `or`: decided here (nothing impure was dropped before:
                    if not vals:                      # only when it is the first operand still standing)
                        return x
                    vals.append(x)
                    break
                continue                              # neutral element
            vals.append(x)
        if not vals:
            return ast.copy_location(ast.Constant(value=is_and), e)
        if len(vals) == 1:
            return vals[0]
        return ast.copy_location(ast.BoolOp(op=e.op, values=vals), e)
    return e


def _fold_stmts(stmts: list, known) -> list:
    out = []
    for s in stmts:
        if isinstance(s, ast.If):
            t = _fold_bool(s.test, known)
            if isinstance(t, ast.Constant) and isinstance(t.value, bool):
                out.extend(_fold_stmts(s.body if t.value else s.orelse, known))
                if any(isinstance(x, (ast.Return, ast.Raise)) for x in out[-1:]):
                    break
                continue
            s = ast.copy_location(ast.If(test=t, body=_fold_stmts(s.body, known), orelse=_fold_stmts(s.orelse, known)), s)
            if not s.body:
                s.body = [ast.copy_location(ast.Pass(), s)]
        elif isinstance(s, ast.Return) and s.value is not None:
            s = ast.copy_location(ast.Return(value=_fold_bool(s.value, known)), s)
        out.append(s)
        if isinstance(s, (ast.Return, ast.Raise)):
            break
    return out


def _lower_returns(stmts: list, on_return) -> list:
    """the statements of __exit__ with every way of leaving them (`return v`, falling off the end) replaced by on_return(v)"""
    out = []
    for i, s in enumerate(stmts):
        if isinstance(s, ast.Return):
            return out + on_return(s.value, s)
        has_ret = any(isinstance(n, ast.Return) for n in ast.walk(s))
        if has_ret:
            if not isinstance(s, ast.If):
                raise _Bail
            rest = stmts[i + 1:]
            new = ast.copy_location(ast.If(test=s.test, body=_lower_returns([*s.body, *clone(rest)], on_return) or [ast.copy_location(ast.Pass(), s)],
                                           orelse=_lower_returns([*s.orelse, *clone(rest)], on_return)), s)
            return [*out, new]
        out.append(s)
    return out + on_return(None, stmts[-1] if stmts else None)


def _class_manager_parts(ctx: Ctx, ci):
    """(init params, defaults, init statements, enter statements, exit FunctionDef, attrs, class-level constants) of a simple manager class"""
    node = ci.node
    if ci.bases or ci.subclasses or node.keywords or any(b not in _CM_BASES for b in ci.base_names):
        raise _Bail
    decos = [chain(d.func) if isinstance(d, ast.Call) else chain(d) for d in node.decorator_list]
    if any(d not in ("dataclass", "dataclasses.dataclass") for d in decos):
        raise _Bail
    ex, en, init = ci.methods.get("__exit__"), ci.methods.get("__enter__"), ci.methods.get("__init__")
    if ex is None or "__post_init__" in ci.methods or "__getattr__" in ci.methods or "__setattr__" in ci.methods or "__del__" in ci.methods:
        raise _Bail
    for m in (ex, en, init):
        if m is not None and (m.node.decorator_list or isinstance(m.node, ast.AsyncFunctionDef)):
            raise _Bail
    class_consts, fields = {}, []
    for s in node.body:
        if isinstance(s, ast.Assign) and len(s.targets) == 1 and isinstance(s.targets[0], ast.Name):
            if s.targets[0].id == "__slots__":
                continue
            if not isinstance(s.value, ast.Constant):
                raise _Bail
            class_consts[s.targets[0].id] = s.value
        elif isinstance(s, ast.AnnAssign) and isinstance(s.target, ast.Name):
            if "ClassVar" in norm(s.annotation):
                raise _Bail
            if s.value is not None and not isinstance(s.value, ast.Constant):
                raise _Bail
            fields.append((s.target.id, s.value))
            if not decos and s.value is not None:
                class_consts[s.target.id] = s.value
        elif isinstance(s, (ast.FunctionDef, ast.Pass)) or (isinstance(s, ast.Expr) and isinstance(s.value, ast.Constant)):
            continue
        else:
            raise _Bail
    if init is not None:
        params, defaults = _plain_params(init.node)
        if not params:
            raise _Bail
        init_self, params, init_body = params[0], params[1:], init.node.body
    elif decos:
        params = [f for f, _ in fields]
        defaults = {f: v for f, v in fields if v is not None}
        init_self = "self"
        init_body = [ast.Assign(targets=[ast.Attribute(value=ast.Name(id="self", ctx=ast.Load()), attr=f, ctx=ast.Store())],
                                value=ast.Name(id=f, ctx=ast.Load()), lineno=node.lineno, col_offset=0) for f in params]
        class_consts = {k: v for k, v in class_consts.items() if k not in params}
    else:
        params, defaults, init_self, init_body = [], {}, "self", []
    if en is not None:
        eps, _ = _plain_params(en.node)
        if len(eps) != 1:
            raise _Bail
        en_body = _no_doc(en.node.body)
        # __enter__ hands out the manager itself: `return self` as its last statement and nowhere else
        rets = [n for n in ast.walk(en.node) if isinstance(n, ast.Return)]
        if len(rets) != 1 or not en_body or en_body[-1] is not rets[0] or not (isinstance(rets[0].value, ast.Name) and rets[0].value.id == eps[0]):
            raise _Bail
        enter = (eps[0], en_body[:-1])
    elif ci.base_names and any("ContextManager" in b for b in ci.base_names):
        enter = ("self", [])
    else:
        raise _Bail
    xps, xdef = _plain_params(ex.node)
    if len(xps) != 4 or xdef:
        raise _Bail
    attrs = set(class_consts) | {f for f, _ in fields}
    for m, sname in ((init, init_self), (en, enter[0]), (ex, xps[0])):
        if m is None:
            continue
        for n in ast.walk(m.node):
            if isinstance(n, ast.Attribute) and isinstance(n.value, ast.Name) and n.value.id == sname and isinstance(n.ctx, ast.Store):
                attrs.add(n.attr)
    if init is None and decos:
        attrs |= set(params)
    return params, defaults, (init_self, init_body), enter, ex.node, attrs, class_consts


def _inline_class(ctx: Ctx, fi: FuncInfo, ci, call, target, block: list, user: ast.AST, j: _Journal, taken: set, with_stmt: ast.AST, created: dict,
                  ctor=None, objname: str | None = None):
    """call: the constructor call (None: the object was built by a statement this pass has already rewritten); ctor: the statement
    `objname = C(...)` when the manager is built before the `with` that uses it (`with objname:`)."""
    params, defaults, (init_self, init_body), (en_self, en_body), ex, attrs, class_consts = _class_manager_parts(ctx, ci)
    if target is not None and not isinstance(target, ast.Name):
        raise _Bail
    obj = objname if objname is not None else target.id if target is not None else f"_cm{with_stmt.lineno}"
    names = {obj} | ({target.id} if target is not None else set())       # (`with g as h` hands out g itself: both names are the object)
    # the manager object does not escape: every mention of the name is `obj.attr` with a known attribute
    uses = []
    if target is not None or objname is not None:
        for n in ast.walk(user):
            if isinstance(n, ast.Name) and n.id in names and n is not target and not (ctor is not None and n is ctor.targets[0]):
                p = getattr(n, "_parent", None)
                if isinstance(p, ast.withitem) and p.context_expr is n and n.id == objname:
                    continue                             # `with obj:` - this block or another one under the same object
                if isinstance(n.ctx, ast.Store) and isinstance(p, ast.withitem) and p.optional_vars is n:
                    other = _manager_of(ctx, fi, p.context_expr)
                    if other is not None and other[0] == "cls" and other[1] is ci:
                        continue                         # another block under a manager of the same class bound to the same name
                    if isinstance(p.context_expr, ast.Name) and p.context_expr.id == objname:
                        continue
                if not (isinstance(p, ast.Attribute) and p.value is n and p.attr in attrs) or not isinstance(n.ctx, ast.Load):
                    raise _Bail
                f = next((a for a in ancestors(n) if isinstance(a, (ast.FunctionDef, ast.AsyncFunctionDef, ast.Lambda, ast.ClassDef))), None)
                if f is not user:
                    raise _Bail
                uses.append(p)
        if any(a.arg in names for n in ast.walk(user) if isinstance(n, ast.arguments) for a in [*n.posonlyargs, *n.args, *n.kwonlyargs, n.vararg, n.kwarg] if a is not None):
            raise _Bail
    local = {a: f"{obj}__{a}" for a in attrs}
    if any(v in taken and v not in created["locals"] for v in local.values()):
        raise _Bail
    taken |= set(local.values())

    def attr_local(a: str) -> str:
        if a not in local:
            raise _Bail                                  # reads an attribute nobody stores (a method, a property): not a plain record
        return local[a]

    stores = {n.id for s in block for n in ast.walk(s) if isinstance(n, ast.Name) and isinstance(n.ctx, (ast.Store, ast.Del))}
    pre: list = []
    if call is not None:
        mapping, temps = _bind_call(call, params, defaults, set(), obj, taken, immediate=True)      # __init__ runs at once: nothing can be re-bound in between
        pre = [ast.fix_missing_locations(ast.copy_location(ast.Assign(targets=[ast.Name(id=local[k], ctx=ast.Store())], value=clone(v)), call))
               for k, v in class_consts.items()]
    def renames(fn_body, ps) -> dict:
        own = set()
        for s in fn_body:
            own |= _own_locals(s, ps)
        r = {}
        for nm in sorted(own):
            if nm in taken:
                r[nm] = f"{obj}__{nm}_"
                if r[nm] in taken:
                    raise _Bail
            taken.add(r.get(nm, nm))
        return r
    if not all(isinstance(s, (ast.Assign, ast.AnnAssign)) for s in _no_doc(init_body)) or _escaping_jump(en_body):
        raise _Bail                                      # (the constructor is a list of plain stores: its parameters are read at once)
    if call is not None:
        pre += temps + _xlate(init_body, mapping, init_self, attr_local, renames(init_body, [init_self, *params]))
    init_stmts, pre = (pre, []) if ctor is not None else ([], pre)
    pre += _xlate(en_body, {}, en_self, attr_local, renames(en_body, [en_self]))
    # __exit__(self, exc_type, exc, tb)
    xs, xt, xe, xtb = [a.arg for a in ex.args.posonlyargs + ex.args.args]
    body = _no_doc(ex.body)
    if any(isinstance(n, ast.Name) and n.id in (xt, xe, xtb) and not isinstance(n.ctx, ast.Load) for s in body for n in ast.walk(s)):
        raise _Bail
    exc_name = xe if xe not in taken else f"{obj}__{xe}"
    if exc_name in taken:
        raise _Bail
    taken.add(exc_name)
    none = ast.Constant(value=None)
    # (a) the block completed (or left by return / break / continue): __exit__(None, None, None), result ignored
    def is_none_test(e, names, when_none: bool):
        if isinstance(e, ast.Compare) and len(e.ops) == 1 and isinstance(e.ops[0], (ast.Is, ast.IsNot)) and isinstance(e.left, ast.Name) \
                and e.left.id in names and isinstance(e.comparators[0], ast.Constant) and e.comparators[0].value is None:
            return when_none if isinstance(e.ops[0], ast.Is) else not when_none
        if isinstance(e, ast.Name) and (e.id == xt or (when_none and e.id in names)):
            return not when_none                          # truthiness of None / of an exception class
        return None
    normal = _fold_stmts(clone(body), lambda e: is_none_test(e, (xt, xe, xtb), True))
    normal = _lower_returns(normal, lambda v, at: [] if v is None or _is_pure_alias(v) else [ast.copy_location(ast.Expr(value=v), at)])
    normal = _xlate(normal, {xt: none, xe: none, xtb: none}, xs, attr_local, renames(normal, [xs, xt, xe, xtb]))
    if normal and _escaping_jump(block):
        raise _Bail
    # (b) the block raised: __exit__(type(exc), exc, exc.__traceback__); a true result swallows the exception, a false one lets it pass
    def on_return_exc(v, at):
        if v is None or (isinstance(v, ast.Constant) and not v.value):
            return [ast.copy_location(ast.Raise(exc=None, cause=None), at)] if at is not None else [ast.Raise(exc=None, cause=None)]
        if isinstance(v, ast.Constant):
            return []
        return [ast.copy_location(ast.If(test=v, body=[ast.copy_location(ast.Pass(), at)], orelse=[ast.copy_location(ast.Raise(exc=None, cause=None), at)]), at)]
    raised = _fold_stmts(clone(body), lambda e: is_none_test(e, (xt, xe, xtb), False))
    raised = _lower_returns(raised, on_return_exc)
    type_of = ast.Call(func=ast.Name(id="type", ctx=ast.Load()), args=[ast.Name(id=exc_name, ctx=ast.Load())], keywords=[])
    tb_of = ast.Attribute(value=ast.Name(id=exc_name, ctx=ast.Load()), attr="__traceback__", ctx=ast.Load())
    raised = _xlate(raised, {xt: type_of, xe: ast.Name(id=exc_name, ctx=ast.Load()), xtb: tb_of}, xs, attr_local, renames(raised, [xs, xt, xe, xtb]))
    htype: ast.AST = ast.Name(id="BaseException", ctx=ast.Load())
    # `except BaseException as e: if not isinstance(e, E): raise; REST`  ==  `except E as e: REST`
    if len(raised) == 1 and isinstance(raised[0], ast.If):
        t, pos, neg = raised[0].test, raised[0].body, raised[0].orelse
        if isinstance(t, ast.UnaryOp) and isinstance(t.op, ast.Not):
            t, pos, neg = t.operand, neg, pos
        cls = None
        if isinstance(t, ast.Call) and not t.keywords and len(t.args) == 2 and isinstance(t.func, ast.Name):
            if t.func.id == "issubclass" and norm(t.args[0]) == norm(type_of):
                cls = t.args[1]
            elif t.func.id == "isinstance" and isinstance(t.args[0], ast.Name) and t.args[0].id == exc_name:
                cls = t.args[1]
        if cls is not None and chain(cls.elts[0] if isinstance(cls, ast.Tuple) and cls.elts else cls) is not None and \
                len(neg) == 1 and isinstance(neg[0], ast.Raise) and neg[0].exc is None:
            htype, raised = cls, [s for s in pos if not isinstance(s, ast.Pass)]
    raised = raised or [ast.Pass()]
    handler = ast.ExceptHandler(type=htype, name=exc_name, body=raised)
    tr = ast.Try(body=list(block), handlers=[handler], orelse=normal, finalbody=[])
    # the object's attributes read / written by the user are the locals
    for p in uses:
        _replace_child(j, p, ast.Name(id=local[p.attr], ctx=p.ctx))
    if ctor is not None:                                 # the constructor's stores run where the object was built
        cblk = _block_holding(ctor)
        if cblk is None:
            raise _Bail
        init_stmts = init_stmts or [ast.Pass()]
        for s in init_stmts:
            ast.fix_missing_locations(ast.copy_location(s, ctor))
            _adopt(j, s, ctor._parent)
        j.set_list(cblk, [y for x in cblk for y in (init_stmts if x is ctor else [x])])
    created["locals"] |= set(local.values())
    if objname is not None:
        created["objs"][objname] = ci
    return [*pre, tr]


def _manager_of(ctx: Ctx, fi: FuncInfo, e: ast.AST):
    """('gen', FuncInfo, {self param: self}) / ('cls', ClassInfo) for a with-item expression that builds a manager of the analysed tree"""
    if not isinstance(e, ast.Call):
        return None
    f = e.func
    r = None
    selfmap: dict = {}
    if isinstance(f, ast.Name):
        ts = ctx.repo.resolve_call(fi, e)                # (a generator defined inside the user, a module-level function)
        r = ts[0] if len(ts) == 1 and ts[0].name == f.id else ctx.repo.resolve_name(fi.module, f.id)
    elif isinstance(f, ast.Attribute) and isinstance(f.value, ast.Name) and f.value.id == "self" and fi.cls is not None and is_param(fi, "self"):
        ts = ctx.repo.dispatch(fi.cls, f.attr)
        if len(ts) == 1 and ts[0].cls is not None:
            r = ts[0]
            ps = r.params()
            if not ps or any(chain(d) in ("staticmethod", "classmethod") for d in r.decorators):
                return None
            selfmap = {ps[0]: ast.Name(id="self", ctx=ast.Load())}
    elif isinstance(f, ast.Attribute):
        c = chain(f)
        if c is not None and isinstance(f.value, ast.Name) and f.value.id in fi.module.imports:
            mod, attr = fi.module.imports[f.value.id]
            m = ctx.repo.modules.get(mod if attr is None else f"{mod}.{attr}")
            if m is not None:
                r = m.functions.get(f.attr) or m.classes.get(f.attr)
    if isinstance(r, FuncInfo):
        ds = [chain(d) for d in r.decorators]
        if len(ds) == 1 and ds[0] in _CM_DECOS and (r.cls is None) == (not selfmap):
            return ("gen", r, selfmap, _CM_DECOS[ds[0]])
        return None
    if r is not None and hasattr(r, "methods") and "__exit__" in r.methods:
        return ("cls", r)
    return None


def _desugar_with(ctx: Ctx, fi: FuncInfo, w: ast.AST, j: _Journal, created: dict) -> bool:
    blk = _block_holding(w)
    if blk is None or not w.items:
        return False
    item = w.items[-1]
    ce = item.context_expr
    call, ctor, objname = ce, None, None
    if isinstance(ce, ast.Name) and not is_param(fi, ce.id):
        # the manager was built by an earlier statement `g = C(...)` (the only binding of g)
        kind = None
        if ce.id in created["objs"]:
            kind, call, objname = ("cls", created["objs"][ce.id]), None, ce.id
        else:
            d = local_defs(fi, ce.id)
            if len(d) == 1 and d[0][2] is None and isinstance(d[0][1], ast.Call) and isinstance(d[0][0], ast.Assign) and len(d[0][0].targets) == 1 \
                    and isinstance(d[0][0].targets[0], ast.Name):
                kind = _manager_of(ctx, fi, d[0][1])
                if kind is not None and kind[0] == "cls":
                    ctor, call, objname = d[0][0], d[0][1], ce.id
                else:
                    kind = None
    else:
        kind = _manager_of(ctx, fi, ce)
    if kind is None:
        return False
    if (kind[0] == "gen" and kind[3]) != isinstance(w, ast.AsyncWith) or (kind[0] == "cls" and isinstance(w, ast.AsyncWith)):
        return False
    taken = _names_of(fi.node)
    mark = len(j.log)
    try:
        block = list(w.body)
        if kind[0] == "gen":
            target = clone(item.optional_vars) if item.optional_vars is not None else None
            new = _inline_generator(kind[1], item.context_expr, target, block, fi.node, kind[2], f"_{kind[1].name.strip('_')}", taken)
        else:
            new = _inline_class(ctx, fi, kind[1], call, item.optional_vars, block, fi.node, j, taken, w, created, ctor, objname)
    except _Bail:
        for e in reversed(j.log[mark:]):
            if e[0] == "list":
                e[1][:] = e[2]
            elif e[0] == "field":
                setattr(e[1], e[2], e[3])
            else:
                e[1]._parent = e[2]
        del j.log[mark:]
        return False
    for s in new:
        ast.fix_missing_locations(ast.copy_location(s, w) if not hasattr(s, "lineno") else s)
    if len(w.items) > 1:
        outer = ast.copy_location(type(w)(items=list(w.items[:-1]), body=new), w)
        new = [outer]
    holder = w._parent
    for s in new:
        _adopt(j, s, holder, reused=[*block, *w.items[:-1]])
    j.set_list(blk, [y for x in blk for y in (new if x is w else [x])])
    return True


def _split_conditional_returns(ctx: Ctx, fi: FuncInfo, j: _Journal) -> None:
    """`return A if c else B` -> `if c: return A` / `else: return B` (same evaluations in the same order): the two results become
    two exits of the control-flow graph, so a flag that decides between them is followed like any other test."""
    for _ in range(20):
        r = next((n for n in walk_no_nested(fi.node) if isinstance(n, ast.Return) and isinstance(n.value, ast.IfExp)), None)
        blk = _block_holding(r) if r is not None else None
        if blk is None:
            return
        v = r.value
        new = ast.copy_location(ast.If(test=v.test, body=[ast.copy_location(ast.Return(value=v.body), r)],
                                       orelse=[ast.copy_location(ast.Return(value=v.orelse), r)]), r)
        j.log.append(("parent", v.test, v.test._parent))
        j.log.append(("parent", v.body, v.body._parent))
        j.log.append(("parent", v.orelse, v.orelse._parent))
        _adopt(j, new, r._parent)
        j.set_list(blk, [new if x is r else x for x in blk])


# ------------------------------------------------------------------ `match` statements the load-time normaliser left alone
# The normaliser rewrites `match` into the if/elif chain Python executes only when the subject is a tuple of names / attribute reads
# and no guard reads a capture.  What it leaves (a subject tuple of calls or of boolean expressions, `case (x, _, _) if x:`) is
# rewritten here, scoped to this check and undone afterwards:
#   * the components of a subject TUPLE DISPLAY are evaluated once, left to right, into locals placed where the `match` stood (a tuple
#     display always matches a sequence pattern of its own length, so the pattern tests only concern the components).  When every
#     component is free of calls / subscripts it is read in place instead (nothing runs between the subject and the tests but other
#     such reads);
#   * a capture name that every case binds to the SAME component and that has no other binding in the function becomes the local the
#     component is evaluated into: every read of the name that the original executes without UnboundLocalError sees the same value
#     (captures stay bound when a guard fails, exactly like the local);
#   * `True` / `False` patterns on a component that is a bool by construction (bool(x), a comparison, `not`, and/or of those) are its
#     truth / falsity;
#   * other captures are substituted into the guard and bound at the head of the case body; this is only done when the name is not
#     read outside that case.
# Anything else (star patterns, mappings, positional class patterns, length mismatch) is left as it is.

def _m_simple(e: ast.AST) -> bool:
    if isinstance(e, (ast.Name, ast.Constant)):
        return True
    return isinstance(e, ast.Attribute) and _m_simple(e.value)


def _m_is_bool_call(e: ast.AST) -> bool:
    return isinstance(e, ast.Call) and isinstance(e.func, ast.Name) and e.func.id == "bool" and len(e.args) == 1 and not e.keywords \
        and not isinstance(e.args[0], ast.Starred)


def _m_pure(e: ast.AST) -> bool:
    if _m_simple(e):
        return True
    if isinstance(e, ast.UnaryOp) and isinstance(e.op, ast.Not):
        return _m_pure(e.operand)
    if isinstance(e, ast.BoolOp):
        return all(_m_pure(v) for v in e.values)
    if isinstance(e, ast.Compare):
        return _m_pure(e.left) and all(_m_pure(c) for c in e.comparators)
    if _m_is_bool_call(e):
        return _m_pure(e.args[0])
    return False


def _m_boolean(e: ast.AST) -> bool:
    """The value of e is True or False by construction."""
    if isinstance(e, ast.Constant):
        return isinstance(e.value, bool)
    if isinstance(e, ast.UnaryOp) and isinstance(e.op, ast.Not):
        return True
    if isinstance(e, ast.Compare):
        return True
    if isinstance(e, ast.BoolOp):
        return all(_m_boolean(v) for v in e.values)
    return _m_is_bool_call(e)


def _m_truth(e: ast.AST) -> ast.AST:
    """An expression with the same truth value as e (a fresh tree): bool(x) -> x inside and/or/not."""
    if _m_is_bool_call(e):
        return _m_truth(e.args[0])
    if isinstance(e, ast.UnaryOp) and isinstance(e.op, ast.Not):
        return ast.UnaryOp(op=ast.Not(), operand=_m_truth(e.operand))
    if isinstance(e, ast.BoolOp):
        return ast.BoolOp(op=e.op, values=[_m_truth(v) for v in e.values])
    return clone(e)


def _m_pattern(pat: ast.AST, subj, hoisted: set):
    """(condition | None = always, [(capture, source expression)]) of pattern `pat` against subj = (expression to read, the expression
    it was evaluated from) or a list of those for the components of a tuple display."""
    if isinstance(pat, ast.MatchAs):
        if pat.pattern is None and pat.name is None:
            return None, []
        if isinstance(subj, list) and pat.name is not None:
            raise _Bail                                    # the tuple itself is captured
        if pat.pattern is None:
            return None, ([] if pat.name is None or pat.name in hoisted else [(pat.name, clone(subj[0]))])
        cond, caps = _m_pattern(pat.pattern, subj, hoisted)
        if pat.name is not None and pat.name not in hoisted:
            caps = [*caps, (pat.name, clone(subj[0]))]
        return cond, caps
    if isinstance(pat, ast.MatchSequence):
        if not isinstance(subj, list) or len(subj) != len(pat.patterns) or any(isinstance(p, ast.MatchStar) for p in pat.patterns):
            raise _Bail
        conds, caps = [], []
        for p, s in zip(pat.patterns, subj):
            c, k = _m_pattern(p, s, hoisted)
            if c is not None:
                conds.append(c)
            caps += k
        return (ast.BoolOp(op=ast.And(), values=conds) if len(conds) > 1 else conds[0] if conds else None), caps
    if isinstance(pat, ast.MatchOr):
        conds = []
        for p in pat.patterns:
            c, k = _m_pattern(p, subj, hoisted)
            if k:
                raise _Bail
            if c is None:
                return None, []
            conds.append(c)
        return ast.BoolOp(op=ast.Or(), values=conds), []
    if isinstance(subj, list):
        raise _Bail
    use, orig = subj
    if isinstance(pat, ast.MatchValue):
        return ast.Compare(left=clone(use), ops=[ast.Eq()], comparators=[clone(pat.value)]), []
    if isinstance(pat, ast.MatchSingleton):
        if isinstance(pat.value, bool) and _m_boolean(orig):
            t = _m_truth(use) if use is orig else clone(use)
            return (t if pat.value else ast.UnaryOp(op=ast.Not(), operand=t)), []
        return ast.Compare(left=clone(use), ops=[ast.Is()], comparators=[ast.Constant(value=pat.value)]), []
    raise _Bail


def _m_captures(pat: ast.AST, top: bool, path, out: list) -> None:
    """(name, component index | None when the capture is not a whole component of the subject tuple) of every capture in pat"""
    if isinstance(pat, ast.MatchAs):
        if pat.name is not None:
            out.append((pat.name, path if pat.pattern is None else None))
        if pat.pattern is not None:
            _m_captures(pat.pattern, top, path if pat.name is None else None, out)
    elif isinstance(pat, ast.MatchSequence) and top:
        for i, p in enumerate(pat.patterns):
            _m_captures(p, False, i, out)
    else:
        for n in ast.walk(pat):
            if n is not pat and isinstance(n, (ast.MatchAs, ast.MatchStar)) and n.name is not None:
                out.append((n.name, None))
            if isinstance(n, ast.MatchMapping) and n.rest is not None:
                out.append((n.rest, None))


def _desugar_match(ctx: Ctx, fi: FuncInfo, st: ast.Match, j: _Journal, serial: int) -> bool:
    blk = _block_holding(st)
    if blk is None:
        return False
    taken = _names_of(fi.node)
    subject = st.subject
    comps = list(subject.elts) if isinstance(subject, ast.Tuple) and not any(isinstance(x, ast.Starred) for x in subject.elts) else None
    caps_all: list = []
    for c in st.cases:
        _m_captures(c.pattern, comps is not None, None, caps_all)
    in_patterns = {id(n) for c in st.cases for n in ast.walk(c.pattern)}
    hoist: dict = {}                                   # component index -> capture name
    if comps is not None:
        for name in sorted({n for n, _ in caps_all}):
            where = {p for n, p in caps_all if n == name}
            if len(where) != 1 or None in where or is_param(fi, name) or local_defs(fi, name):
                continue
            if any(isinstance(n, (ast.MatchAs, ast.MatchStar)) and n.name == name and id(n) not in in_patterns for n in ast.walk(fi.node)):
                continue                                   # another match statement binds the name too
            if any(isinstance(n, (ast.Global, ast.Nonlocal)) and name in n.names for n in ast.walk(fi.node)):
                continue
            hoist.setdefault(next(iter(where)), name)
    hoisted = set(hoist.values())
    pre: list = []
    try:
        if comps is not None:
            all_pure = all(_m_pure(c) for c in comps)
            subj: list = []
            for i, c in enumerate(comps):
                if i in hoist:
                    nm = hoist[i]
                elif all_pure or isinstance(c, (ast.Name, ast.Constant)):
                    subj.append((c, c))
                    continue
                else:
                    nm = f"_match{serial}_{i}"
                    if nm in taken:
                        raise _Bail
                pre.append(ast.Assign(targets=[ast.Name(id=nm, ctx=ast.Store())], value=clone(c)))
                subj.append((ast.Name(id=nm, ctx=ast.Load()), c))
        elif _m_pure(subject):
            subj = (subject, subject)                       # type: ignore[assignment]
        else:
            nm = f"_match{serial}"
            if nm in taken:
                raise _Bail
            pre.append(ast.Assign(targets=[ast.Name(id=nm, ctx=ast.Store())], value=clone(subject)))
            subj = (ast.Name(id=nm, ctx=ast.Load()), subject)     # type: ignore[assignment]
        arms = []
        for c in st.cases:
            cond, caps = _m_pattern(c.pattern, subj, hoisted)
            guard = clone(c.guard) if c.guard is not None else None
            if caps:
                names = [k for k, _ in caps]
                if len(set(names)) != len(names):
                    raise _Bail
                inside = {id(n) for n in ast.walk(c)}
                for n in ast.walk(fi.node):
                    if isinstance(n, ast.Name) and n.id in names and isinstance(n.ctx, ast.Load) and id(n) not in inside:
                        raise _Bail                        # the capture is read outside its case: it must be bound even when the guard fails
                if guard is not None:
                    if any(isinstance(n, (ast.Lambda, ast.GeneratorExp, ast.ListComp, ast.SetComp, ast.DictComp, ast.NamedExpr)) for n in ast.walk(guard)):
                        raise _Bail
                    for k, v in caps:
                        guard = _subst_name(guard, k, v)
            if guard is not None:
                cond = guard if cond is None else ast.BoolOp(op=ast.And(), values=[cond, guard])
            body = [ast.Assign(targets=[ast.Name(id=k, ctx=ast.Store())], value=v) for k, v in caps] + list(c.body)
            arms.append((cond, body))
    except _Bail:
        return False
    chain_: list = []
    for cond, body in reversed(arms):
        chain_ = body if cond is None else [ast.If(test=cond, body=body, orelse=chain_)]
    new = [*pre, *chain_]
    if not new:
        new = [ast.Pass()]
    reused = [s for c in st.cases for s in c.body]
    holder = st._parent
    for s in new:
        if not any(s is r for r in reused):
            for n in ast.walk(s):
                if not hasattr(n, "lineno") and isinstance(n, (ast.stmt, ast.expr)):
                    ast.copy_location(n, st)
            ast.fix_missing_locations(s)
    for r in reused:
        j.log.append(("parent", r, getattr(r, "_parent", None)))
    for s in new:
        if any(s is r for r in reused):
            s._parent = holder  # type: ignore[attr-defined]
        else:
            _adopt(j, s, holder)
    j.set_list(blk, [y for x in blk for y in (new if x is st else [x])])
    return True


def _desugar_matches(ctx: Ctx, j: _Journal) -> None:
    serial = 0
    for m in ctx.repo.modules.values():
        if "match " not in m.src or "case " not in m.src:
            continue
        for fi in list(m.all_functions):
            for _ in range(12):
                ms = [n for n in walk_no_nested(fi.node) if isinstance(n, ast.Match)]
                done = False
                for st in ms:
                    serial += 1
                    if _desugar_match(ctx, fi, st, j, serial):
                        done = True
                        break
                if not done:
                    break


def _desugar_managers(ctx: Ctx) -> _Journal:
    j = _Journal()
    try:
        _desugar_matches(ctx, j)
        for m in ctx.repo.modules.values():
            if "with " not in m.src:
                continue
            for fi in list(m.all_functions):
                changed = False
                created: dict = {"locals": set(), "objs": {}}
                for _ in range(12):
                    ws = [n for n in walk_no_nested(fi.node) if isinstance(n, (ast.With, ast.AsyncWith)) and n is not fi.node]
                    if not any(_desugar_with(ctx, fi, w, j, created) for w in ws):
                        break
                    changed = True
                if changed:
                    _split_conditional_returns(ctx, fi, j)
    except BaseException:
        j.undo()
        raise
    return j


def run(ctx: Ctx) -> None:
    journal = _desugar_managers(ctx)
    rewritten = bool(journal.log)
    try:
        rule_duality(ctx)
        rule_plaintext(ctx)
        rule_crypto_before_send(ctx)
        rule_drop_on_failure(ctx)
        rule_e2e_delivery(ctx)
        rule_key_selection(ctx)
        rule_emitters(ctx)
        rule_payload_conservation(ctx)
        rule_own_circuit_sender(ctx)
        rule_fresh_ephemerals(ctx)
        rule_whole_secret(ctx)
        rule_single_entry(ctx)
        rule_public_dispatch(ctx)
        rule_per_circuit_state(ctx)
        _refs_understood(ctx)
        ctx.assume("ChaCha20-Poly1305 in ipv8_rust_tunnels.SessionKeys.encrypt_str/decrypt_str: decrypt raises ValueError on any altered byte; ciphertexts under different keys differ (trusted)")
        ctx.assume("a Rust CryptoEndpoint (ipv8_rust_tunnels.Endpoint), when used instead of PythonCryptoEndpoint, is outside the analysed source")
    finally:
        journal.undo()
        if rewritten:
            ctx._cfgs.clear()                 # graphs of the rewritten functions


WITNESSES = [
    {"name": "data out of a circuit re-enters the public dispatcher (reaches on_cell unauthenticated)", "file": TC, "rule": "public-dispatch",
     "old": "        if self._prefix != data[:22]:\n            return\n        msg_id = data[22]\n        if msg_id in self.decode_map_private:\n",
     "new": "        if self._prefix != data[:22]:\n            return\n        msg_id = data[22]\n        if msg_id not in self.decode_map_private:\n"
            "            self.on_packet((source_address, data), warn_unknown=False)\n        if msg_id in self.decode_map_private:\n"},
    {"name": "pre-fix: only ValueError from the AEAD converted", "file": CR, "rule": "drop-on-failure",
     "old": "                cell.message = hop.keys.decrypt_str(cell.message, direction)\n            except Exception as e:",
     "new": "                cell.message = hop.keys.decrypt_str(cell.message, direction)\n            except ValueError as e:"},
    {"name": "pre-fix: unknown circuit sent in clear", "file": CR, "rule": "crypto-before-send",
     "old": "            elif not cell.plaintext:\n                # Without a routing entry there are no keys: never send such a cell unencrypted.\n                self.logger.warning(\"Dropping outgoing cell for unknown circuit %d\", circuit_id)\n                return None\n",
     "new": ""},
    {"name": "originator encrypts hops in path order", "file": CR, "rule": "direction-duality",
     "old": "        for layer, hop in enumerate(reversed(hops)):\n            if not hop.keys:", "new": "        for layer, hop in enumerate(hops):\n            if not hop.keys:"},
    {"name": "exit encrypts FORWARD", "file": CR, "rule": "direction-duality",
     "old": "                self.encrypt_cell(cell, BACKWARD, exit_socket.hop)", "new": "                self.encrypt_cell(cell, FORWARD, exit_socket.hop)"},
    {"name": "originator skips first hop layer", "file": CR, "rule": "direction-duality",
     "old": "                self.encrypt_cell(cell, FORWARD, *circuit.hops)", "new": "                self.encrypt_cell(cell, FORWARD, *circuit.hops[1:])"},
    {"name": "e2e applied after hop layers on send", "file": CR, "rule": "direction-duality",
     "old": """                if circuit.hs_session_keys:
                    direction = FORWARD if circuit.ctype == CIRCUIT_TYPE_RP_SEEDER else BACKWARD
                    self.encrypt_cell(cell, direction, Hop(circuit.hop.peer, circuit.hs_session_keys))
                self.encrypt_cell(cell, FORWARD, *circuit.hops)""",
     "new": """                self.encrypt_cell(cell, FORWARD, *circuit.hops)
                if circuit.hs_session_keys:
                    direction = FORWARD if circuit.ctype == CIRCUIT_TYPE_RP_SEEDER else BACKWARD
                    self.encrypt_cell(cell, direction, Hop(circuit.hop.peer, circuit.hs_session_keys))"""},
    {"name": "e2e direction not dual", "file": CR, "rule": "direction-duality",
     "old": "direction = FORWARD if circuit.ctype == CIRCUIT_TYPE_RP_DOWNLOADER else BACKWARD",
     "new": "direction = FORWARD if circuit.ctype == CIRCUIT_TYPE_RP_SEEDER else BACKWARD"},
    {"name": "relay backward decrypts", "file": CR, "rule": "direction-duality",
     "old": "                elif direction == BACKWARD:\n                    self.encrypt_cell(cell, direction, next_relay.hop)",
     "new": "                elif direction == BACKWARD:\n                    self.decrypt_cell(cell, direction, next_relay.hop)"},
    {"name": "missing keys skip layer", "file": CR, "rule": "crypto-before-send",
     "old": "            if not hop.keys:\n                msg = f\"Missing keys for circuit {cell.circuit_id} (layer {layer + 1}/{len(hops)})\"\n                raise CryptoException(msg)",
     "new": "            if not hop.keys:\n                continue"},
    {"name": "decrypt failure swallowed", "file": CR, "rule": "drop-on-failure",
     "old": "                msg = f\"Failed to decrypt cell for {cell.circuit_id} (dir {direction}) (layer {layer + 1}/{len(hops)})\"\n                raise CryptoException(msg) from e",
     "new": "                self.logger.warning(\"Failed to decrypt cell for %d\", cell.circuit_id)"},
    {"name": "ping allowed in plaintext", "file": PL, "rule": "plaintext-whitelist",
     "old": "NO_CRYPTO_PACKETS = [CreatePayload.msg_id, CreatedPayload.msg_id]",
     "new": "NO_CRYPTO_PACKETS = [CreatePayload.msg_id, CreatedPayload.msg_id, PingPayload.msg_id]"},
    {"name": "plaintext flag for circuitless sends", "file": TC, "rule": "plaintext-whitelist",
     "old": "        cell.plaintext = payload.msg_id in NO_CRYPTO_PACKETS",
     "new": "        cell.plaintext = payload.msg_id in NO_CRYPTO_PACKETS or payload.circuit_id not in self.circuits"},
    {"name": "process_cell delivers plaintext data cell", "file": CR, "rule": "plaintext-whitelist",
     "old": "        if cell.plaintext and cell.message[0] not in NO_CRYPTO_PACKETS:\n            self.logger.warning(\"Dropping cell (only create/created can have plaintext flag set)\")\n            return\n",
     "new": "        if cell.plaintext and cell.message[0] not in NO_CRYPTO_PACKETS:\n            self.logger.warning(\"Dropping cell (only create/created can have plaintext flag set)\")\n"},
    {"name": "relay forwards plaintext cells", "file": CR, "rule": "plaintext-whitelist",
     "old": "        if cell.plaintext:\n            self.logger.warning(\"Dropping cell (cell not encrypted)\")\n            return\n", "new": ""},
    {"name": "send_cell ignores crypto failure", "file": CR, "rule": "crypto-before-send",
     "old": "        if not self.outgoing_crypto(cell):\n            return\n", "new": "        self.outgoing_crypto(cell)\n"},
    {"name": "outgoing_crypto returns cell on failure", "file": CR, "rule": "crypto-before-send",
     "old": "                return None\n        except CryptoException as e:\n            self.logger.warning(str(e))\n            return None",
     "new": "                return None\n        except CryptoException as e:\n            self.logger.warning(str(e))"},
    {"name": "relay forwards after crypto failure", "file": CR, "rule": "drop-on-failure",
     "old": "        except CryptoException as e:\n            self.logger.warning(str(e))\n            return\n\n        cell.circuit_id = next_relay.circuit_id",
     "new": "        except CryptoException as e:\n            self.logger.warning(str(e))\n\n        cell.circuit_id = next_relay.circuit_id"},
    {"name": "process_cell delivers undecryptable cell", "file": CR, "rule": "drop-on-failure",
     "old": "        if not self.incoming_crypto(cell):\n            return\n", "new": "        self.incoming_crypto(cell)\n"},
    {"name": "unknown circuit cell accepted", "file": CR, "rule": "drop-on-failure",
     "old": "            self.logger.debug(\"Got encrypted cell from unknown circuit %d\", circuit_id)\n            return None",
     "new": "            self.logger.debug(\"Got encrypted cell from unknown circuit %d\", circuit_id)"},
    {"name": "create accepted under the id of an own circuit", "file": TC, "rule": "key-selection",
     "old": "        if circuit_id in self.circuits or circuit_id in self.relay_from_to or circuit_id in self.exit_sockets:",
     "new": "        if circuit_id in self.relay_from_to or circuit_id in self.exit_sockets:"},
    {"name": "relay: crypto failure reported but ignored", "file": CR, "rule": "drop-on-failure",
     "old": "        except CryptoException as e:\n            self.logger.warning(str(e))\n            return\n\n        cell.circuit_id = next_relay.circuit_id",
     "new": "        except CryptoException as e:\n            self.logger.warning(str(e))\n            cell.relay_early = False\n\n        cell.circuit_id = next_relay.circuit_id"},
    {"name": "layer removed outside the role functions", "file": CR, "rule": "direction-duality",
     "old": "        if not self.incoming_crypto(cell):\n            return\n",
     "new": "        if not self.incoming_crypto(cell):\n            return\n        self.decrypt_cell(cell, FORWARD, *self.circuits[circuit_id].hops)\n"},
    {"name": "anonymising endpoint tunnels only queued packets", "file": EP, "rule": "payload-conservation",
     "old": "            tunnel_community.send_data(circuit.hop.address, circuit_id, address, (\"0.0.0.0\", 0), packet)\n\n            # Any packets still need sending?\n",
     "new": "            # Any packets still need sending?\n"},
    {"name": "own-circuit data accepted by sender IP only", "file": TC, "rule": "origin-authentic",
     "old": "        if circuit and origin and sock_addr == circuit.hop.address:",
     "new": "        if circuit and origin and sock_addr[0] == circuit.hop.address[0]:"},
    {"name": "responder reuses a long-lived key as ephemeral", "file": CR, "rule": "fresh-ephemeral-keys",
     "old": "        tmp_key = OpenSSLSK.generate(\"curve25519\")", "new": "        tmp_key = self.key"},
    {"name": "session keys expanded from the ephemeral half of the secret only", "file": CR, "rule": "whole-secret-keys",
     "old": "        return _generate_session_keys(shared_secret)", "new": "        return _generate_session_keys(shared_secret[:32])"},
    {"name": "responder's secret no longer bound to its identity key", "file": CR, "rule": "whole-secret-keys",
     "old": "                         key.diffie_hellman(dh_received))", "new": "                         tmp_key.diffie_hellman(dh_received))"},
    {"name": "crypto endpoint guards one interface only", "file": TC, "rule": "single-entry",
     "old": "CryptoEndpoint) else PythonCryptoEndpoint(self.endpoint)", "new": "CryptoEndpoint) else PythonCryptoEndpoint(ipv4_endpoint)"},
    {"name": "short message ends the layer loop", "file": CR, "rule": "drop-on-failure",
     "old": "            try:\n                cell.message = hop.keys.decrypt_str(cell.message, direction)",
     "new": "            if len(cell.message) < 24:\n                break\n\n            try:\n                cell.message = hop.keys.decrypt_str(cell.message, direction)"},
    {"name": "exit socket queue shared by all exit sockets", "rule": "per-circuit-state", "edits": [
        {"file": "ipv8/messaging/anonymization/exit_socket.py", "old": "        self.queue: deque[tuple[bytes, Address]] = deque(maxlen=10)\n", "new": ""},
        {"file": "ipv8/messaging/anonymization/exit_socket.py",
         "old": "    def __init__(self, circuit_id: int, hop: Hop, overlay: TunnelCommunity) -> None:\n        \"\"\"\n        Create a new exit socket.",
         "new": "    queue: deque[tuple[bytes, Address]] = deque(maxlen=10)\n\n    def __init__(self, circuit_id: int, hop: Hop, overlay: TunnelCommunity) -> None:\n        \"\"\"\n        Create a new exit socket."}]},
    {"name": "community serialises cell itself", "file": TC, "rule": "cell-emitters",
     "old": "        return self.crypto_endpoint.send_cell(target_addr, cell)",
     "new": "        if payload.msg_id == 6:\n            self.endpoint.send(target_addr, cell.to_bin(self._prefix))\n            return None\n        return self.crypto_endpoint.send_cell(target_addr, cell)"},
]
