"""C04 - Onion circuits deliver data intact and never expose it in transit (layering discipline)."""
from __future__ import annotations

import ast
from dataclasses import dataclass, field

from ..core import Ctx
from ..match import Fact, arg, call_name, calls, fact_of, facts_at, is_param, local_defs, names_in, resolve, single_def
from ..model import AnalysisError, FuncInfo, ancestors, chain, clone, enclosing_stmt, norm, strip_cast, walk_no_nested

LEVEL = "other"
EXPLANATION = (
    "Layering discipline as a table and as path rules: every encrypt_cell/decrypt_cell call site in outgoing_crypto / "
    "incoming_crypto / relay_cell is extracted with (role facts, operation, direction, hops) and compared with the "
    "protocol table (originator encrypt FORWARD over all hops <-> relay/exit decrypt FORWARD; exit/relay encrypt BACKWARD "
    "<-> originator decrypt BACKWARD; e2e layer innermost with dual seeder/downloader directions; encrypt iterates hops "
    "reversed, decrypt in order; missing keys raise); only create/created may be plaintext and plaintext cells of any "
    "other type are dropped before delivery/relay; every cell leaves through a successful crypto step; a cell that fails "
    "authentication is dropped; a circuit id selects one key set only (an exit socket is never installed under the id of an "
    "own circuit). Byte equality / ciphertext distinctness / tamper rejection rest on the AEAD (trusted)."
)

CR = "ipv8/messaging/anonymization/crypto.py"
TC = "ipv8/messaging/anonymization/community.py"
PL = "ipv8/messaging/anonymization/payload.py"

# methods of the crypto endpoint that the rules below analyse on their own; any other method of the class that one of
# them calls on `self` is a helper: its body is analysed as part of the caller (parameters bound to the arguments)
REVIEWED = {"on_packet", "send_cell", "process_cell", "relay_cell", "outgoing_crypto", "incoming_crypto", "encrypt_cell",
            "decrypt_cell", "setup_tunnels", "__init__"}
CRYPTO_OPS = ("self.encrypt_cell", "self.decrypt_cell")
ROLE_FUNCS = ("outgoing_crypto", "incoming_crypto", "relay_cell")


# ------------------------------------------------------------------------------------ local aliases / helper calls
_IMPURE = (ast.Subscript, ast.Await, ast.Yield, ast.YieldFrom, ast.NamedExpr, ast.Lambda, ast.ListComp, ast.SetComp, ast.DictComp,
           ast.GeneratorExp, ast.Starred)


def _callers(ctx: Ctx, name: str):
    """repo.callers_of_name(name) from one indexed pass over the repository (same triples: module, FuncInfo | None, Call)."""
    idx = getattr(ctx, "_c04_call_index", None)
    if idx is None:
        idx = {}
        for m in ctx.repo.modules.values():
            for n in ast.walk(m.tree):
                if isinstance(n, ast.Call):
                    f = n.func
                    nm = f.attr if isinstance(f, ast.Attribute) else f.id if isinstance(f, ast.Name) else None
                    if nm is not None:
                        idx.setdefault(nm, []).append((m, n))
        ctx._c04_call_index = idx  # type: ignore[attr-defined]
    return [(m, ctx.repo.function_of(n), n) for m, n in idx.get(name, [])]


def _is_pure_alias(v: ast.AST) -> bool:
    """Attribute chains / constants / conditional expressions over them / a Hop(...) record: reading it twice gives the same value."""
    for n in ast.walk(v):
        if isinstance(n, ast.Call) and chain(n.func) != "Hop":
            return False
        if isinstance(n, _IMPURE):
            return False
    return True


def _bindings(fi: FuncInfo, name: str) -> int:
    return len(local_defs(fi, name)) + (1 if is_param(fi, name) else 0)


def _alias_def(ctx: Ctx, fi: FuncInfo, name: str, at: ast.AST | None) -> ast.AST | None:
    """Value of local `name` when it is a pure alias whose only definition dominates `at` and whose operands are bound once."""
    d = single_def(fi, name)
    if d is None or d[1] is not None:
        return None
    v = strip_cast(d[0])
    if not _is_pure_alias(v):
        return None
    if any(_bindings(fi, nm) > 1 for nm in names_in(v)):
        return None
    if at is not None:
        cfg = ctx.cfg(fi)
        dn = cfg.nodes_for(local_defs(fi, name)[0][0])
        un = cfg.nodes_for(at)
        if un and not all(u in dn or cfg.must_complete(u, dn) for u in un):
            return None
    return v


def _expand(ctx: Ctx, fi: FuncInfo, e: ast.AST | None, env: dict | None = None, at: ast.AST | None = None, depth: int = 4):
    """Copy of expression e (a node of fi) in the caller's terms: helper parameters replaced by the bound arguments (env) and
    pure local aliases (`keys = hop.keys`, `path = circuit.hops`) replaced by their definition."""
    if e is None:
        return None
    at = e if at is None else at

    class _T(ast.NodeTransformer):
        def visit_Name(self, n: ast.Name):  # noqa: N802
            if not isinstance(n.ctx, ast.Load):
                return n
            if env and n.id in env:
                return clone(env[n.id])
            if depth > 0:
                v = _alias_def(ctx, fi, n.id, at)
                if v is not None:
                    return _expand(ctx, fi, v, env, at=v, depth=depth - 1)
            return n

    return _T().visit(clone(strip_cast(e)))


def _xchain(ctx: Ctx, fi: FuncInfo, e: ast.AST | None, env: dict | None = None, at: ast.AST | None = None) -> str | None:
    return None if e is None else chain(_expand(ctx, fi, e, env, at))


def _xfacts(ctx: Ctx, fi: FuncInfo, site, env: dict | None = None) -> list[Fact]:
    """Dominating facts at site, operands expanded (aliases / helper parameters)."""
    out = []
    for f in facts_at(ctx.cfg(fi), site):
        out.append(Fact(f.op, _expand(ctx, fi, f.left, env), _expand(ctx, fi, f.right, env) if f.right is not None else None, f.pos, f.atom))
    return out


def _helper(ctx: Ctx, fi: FuncInfo, call: ast.Call) -> FuncInfo | None:
    """Target of `self.<m>(...)` when <m> is a plain method of the same class that no rule analyses on its own."""
    f = call.func
    if not (isinstance(f, ast.Attribute) and isinstance(f.value, ast.Name) and f.value.id == "self" and fi.cls is not None):
        return None
    if f.attr in REVIEWED:
        return None
    t = fi.cls.lookup(f.attr)
    if not isinstance(t, FuncInfo) or t.node.decorator_list:
        return None
    return t


def _bind(ctx: Ctx, fi: FuncInfo, call: ast.Call, target: FuncInfo, env: dict | None) -> dict:
    a = target.node.args
    if a.vararg or a.kwarg or any(isinstance(x, ast.Starred) for x in call.args) or any(k.arg is None for k in call.keywords):
        raise AnalysisError(f"undecided: helper {target.qualname} is called with packed arguments")
    params = [x.arg for x in a.posonlyargs + a.args][1:]
    out = {}
    for p, v in zip(params, call.args):
        out[p] = _expand(ctx, fi, v, env)
    for k in call.keywords:
        out[k.arg] = _expand(ctx, fi, k.value, env)
    return out


def _cond_call(ctx: Ctx, fi: FuncInfo, n) -> ast.Call | None:
    """The call whose result a cond node tests: the atom itself, or a local bound once to the call."""
    a = n.ast
    if isinstance(a, ast.Name) and _bindings(fi, a.id) == 1:
        a = resolve(fi, a)
    return a if isinstance(a, ast.Call) else None


@dataclass
class _Site:
    fi: FuncInfo                      # function that contains the call textually
    call: ast.Call
    env: dict | None                  # helper parameter -> argument (in the role function's terms)
    facts: list                       # dominating facts, outer call sites first
    via: list = field(default_factory=list)      # [(function, helper call)] from the role function down to fi


def _crypto_sites(ctx: Ctx, fi: FuncInfo, env: dict | None = None, outer=(), via=(), depth: int = 3) -> list[_Site]:
    """encrypt_cell/decrypt_cell call sites of a role function including those in the helpers it calls."""
    out = []
    for c in calls(fi):
        if chain(c.func) in CRYPTO_OPS:
            out.append(_Site(fi, c, env, list(outer) + _xfacts(ctx, fi, c, env), list(via)))
            continue
        t = _helper(ctx, fi, c)
        if t is not None and depth > 0 and all(t is not g for g, _ in via) and t is not fi:
            out.extend(_crypto_sites(ctx, t, _bind(ctx, fi, c, t, env), list(outer) + _xfacts(ctx, fi, c, env),
                                     [*via, (fi, c)], depth - 1))
    return out


def _unit(ctx: Ctx, fi: FuncInfo, depth: int = 3) -> list[FuncInfo]:
    """fi and the helpers it (transitively) calls."""
    out = [fi]
    if depth > 0:
        for c in calls(fi):
            t = _helper(ctx, fi, c)
            if t is not None and t not in out:
                out.extend(g for g in _unit(ctx, t, depth - 1) if g not in out)
    return out


# ------------------------------------------------------------------------------------ values decided by the path
def _reaching_defs(ctx: Ctx, fi: FuncInfo, name: str, site_nodes):
    """[(stmt, value)] definitions of local `name` that can be the latest one when a site node runs."""
    cfg = ctx.cfg(fi)
    defs = local_defs(fi, name)
    nodes = {id(st): cfg.nodes_for(st) for st, _, _ in defs}
    out = []
    for st, v, idx in defs:
        others = [n for st2, _, _ in defs if st2 is not st for n in nodes[id(st2)]]
        mine = nodes[id(st)]
        starts = [w for n in mine for w, lab in n.succ if lab != "exc"]
        r = cfg.reach(starts, cut_nodes=others)
        if any(s in r for s in site_nodes):
            out.append((st, v if idx is None else None))
    return out


def _path_facts(ctx: Ctx, fi: FuncInfo, def_stmt, other_defs, site_nodes):
    """(atom, polarity) that hold on every path entry -> def_stmt -> site that passes no other definition."""
    cfg = ctx.cfg(fi)
    dn = cfg.nodes_for(def_stmt)
    out = []
    for n in dn:
        out.extend(cfg.facts_at(n))
    others = [n for st in other_defs for n in cfg.nodes_for(st)]
    starts = [w for n in dn for w, lab in n.succ if lab != "exc"]
    base = cfg.reach(starts, cut_nodes=others)
    if not any(s in base for s in site_nodes):
        return out
    for c in cfg.nodes:
        if c.kind != "cond" or c not in base:
            continue
        for pol in (True, False):
            r = cfg.reach(starts, cut_nodes=others, cut_edge=lambda u, v, lab, c=c, pol=pol: u is c and lab is pol)
            if not any(s in r for s in site_nodes):
                out.append((c.ast, pol))
    return out


def _conditional_value(ctx: Ctx, fi: FuncInfo, name: str, at: ast.AST):
    """`if T: x = A else: x = B` (any equivalent control flow): (T-atom, polarity, A, B) = x is A iff atom has polarity, else B."""
    cfg = ctx.cfg(fi)
    site_nodes = cfg.nodes_for(at)
    defs = local_defs(fi, name)
    if not site_nodes or is_param(fi, name) or any(v is None or idx is not None for _, v, idx in defs):
        return None
    all_nodes = [n for st, _, _ in defs for n in cfg.nodes_for(st)]
    if not all(cfg.must_complete(s, all_nodes) for s in site_nodes):
        return None
    rd = _reaching_defs(ctx, fi, name, site_nodes)
    if len(rd) != 2:
        return None
    (s1, v1), (s2, v2) = rd
    f1 = _path_facts(ctx, fi, s1, [s2], site_nodes)
    f2 = _path_facts(ctx, fi, s2, [s1], site_nodes)
    for a, p in f1:
        if isinstance(a, (ast.For, ast.AsyncFor, ast.While)):
            continue
        if any(a2 is a and p2 is (not p) for a2, p2 in f2):
            cn = [n for n in cfg.by_ast.get(id(a), []) if n.kind == "cond"]
            # the deciding test runs once per call (not inside a loop)
            if any(n in cfg.reach([w for w, _ in n.succ]) for n in cn):
                return None
            return a, p, v1, v2
    return None


def _is_const_name(text: str) -> bool:
    return text.replace("_", "").isalnum() and text.upper() == text and not text[0].isdigit()


def _eq_sides(ctx: Ctx, fi: FuncInfo, f: Fact, env: dict | None):
    l, r = norm(_expand(ctx, fi, f.left, env)), norm(_expand(ctx, fi, f.right, env))
    return (r, l) if _is_const_name(l) and not _is_const_name(r) else (l, r)


def _dir_canon(ctx: Ctx, fi: FuncInfo, e: ast.AST | None, env: dict | None, at: ast.AST, depth: int = 4) -> str:
    """Canonical text of a direction argument: aliases followed, a value chosen by if/else written as `A if L == R else B`."""
    if e is None:
        return "<none>"
    e = strip_cast(e)
    if isinstance(e, ast.Name) and not (env and e.id in env) and not is_param(fi, e.id) and depth > 0:
        defs = local_defs(fi, e.id)
        if len(defs) == 1:
            v = _alias_def(ctx, fi, e.id, at)
            if v is not None:
                return _dir_canon(ctx, fi, v, env, v, depth - 1)
        elif len(defs) > 1:
            cv = _conditional_value(ctx, fi, e.id, at)
            if cv is not None:
                a, p, v1, v2 = cv
                return _ifexp_text(ctx, fi, a, p, v1, v2, env, depth - 1)
    if isinstance(e, ast.IfExp):
        return _ifexp_text(ctx, fi, e.test, True, e.body, e.orelse, env, depth - 1)
    return norm(_expand(ctx, fi, e, env, at=at))


def _ifexp_text(ctx: Ctx, fi: FuncInfo, test: ast.AST, pol: bool, a: ast.AST, b: ast.AST, env, depth: int) -> str:
    while isinstance(test, ast.UnaryOp) and isinstance(test.op, ast.Not):
        test, pol = test.operand, not pol
    f = fact_of(test, pol)
    ta, tb = _dir_canon(ctx, fi, a, env, a, depth), _dir_canon(ctx, fi, b, env, b, depth)
    if not f.pos:
        ta, tb = tb, ta
    if f.op == "eq":
        l, r = _eq_sides(ctx, fi, f, env)
        return f"{ta} if {l} == {r} else {tb}"
    if f.op == "truthy":
        return f"{ta} if {norm(_expand(ctx, fi, f.left, env))} else {tb}"
    f.pos = True
    return f"{ta} if {f} else {tb}"


# ------------------------------------------------------------------------------------ every path passes ... (following helpers)
class _MustPass:
    """
    'Every path from entry to a target takes a good edge / completes a good node.'  The good construct may live in a helper of
    the same class whose result guards the target (`if not self._helper(cell): return`): the helper call then counts as good on
    the out-edge(s) for which every matching `return` of the helper is itself covered.
    """

    def __init__(self, ctx: Ctx, good_edge=None, good_node=None, infeasible=None, subject=("cell",)) -> None:
        self.ctx = ctx
        self.subject = set(subject)         # a helper decides something only when it is handed (an expression over) one of these names
        self.good_edge = good_edge          # (fi, env, cfg, cond node, label) -> bool
        self.good_node = good_node          # (fi, env, cfg, node) -> bool
        self.infeasible = infeasible        # (fi, env, cfg, cond node, label) -> bool : edge cannot be taken
        self.undecided: list[AnalysisError] = []
        self._memo: dict = {}

    def _guar(self, fi: FuncInfo, call: ast.Call, t: FuncInfo, env, pol, depth: int) -> bool:
        """guarantees() of helper t for this call; a helper the analysis cannot follow gives no guarantee (remembered as undecided)."""
        try:
            given = [_expand(self.ctx, fi, a, env) for a in [*call.args, *[k.value for k in call.keywords]]]
            if not any(isinstance(x, ast.Name) and x.id in self.subject for v in given for x in ast.walk(v)):
                return False                 # a helper that is not given the subject decides nothing about it
            henv = _bind(self.ctx, fi, call, t, env)
            key = (id(t.node), pol, tuple(sorted((k, norm(v)) for k, v in henv.items())))
            if key not in self._memo:
                self._memo[key] = self.guarantees(t, henv, pol, depth)
            return self._memo[key]
        except AnalysisError as ex:
            self.undecided.append(ex)
            return False

    def _cuts(self, fi: FuncInfo, env, depth: int, skip=()):
        ctx = self.ctx
        cfg = ctx.cfg(fi)
        cut_normal, cut_edges = set(), set()
        for n in cfg.nodes:
            if n in skip:
                continue
            if n.kind in ("stmt", "cond") and self.good_node is not None and self.good_node(fi, env, cfg, n):
                cut_normal.add(n)
            if n.kind == "cond":
                for lab in (True, False):
                    if (self.good_edge is not None and self.good_edge(fi, env, cfg, n, lab)) or \
                            (self.infeasible is not None and self.infeasible(fi, env, cfg, n, lab)):
                        cut_edges.add((n, lab))
                c = _cond_call(ctx, fi, n)
                t = _helper(ctx, fi, c) if c is not None else None
                if t is not None and depth > 0:
                    for lab in (True, False):
                        if self._guar(fi, c, t, env, lab, depth - 1):
                            cut_edges.add((n, lab))
        if depth > 0:
            for c in calls(fi):
                t = _helper(ctx, fi, c)
                if t is None:
                    continue
                full = None
                for n in cfg.nodes_for(c):
                    if (n.kind == "cond" and n.ast is c) or n in skip:
                        continue
                    if full is None:
                        full = self._guar(fi, c, t, env, None, depth - 1)
                    if full:
                        cut_normal.add(n)
        return cfg, cut_normal, cut_edges

    def reach(self, fi: FuncInfo, env=None, depth: int = 2, skip=()):
        cfg, cut_normal, cut_edges = self._cuts(fi, env, depth, skip)

        def is_cut(u, v, lab) -> bool:
            return (u, lab) in cut_edges or (u in cut_normal and lab != "exc")
        return cfg, _flag_reach(self.ctx, fi, None, is_cut), is_cut

    def holds_at(self, fi: FuncInfo, site: ast.AST) -> bool:
        self.undecided = []
        nodes = self.ctx.cfg(fi).nodes_for(site)
        cfg, seen, _ = self.reach(fi, skip=nodes)
        ok = bool(nodes) and not any(n in seen for n in nodes)
        if not ok and self.undecided:
            raise self.undecided[0]
        return ok

    def guarantees(self, fi: FuncInfo, env, pol, depth: int) -> bool:
        """Every normal exit of helper fi whose result may have truthiness pol (None: any) is covered."""
        if any(isinstance(t, ast.Try) and t.finalbody for t in walk_no_nested(fi.node)):
            raise AnalysisError(f"undecided: helper {fi.qualname} returns through a finally block")
        cfg, seen, is_cut = self.reach(fi, env, depth)
        for n in seen:
            for v, lab in n.succ:
                if v is cfg.exit and lab != "exc" and not is_cut(n, v, lab):
                    if pol is None or pol in _exit_truth(self.ctx, fi, n, seen):
                        return False
        return True


def _const_truth(v: ast.AST | None):
    if v is None:
        return {False}
    if isinstance(v, ast.Constant):
        return {bool(v.value)}
    return {True, False}


_UNSET = object()


def _flags(fi: FuncInfo) -> list[str]:
    """Locals that only ever hold constants (`ok = True ... ok = False`): their tests can be decided along a path."""
    names = []
    for n in walk_no_nested(fi.node):
        if isinstance(n, ast.Assign):
            for t in n.targets:
                if isinstance(t, ast.Name) and t.id not in names:
                    names.append(t.id)
    out = []
    for nm in names:
        d = local_defs(fi, nm)
        if not is_param(fi, nm) and d and all(idx is None and isinstance(v, ast.Constant) and isinstance(st, ast.Assign) for st, v, idx in d):
            out.append(nm)
    return out


def _flag_reach(ctx: Ctx, fi: FuncInfo, starts=None, cut_edge=None) -> dict:
    """Forward reachability that remembers the current value of every constant flag and does not take the branch of `if flag` /
    `if not flag` that contradicts it.  Returns {node: set of flag-value tuples}; `in` works as for a set of nodes.
    starts: nodes, or (node, flag-value tuple) pairs to continue from a known state."""
    cfg = ctx.cfg(fi)
    flags = _flags(fi)
    defnode = {}
    for i, nm in enumerate(flags):
        for st, v, _ in local_defs(fi, nm):
            for n in cfg.nodes_for(st):
                defnode[n] = (i, v.value)
    init = tuple(_UNSET for _ in flags)
    todo = [x if isinstance(x, tuple) else (x, init) for x in ([cfg.entry] if starts is None else starts)]
    seen: dict = {}
    while todo:
        u, st = todo.pop()
        if st in seen.setdefault(u, set()):
            continue
        seen[u].add(st)
        for v, lab in u.succ:
            if cut_edge is not None and cut_edge(u, v, lab):
                continue
            st2 = st
            if u in defnode and lab != "exc":
                i, val = defnode[u]
                st2 = st[:i] + (val,) + st[i + 1:]
            if u.kind == "cond" and isinstance(u.ast, ast.Name) and u.ast.id in flags and lab in (True, False):
                val = st[flags.index(u.ast.id)]
                if val is not _UNSET and bool(val) is not lab:
                    continue
            todo.append((v, st2))
    return seen


def _exit_truth(ctx: Ctx, fi: FuncInfo, n, seen: dict | None = None) -> set:
    """Possible truthiness of the result when the function leaves through node n (seen: result of _flag_reach)."""
    if not (n.kind == "stmt" and isinstance(n.ast, ast.Return)):
        return {False}                       # falls off the end: None
    v = strip_cast(n.ast.value) if n.ast.value is not None else None
    if isinstance(v, ast.Name) and seen is not None and v.id in _flags(fi):
        i = _flags(fi).index(v.id)
        out = set()
        for st in seen.get(n, ()):
            out |= {True, False} if st[i] is _UNSET else {bool(st[i])}
        return out
    return _const_truth(v)


def _is_crypto_node(ctx: Ctx, fi: FuncInfo, env, cfg, n) -> bool:
    for c in calls(fi, CRYPTO_OPS):
        if n in cfg.nodes_for(c) and norm(_expand(ctx, fi, arg(c, 0), env)) == "cell":
            return True
    return False


def _not_plaintext_edge(ctx: Ctx, fi: FuncInfo, env, n, lab) -> bool:
    f = fact_of(n.ast, lab)
    return f.op == "truthy" and not f.pos and _xchain(ctx, fi, f.left, env) == "cell.plaintext"


def _whitelisted_edge(ctx: Ctx, fi: FuncInfo, env, n, lab) -> bool:
    """The edge establishes `cell.message[0] in NO_CRYPTO_PACKETS` (type byte read once into a local accepted)."""
    f = fact_of(n.ast, lab)
    if not (f.op == "in" and f.pos):
        return False
    left = f.left
    if isinstance(left, ast.Name) and _bindings(fi, left.id) == 1:
        left = resolve(fi, left)
    return norm(_expand(ctx, fi, left, env)) == "cell.message[0]" and _xchain(ctx, fi, f.right, env) == "NO_CRYPTO_PACKETS"


EXPECTED = {
    "outgoing_crypto": {
        ("encrypt_cell", "FORWARD if circuit.ctype == CIRCUIT_TYPE_RP_SEEDER else BACKWARD", "Hop(circuit.hop.peer, circuit.hs_session_keys)"):
            ({"circuit", "circuit.hs_session_keys"}, set()),
        ("encrypt_cell", "FORWARD", "*circuit.hops"): ({"circuit"}, set()),
        ("encrypt_cell", "BACKWARD", "exit_socket.hop"): ({"exit_socket"}, {"circuit"}),
        ("encrypt_cell", "BACKWARD", "relay.hop"): ({"relay", "relay.rendezvous_relay"}, {"circuit", "exit_socket"}),
        ("encrypt_cell", "other.direction", "other.hop"): ({"relay"}, {"circuit", "exit_socket", "relay.rendezvous_relay"}),
    },
    "incoming_crypto": {
        ("decrypt_cell", "FORWARD", "exit_socket.hop"): ({"exit_socket"}, set()),
        ("decrypt_cell", "BACKWARD", "*circuit.hops"): ({"circuit"}, {"exit_socket"}),
        ("decrypt_cell", "FORWARD if circuit.ctype == CIRCUIT_TYPE_RP_DOWNLOADER else BACKWARD", "Hop(circuit.hop.peer, circuit.hs_session_keys)"):
            ({"circuit", "circuit.hs_session_keys"}, {"exit_socket"}),
    },
    "relay_cell": {
        ("decrypt_cell", "FORWARD", "next_relay.hop"): ({"next_relay.rendezvous_relay"}, set()),
        ("encrypt_cell", "BACKWARD", "this_relay.hop"): ({"next_relay.rendezvous_relay"}, set()),
        ("decrypt_cell", "next_relay.direction", "next_relay.hop"): (set(), {"next_relay.rendezvous_relay"}),
        ("encrypt_cell", "next_relay.direction", "next_relay.hop"): (set(), {"next_relay.rendezvous_relay"}),
    },
}


# values that are either None or an object without __bool__/__len__ (results of table .get(), the e2e key record): for these
# `x is not None` and `x` are the same test; NOT for the boolean rendezvous flag
OBJECT_OR_NONE = {"circuit", "exit_socket", "relay", "circuit.hs_session_keys"}


def _role_sets(facts):
    """(+roles, -roles, equalities) of expanded facts; `x is not None` counts as x present (table objects are never falsy)."""
    pos, neg, eq = set(), set(), set()
    for f in facts:
        l = chain(f.left)
        if f.op == "truthy" and l:
            (pos if f.pos else neg).add(l)
        elif f.op == "is" and l in OBJECT_OR_NONE and isinstance(f.right, ast.Constant) and f.right.value is None:
            (neg if f.pos else pos).add(l)
        elif f.op == "eq" and f.pos:
            a, b = norm(f.left), norm(f.right)
            eq.add((b, a) if _is_const_name(a) and not _is_const_name(b) else (a, b))
    return pos, neg, eq


def _rep_nodes(ctx: Ctx, s: _Site, k: int):
    """CFG nodes that stand for site s in the k-th function of its call chain (the helper call leading to it, or the site itself)."""
    if len(s.via) > k:
        g, c = s.via[k]
    else:
        g, c = s.fi, s.call
    return g, ctx.cfg(g).nodes_for(c)


def _after(cfg, first_nodes, then_nodes) -> bool:
    """then_nodes run only after first_nodes completed normally, never the other way round."""
    r1 = cfg.reach([v for e in first_nodes for v, lab in e.succ if lab != "exc"])
    r2 = cfg.reach([v for h in then_nodes for v, lab in h.succ if lab != "exc"])
    return bool(first_nodes) and bool(then_nodes) and all(h in r1 for h in then_nodes) and not any(e in r2 for e in first_nodes)


def rule_duality(ctx: Ctx) -> None:
    repo = ctx.repo
    covered = set()
    for fname, table in EXPECTED.items():
        fi = repo.method("PythonCryptoEndpoint", fname, CR)
        cfg = ctx.cfg(fi)
        unit = _unit(ctx, fi)
        covered.update(g.node for g in unit)
        for g in unit[1:]:
            outside = sorted({(c_fi.qualname if c_fi is not None else m.relpath) for m, c_fi, c in _callers(ctx, g.name)
                              if c_fi is None or c_fi not in unit})
            ctx.check(not outside, "direction-duality", g, g.node, f"{fname}: helper {g.name} is called from {fname} only",
                      f"{g.qualname} performs crypto steps of {fname} but is also called from {outside}: these steps run under a role "
                      "the protocol table does not cover")
        found = {}
        for s in _crypto_sites(ctx, fi):
            c = s.call
            op = call_name(c)
            d = _dir_canon(ctx, s.fi, arg(c, 1), s.env, c)
            hops = ", ".join(norm(_expand(ctx, s.fi, a, s.env, at=c)) for a in c.args[2:])
            pos, neg, eq = _role_sets(s.facts)
            key = (op, d, hops)
            found.setdefault(key, s)
            exp = table.get(key)
            ok = exp is not None and exp[0] <= pos and exp[1] <= neg and norm(_expand(ctx, s.fi, arg(c, 0), s.env, at=c)) == "cell"
            if fname == "relay_cell" and d == "next_relay.direction" and ok:
                want = "FORWARD" if op == "decrypt_cell" else "BACKWARD"
                ok = ("next_relay.direction", want) in eq
            ctx.check(ok, "direction-duality", s.fi, c, f"{fname}: {op}(dir={d}, hops={hops}) under role +{sorted(pos)} -{sorted(neg)}",
                      f"{fname}: crypto step {op}(direction={d}, hops={hops}) under role +{sorted(pos)} -{sorted(neg)} is not a row of the "
                      "onion protocol table (wrong operation, direction, key set or role)")
        for key in table:
            ctx.check(key in found, "direction-duality", fi, fi.node, f"{fname}: protocol row {key} present",
                      f"{fname}: the protocol step {key} is missing: a layer is no longer added/removed for that role")
        # ordering of the e2e layer relative to the hop layers
        if fname in ("outgoing_crypto", "incoming_crypto"):
            e2e = [x for k, x in found.items() if k[2].startswith("Hop(")]
            hopl = [x for k, x in found.items() if k[2] == "*circuit.hops"]
            if e2e and hopl:
                k = 0
                while k < len(e2e[0].via) and k < len(hopl[0].via) and e2e[0].via[k][1] is hopl[0].via[k][1]:
                    k += 1
                g, n_e2e = _rep_nodes(ctx, e2e[0], k)
                g2, n_hop = _rep_nodes(ctx, hopl[0], k)
                gcfg = ctx.cfg(g)
                if fname == "outgoing_crypto":
                    ok = g is g2 and _after(gcfg, n_e2e, n_hop)
                    what = "sending: e2e layer applied before (inside) the hop layers"
                else:
                    ok = g is g2 and _after(gcfg, n_hop, n_e2e)
                    what = "receiving: hop layers removed before the e2e layer"
                ctx.check(ok, "direction-duality", e2e[0].fi, e2e[0].call, what,
                          f"{fname}: order of the end-to-end layer and the hop layers is wrong ({what})")
    # every encrypt_cell / decrypt_cell call of the repository is one of the table-checked sites
    for op in ("encrypt_cell", "decrypt_cell"):
        for m, c_fi, c in _callers(ctx, op):
            ctx.check(c_fi is not None and c_fi.node in covered, "direction-duality", c_fi or m.relpath, c,
                      f"{op} called inside outgoing_crypto / incoming_crypto / relay_cell (or a helper of theirs)",
                      f"{op} is called outside outgoing_crypto / incoming_crypto / relay_cell: a layer is added or removed at a place "
                      "the protocol table does not describe")
    # direction values of relay routes are FORWARD/BACKWARD constants at every construction site
    n = 0
    for m, fi, c in _callers(ctx, "RelayRoute"):
        if fi is None:
            continue
        n += 1
        d = arg(c, 2, "direction")
        ctx.check(d is not None and chain(d) in ("FORWARD", "BACKWARD"), "direction-duality", fi, c,
                  f"RelayRoute constructed with direction {norm(d) if d is not None else None}",
                  "a relay route is constructed with a direction that is not FORWARD/BACKWARD")
    ctx.floor("direction-duality.relayroute", n, 4)
    # on_created: backward route points to the requester, forward route to the new hop, both with the hop's session keys
    oc = repo.method("TunnelCommunity", "on_created", TC)
    rr = [c for c in calls(oc, "RelayRoute")]
    pairs = {chain(arg(c, 2)): norm(arg(c, 0)) for c in rr}
    ctx.check(pairs == {"BACKWARD": "request.from_circuit_id", "FORWARD": "request.to_circuit_id"}, "direction-duality", oc, oc.node,
              "on_created builds BACKWARD route -> from_circuit and FORWARD route -> to_circuit",
              f"relay routes built in on_created have the wrong direction/circuit pairing: {pairs}")
    # FORWARD != BACKWARD
    t = repo.module("ipv8/messaging/anonymization/tunnel.py")
    f_, b_ = repo.resolve_const(t, t.constants["FORWARD"]), repo.resolve_const(t, t.constants["BACKWARD"])
    ctx.check(f_ != b_, "direction-duality", t.relpath, "FORWARD/BACKWARD", "direction constants differ", "FORWARD == BACKWARD")

    # encrypt_cell / decrypt_cell loop shape
    for name, prim, order in (("encrypt_cell", "encrypt_str", "reversed"), ("decrypt_cell", "decrypt_str", "forward")):
        fi = repo.method("PythonCryptoEndpoint", name, CR)
        cfg = ctx.cfg(fi)
        loops = [l for l in walk_no_nested(fi.node) if isinstance(l, ast.For)]
        ctx.anchor(loops, f"hop loop in {name}")
        lp = loops[0]
        it = lp.iter
        if isinstance(it, ast.Call) and chain(it.func) == "enumerate":
            it = it.args[0]
        hops_param = fi.node.args.vararg.arg if fi.node.args.vararg else None
        if order == "reversed":
            ok = isinstance(it, ast.Call) and chain(it.func) == "reversed" and chain(it.args[0]) == hops_param
        else:
            ok = chain(it) == hops_param
        ctx.check(ok, "direction-duality", fi, lp, f"{name} iterates hops {order}",
                  f"{name} must iterate the hops {'last-to-first (first hop outermost)' if order == 'reversed' else 'first-to-last'}")
        prims = [c for c in calls(fi) if call_name(c) == prim]
        ctx.anchor(prims, f"{prim} in {name}")
        loop_vars = names_in(lp.target)
        for c in prims:
            st = enclosing_stmt(c)
            recv = _expand(ctx, fi, c.func.value, at=c) if isinstance(c.func, ast.Attribute) else None
            rc_ = chain(recv) or ""
            # the receiver is <loop variable>.keys (read directly or once into a local)
            ok = isinstance(st, ast.Assign) and chain(st.targets[0]) == "cell.message" and norm(arg(c, 0)) == "cell.message" \
                and norm(arg(c, 1)) == fi.params()[2] and rc_.endswith(".keys") and rc_.count(".") == 1 and rc_.split(".")[0] in loop_vars \
                and ancestors_include(c, lp)
            ctx.check(ok, "direction-duality", fi, st, f"{name}: cell.message = hop.keys.{prim}(cell.message, direction)",
                      f"{name} does not replace the message by the {prim} of the message under the given direction")
            facts = _xfacts(ctx, fi, c)
            has_keys = any(chain(f.left) == rc_ and ((f.op == "truthy" and f.pos) or
                                                     (f.op == "is" and not f.pos and isinstance(f.right, ast.Constant) and f.right.value is None))
                           for f in facts)
            ctx.check(has_keys, "crypto-before-send", fi, c, f"{name}: a hop without keys raises instead of skipping the layer",
                      f"{name} can skip a layer silently when a hop has no keys", [str(f) for f in facts])
        # the "no keys" branch must raise (not continue / return)
        for n in cfg.nodes:
            if n.kind != "cond":
                continue
            a = n.ast
            f = fact_of(a, True)
            if not (_xchain(ctx, fi, f.left) or "").endswith(".keys"):
                continue
            nokeys_pol = None
            if f.op == "truthy":
                nokeys_pol = not f.pos
            elif f.op == "is" and isinstance(f.right, ast.Constant) and f.right.value is None:
                nokeys_pol = f.pos
            if nokeys_pol is None:
                continue
            starts = [v for v, lab in n.succ if lab is nokeys_pol]
            r = cfg.reach(starts, follow_exc=False)
            ok = cfg.exit not in r and not any(x.kind == "loop" for x in r)
            ctx.check(ok, "crypto-before-send", fi, a, f"{name}: the missing-keys branch raises",
                      f"{name}: when a hop has no keys the layer is skipped (continue/return) instead of raising CryptoException")
        # wrong-other primitive absent
        other = "decrypt_str" if prim == "encrypt_str" else "encrypt_str"
        ctx.check(not [c for c in calls(fi) if call_name(c) == other], "direction-duality", fi, fi.node,
                  f"{name} uses only {prim}", f"{name} calls {other}")
        # every failure of the foreign AEAD call is turned into CryptoException (=> caller drops the cell).  The binary
        # extension documents no exception contract (decrypt_str raises RuntimeError on a tag mismatch, ValueError on short
        # input), so only a catch-all handler contains it.
        from ..cfg import _catches_all
        for c in prims:
            tr = next((a for a in ancestors(c) if isinstance(a, ast.Try) and any(c in list(ast.walk(b)) for b in a.body)), None)
            ok = tr is not None and any(_catches_all(h) for h in tr.handlers)
            ctx.check(ok, "drop-on-failure", fi, c, f"{name}: {prim} is wrapped in try/except Exception",
                      f"{name}: the AEAD call {prim} is not contained by a catch-all handler: a tag mismatch raises RuntimeError (not ValueError) "
                      "out of process_cell into the transport instead of dropping the cell")
            for h in (tr.handlers if tr is not None else []):
                raises = [s for s in ast.walk(h) if isinstance(s, ast.Raise)]
                ok = bool(raises) and all(s.exc is not None and (chain(s.exc) == "CryptoException" or
                                                                (isinstance(s.exc, ast.Call) and chain(s.exc.func) == "CryptoException"))
                                          for s in raises) and cfg_handler_always_raises(ctx, fi, h)
                ctx.check(ok, "drop-on-failure", fi, h, f"{name}: AEAD failure re-raised as CryptoException",
                          f"{name} swallows an authentication failure of the AEAD layer")


def ancestors_include(node: ast.AST, anc: ast.AST) -> bool:
    return any(a is anc for a in ancestors(node))


def cfg_handler_always_raises(ctx: Ctx, fi: FuncInfo, h: ast.ExceptHandler) -> bool:
    cfg = ctx.cfg(fi)
    hn = [n for n in cfg.by_ast.get(id(h), []) if n.kind == "handler"]
    for n in hn:
        r = cfg.reach([n], follow_exc=False)
        # following only normal edges from the handler entry we must not reach the normal exit or the loop head
        if cfg.exit in r or any(x.kind == "loop" for x in r):
            return False
    return bool(hn)


def rule_plaintext(ctx: Ctx) -> None:
    repo = ctx.repo
    pm = repo.module(PL)
    ncp = pm.constants.get("NO_CRYPTO_PACKETS")
    ctx.anchor(ncp, "NO_CRYPTO_PACKETS")
    names = [norm(e) for e in ncp.elts] if isinstance(ncp, (ast.List, ast.Tuple)) else []
    vals = repo.resolve_const(pm, ncp)
    ctx.check(sorted(names) == ["CreatePayload.msg_id", "CreatedPayload.msg_id"] and sorted(vals) == [2, 3], "plaintext-whitelist", PL, ncp,
              "NO_CRYPTO_PACKETS == [create, created]", f"the set of message types that may travel unencrypted is {names} = {vals}")
    # who sets plaintext
    n = 0
    for m in repo.modules.values():
        for node in ast.walk(m.tree):
            if isinstance(node, ast.Attribute) and node.attr == "plaintext" and isinstance(node.ctx, ast.Store):
                fi = repo.function_of(node)
                st = enclosing_stmt(node)
                n += 1
                if fi is not None and fi.qualname == "CellPayload.__init__":
                    ok = isinstance(st, ast.Assign) and chain(st.value) == "plaintext"
                elif fi is not None and fi.qualname == "TunnelCommunity.send_cell":
                    v = st.value if isinstance(st, ast.Assign) else None
                    ok = isinstance(v, ast.Compare) and isinstance(v.ops[0], ast.In) and norm(v.left) == "payload.msg_id" \
                        and chain(v.comparators[0]) == "NO_CRYPTO_PACKETS"
                else:
                    ok = False
                ctx.check(ok, "plaintext-whitelist", fi or m.relpath, st, "plaintext flag set only from msg_id in NO_CRYPTO_PACKETS",
                          "the plaintext flag of an outgoing cell is set by something other than membership in NO_CRYPTO_PACKETS")
    ctx.floor("plaintext-whitelist.setters", n, 2)
    for m, fi, c in _callers(ctx, "CellPayload"):
        if fi is None:
            continue
        p = arg(c, 2, "plaintext")
        ctx.check(p is None, "plaintext-whitelist", fi, c, "CellPayload constructed without a plaintext argument",
                  "a cell is constructed with an explicit plaintext flag")
    # drop rule on the receive side: every path to the delivery establishes `not cell.plaintext` or `type in NO_CRYPTO_PACKETS`
    # (whatever the spelling of the guard: drop-guard with early return, inverted if/else, de Morgan, guard in a helper)
    wl = _MustPass(ctx, good_edge=lambda fi, env, cfg, n, lab: _not_plaintext_edge(ctx, fi, env, n, lab) or _whitelisted_edge(ctx, fi, env, n, lab))
    for clsname, meth, rel, deliver in (("PythonCryptoEndpoint", "process_cell", CR, "self.tunnel_community.on_packet"),
                                        ("TunnelCommunity", "on_cell", TC, "self.on_packet_from_circuit")):
        fi = repo.method(clsname, meth, rel)
        sites = ctx.anchor(calls(fi, deliver), f"{deliver} in {meth}")
        for s in sites:
            ctx.check(wl.holds_at(fi, s), "plaintext-whitelist", fi, s,
                      f"{meth}: no path delivers a plaintext cell whose type is not create/created",
                      f"{meth} can deliver a cell that arrived unencrypted although its message type requires encryption")
    rc = repo.method("PythonCryptoEndpoint", "relay_cell", CR)
    npt = _MustPass(ctx, good_edge=lambda fi, env, cfg, n, lab: _not_plaintext_edge(ctx, fi, env, n, lab))
    for s in ctx.anchor(calls(rc, "self.endpoint.send"), "endpoint.send in relay_cell"):
        ctx.check(npt.holds_at(rc, s), "plaintext-whitelist", rc, s, "relay_cell forwards only cells without the plaintext flag",
                  "a relay forwards cells marked plaintext (no layer is added/removed for them)", [str(f) for f in facts_at(ctx.cfg(rc), s)])


def _has_cond(cfg, text: str) -> bool:
    return any(n.kind == "cond" and norm(n.ast) == text for n in cfg.nodes)


def _path_with(cfg, site_ast, edges) -> bool:
    """Is there a path entry -> site that takes all labelled cond edges (in order)?"""
    starts = [cfg.entry]
    for text, pol in edges:
        nxt = []
        r = cfg.reach(starts)
        for n in cfg.nodes:
            if n.kind == "cond" and norm(n.ast) == text and n in r:
                nxt.extend(v for v, lab in n.succ if lab is pol)
        if not nxt:
            return False
        starts = nxt
    r = cfg.reach(starts)
    return any(n in r for n in cfg.nodes_for(site_ast))


def rule_crypto_before_send(ctx: Ctx) -> None:
    repo = ctx.repo
    sc = repo.method("PythonCryptoEndpoint", "send_cell", CR)
    cfg = ctx.cfg(sc)
    for s in ctx.anchor(calls(sc, "self.endpoint.send"), "endpoint.send in send_cell"):
        facts = facts_at(cfg, s)
        ok = any(f.op == "truthy" and f.pos and isinstance(f.left, ast.Call) and chain(f.left.func) == "self.outgoing_crypto"
                 and norm(f.left.args[0]) == "cell" for f in facts)
        pkt = resolve(sc, arg(s, 1))
        ok_pkt = isinstance(pkt, ast.Call) and chain(pkt.func) == "cell.to_bin"
        # to_bin must be taken after the crypto step
        ctx.check(ok and ok_pkt, "crypto-before-send", sc, s, "send_cell: endpoint.send dominated by truthy outgoing_crypto(cell), packet = cell.to_bin",
                  "a cell can leave send_cell without passing outgoing_crypto", [str(f) for f in facts])
        tb = [n for n in cfg.nodes_for(pkt)] if ok_pkt else []
        oc = [n for n in cfg.nodes if n.kind == "cond" and isinstance(n.ast, ast.Call) and chain(n.ast.func) == "self.outgoing_crypto"]
        ctx.check(bool(tb) and bool(oc) and all(cfg.must_complete(t, oc) for t in tb), "crypto-before-send", sc, s,
                  "cell serialised after the crypto step", "the cell is serialised before it is encrypted")
    # outgoing_crypto returns None in the CryptoException handler and cell otherwise
    oc = repo.method("PythonCryptoEndpoint", "outgoing_crypto", CR)
    _returns_none_on_crypto_exception(ctx, oc, "crypto-before-send")
    # a cell for which no routing entry (hence no keys) exists must not be returned untouched unless it is a plaintext cell
    cfgo = ctx.cfg(oc)
    for r in [r for r in walk_no_nested(oc.node) if isinstance(r, ast.Return) and r.value is not None and chain(r.value) == "cell"]:
        bad = _path_with(cfgo, r, [("circuit", False), ("exit_socket", False), ("relay", False), ("cell.plaintext", False)]) or \
            (not _has_cond(cfgo, "cell.plaintext") and _path_with(cfgo, r, [("circuit", False), ("exit_socket", False), ("relay", False)]))
        ctx.check(not bad, "crypto-before-send", oc, r, "outgoing_crypto never returns an unencrypted non-plaintext cell for an unknown circuit",
                  "outgoing_crypto returns the cell untouched when no circuit/exit/relay entry exists: send_cell then puts the payload on the wire in clear")
    rc = repo.method("PythonCryptoEndpoint", "relay_cell", CR)
    cfg = ctx.cfg(rc)
    # every path to endpoint.send completes an encrypt/decrypt step (directly or inside a helper whose result guards the send);
    # the infeasible neither-FORWARD-nor-BACKWARD path of the direction dispatch is cut (domain checked in rule_duality)
    step = _MustPass(ctx, good_node=lambda fi, env, g, n: _is_crypto_node(ctx, fi, env, g, n),
                     infeasible=lambda fi, env, g, n, lab: _third_direction_edge(ctx, fi, env, g, n, lab))
    for s in calls(rc, "self.endpoint.send"):
        ctx.check(step.holds_at(rc, s), "crypto-before-send", rc, s, "relay_cell: every path to endpoint.send completes an encrypt/decrypt step",
                  "a relay can forward a cell without adding or removing its layer")
    # a cell whose crypto step failed is dropped: no path from the failure of a step (exception caught or reported by the helper's
    # result) leads to endpoint.send
    starts = _failure_starts(ctx, rc, None, 2)
    ctx.anchor(starts, "exceptional exit of a crypto step in relay_cell")
    after_failure = _flag_reach(ctx, rc, starts)
    for s in calls(rc, "self.endpoint.send"):
        ok = not any(n in after_failure for n in cfg.nodes_for(s))
        ctx.check(ok, "drop-on-failure", rc, s, "relay_cell drops the cell on CryptoException", "relay_cell forwards a cell whose crypto step failed")


def _third_direction_edge(ctx: Ctx, fi: FuncInfo, env, cfg, n, lab) -> bool:
    """Edge `X != D` of a test of a relay direction against FORWARD/BACKWARD taken where `X != other constant` already holds."""
    f = fact_of(n.ast, lab)
    if f.op != "eq" or f.pos:
        return False
    l, r = _eq_sides(ctx, fi, f, env)
    if r not in ("FORWARD", "BACKWARD") or not l.endswith(".direction"):
        return False
    other = "BACKWARD" if r == "FORWARD" else "FORWARD"
    for g in facts_at(cfg, n):
        if g.op == "eq" and not g.pos and _eq_sides(ctx, fi, g, env) == (l, other):
            return True
    return False


def _failure_starts(ctx: Ctx, fi: FuncInfo, env, depth: int) -> list:
    """(node, flag state) pairs of fi at which execution continues when an encrypt/decrypt step (here or in a helper) has failed."""
    cfg = ctx.cfg(fi)
    base = _flag_reach(ctx, fi)
    starts = []

    def leave(n, pred) -> None:
        for v, lab in n.succ:
            if pred(lab):
                starts.extend((v, st) for st in base.get(n, ()))

    for c in calls(fi):
        if chain(c.func) in CRYPTO_OPS:
            for n in cfg.nodes_for(c):
                leave(n, lambda lab: lab == "exc")
            continue
        t = _helper(ctx, fi, c)
        if t is None or depth <= 0 or t is fi:
            continue
        try:
            outcomes = _failure_outcomes(ctx, t, _bind(ctx, fi, c, t, env), depth - 1)
        except AnalysisError:
            if calls(t, CRYPTO_OPS):
                raise
            continue
        tested = [m for m in cfg.nodes if m.kind == "cond" and _cond_call(ctx, fi, m) is c]
        for n in cfg.nodes_for(c):
            for o in outcomes:
                if o == "raise":
                    leave(n, lambda lab: lab == "exc")
                elif tested:
                    for m in tested:
                        leave(m, lambda lab, o=o: lab is o)
                else:
                    leave(n, lambda lab: lab != "exc")
    return starts


def _failure_outcomes(ctx: Ctx, fi: FuncInfo, env, depth: int) -> set:
    """How helper fi can end after one of its crypto steps failed: 'raise', True / False (truthiness of the result)."""
    cfg = ctx.cfg(fi)
    starts = _failure_starts(ctx, fi, env, depth)
    if not starts:
        return set()
    if any(isinstance(t, ast.Try) and t.finalbody for t in walk_no_nested(fi.node)):
        raise AnalysisError(f"undecided: helper {fi.qualname} returns through a finally block")
    r = _flag_reach(ctx, fi, starts)
    out = set()
    if cfg.raise_exit in r:
        out.add("raise")
    for n in r:
        if any(v is cfg.exit and lab != "exc" for v, lab in n.succ):
            out |= _exit_truth(ctx, fi, n, r)
    return out


def _returns_none_on_crypto_exception(ctx: Ctx, fi: FuncInfo, rule: str) -> None:
    trs = [t for t in walk_no_nested(fi.node) if isinstance(t, ast.Try)]
    ctx.anchor(trs, f"try in {fi.name}")
    for tr in trs:
        hs = [h for h in tr.handlers if chain(h.type) == "CryptoException"]
        ok = bool(hs)
        for h in hs:
            rets = [s for s in ast.walk(h) if isinstance(s, ast.Return)]
            ok = ok and bool(rets) and all(r.value is None or (isinstance(r.value, ast.Constant) and r.value.value is None) for r in rets)
            ok = ok and cfg_handler_never_falls_through(ctx, fi, h)
        ctx.check(ok, rule, fi, tr, f"{fi.name} returns None when a layer fails", f"{fi.name} returns the cell although a crypto layer failed")


def cfg_handler_never_falls_through(ctx: Ctx, fi: FuncInfo, h: ast.ExceptHandler) -> bool:
    cfg = ctx.cfg(fi)
    # every normal path out of the handler ends in a `return None`
    for hn in [n for n in cfg.by_ast.get(id(h), []) if n.kind == "handler"]:
        r = cfg.reach([hn], follow_exc=False)
        for n in r:
            if n.kind == "stmt" and isinstance(n.ast, ast.Return) and not any(n.ast is s for s in ast.walk(h)):
                return False
    return True


def rule_drop_on_failure(ctx: Ctx) -> None:
    repo = ctx.repo
    pc = repo.method("PythonCryptoEndpoint", "process_cell", CR)
    cfg = ctx.cfg(pc)
    for s in ctx.anchor(calls(pc, "self.tunnel_community.on_packet"), "delivery in process_cell"):
        facts = facts_at(cfg, s)
        ok = any(f.op == "truthy" and f.pos and isinstance(f.left, ast.Call) and chain(f.left.func) == "self.incoming_crypto"
                 and norm(f.left.args[0]) == "cell" for f in facts)
        ctx.check(ok, "drop-on-failure", pc, s, "delivery dominated by truthy incoming_crypto(cell)",
                  "a cell is delivered although incoming_crypto rejected it (or was not consulted)", [str(f) for f in facts])
        # the delivered bytes are the decrypted cell
        pk = arg(s, 0)
        ok2 = isinstance(pk, ast.Tuple) and isinstance(pk.elts[1], ast.Call) and chain(pk.elts[1].func) == "cell.to_bin"
        ctx.check(ok2, "drop-on-failure", pc, s, "delivered packet is the decrypted cell re-serialised", "delivered bytes are not the decrypted cell")
    ic = repo.method("PythonCryptoEndpoint", "incoming_crypto", CR)
    _returns_none_on_crypto_exception(ctx, ic, "drop-on-failure")
    cfg = ctx.cfg(ic)
    # encrypted cells of unknown circuits are dropped: `return cell` is not reachable with circuit/exit_socket both falsy and not plaintext
    for r in [r for r in walk_no_nested(ic.node) if isinstance(r, ast.Return) and r.value is not None and chain(r.value) == "cell"]:
        bad = _path_with(cfg, r, [("circuit", False), ("exit_socket", False), ("cell.plaintext", False)])
        ctx.check(not bad and _has_cond(cfg, "cell.plaintext"), "drop-on-failure", ic, r, "encrypted cell for an unknown circuit is never returned",
                  "incoming_crypto accepts an encrypted cell for which no keys are known")
        # all decrypt calls precede the return on their paths: return cell only after try completes normally
    # plaintext cells skip decryption by design (decrypt_cell returns early); they are then limited by the whitelist rule


def rule_e2e_delivery(ctx: Ctx) -> None:
    """Data of an end-to-end (rendezvous) circuit is opaque payload for BOTH parties: it is never interpreted as IPv8 control traffic."""
    od = ctx.repo.method("TunnelCommunity", "on_data", TC)
    cfg = ctx.cfg(od)
    sites = [c for c in calls(od) if chain(c.func) in ("self.on_packet_from_circuit", "self.endpoint.notify_listeners")]
    ctx.anchor(sites, "control delivery in on_data")
    want = {"CIRCUIT_TYPE_RP_DOWNLOADER", "CIRCUIT_TYPE_RP_SEEDER"}
    for s in sites:
        ok = False
        seen = None
        for f in facts_at(cfg, s):
            if f.op == "truthy" and not f.pos:
                e = resolve(od, f.left)
                seen = norm(e)
                if isinstance(e, ast.Compare) and len(e.ops) == 1 and isinstance(e.ops[0], ast.In) and norm(e.left) == "circuit.ctype" \
                        and isinstance(e.comparators[0], (ast.List, ast.Tuple, ast.Set)) and {norm(x) for x in e.comparators[0].elts} == want:
                    ok = True
        ctx.check(ok, "plaintext-whitelist", od, s, "IPv8-shaped data is interpreted as control traffic only on circuits that are neither RP_DOWNLOADER nor RP_SEEDER",
                  f"on_data decides 'end-to-end payload' by `{seen}` instead of circuit.ctype in [RP_DOWNLOADER, RP_SEEDER]: on one side of an e2e circuit, payload that "
                  "merely looks like IPv8 is dropped, misrouted or executed as a tunnel control message instead of being delivered byte-for-byte")
    raw = [c for c in calls(od, "self.on_raw_data")]
    ctx.check(len(raw) == 1 and [norm(a) for a in raw[0].args] == ["circuit", "origin", "data"], "plaintext-whitelist", od, od.node,
              "other circuit data is handed to on_raw_data(circuit, origin, data) unchanged", "raw circuit data is not delivered unchanged")


def _absent_from_circuits_edge(ctx: Ctx, fi: FuncInfo, env, n, lab, key: str) -> bool:
    """The edge establishes that `key` is not the id of an own circuit: `key not in self.circuits`, `not self.circuits.get(key)`."""
    f = fact_of(n.ast, lab)
    if f.op == "in" and not f.pos:
        r = _xchain(ctx, fi, f.right, env)
        return r in ("self.circuits", "self.circuits.keys()") and norm(_expand(ctx, fi, f.left, env)) == key
    if (f.op == "truthy" and not f.pos) or (f.op == "is" and f.pos and isinstance(f.right, ast.Constant) and f.right.value is None):
        c = f.left
        if isinstance(c, ast.Name) and _bindings(fi, c.id) == 1:
            c = resolve(fi, c)
        return isinstance(c, ast.Call) and chain(c.func) == "self.circuits.get" and bool(c.args) \
            and norm(_expand(ctx, fi, c.args[0], env)) == key
    return False


def rule_key_selection(ctx: Ctx) -> None:
    """
    incoming_crypto / outgoing_crypto pick the key set of a cell by looking its circuit id up in the routing tables, exit sockets
    before own circuits.  The id of an own circuit must therefore never also become the id of an exit socket: whoever gets a
    `create` accepted under that id (e.g. the first hop, which knows the id) negotiates fresh exit keys, and cells authenticated
    with those keys alone are then decrypted, accepted and delivered as data of the victim circuit, while the circuit's genuine
    return traffic no longer decrypts.  Necessary condition: every installation of an exit socket is dominated by the fact that
    the id is not in self.circuits.
    """
    repo = ctx.repo
    n = 0
    for m in repo.modules.values():
        if not m.relpath.startswith("ipv8/messaging/anonymization/"):
            continue
        for node in ast.walk(m.tree):
            if not (isinstance(node, ast.Subscript) and isinstance(node.ctx, ast.Store) and (chain(node.value) or "").endswith("exit_sockets")):
                continue
            fi = repo.function_of(node)
            if fi is None:
                continue
            n += 1
            key = norm(_expand(ctx, fi, node.slice, at=node))
            subj = names_in(_expand(ctx, fi, node.slice, at=node)) | names_in(node.slice)
            guard = _MustPass(ctx, subject=subj,
                              good_edge=lambda f, env, cfg, cn, lab, key=key: _absent_from_circuits_edge(ctx, f, env, cn, lab, key))
            st = enclosing_stmt(node)
            ctx.check(guard.holds_at(fi, st), "key-selection", fi, st,
                      f"{fi.qualname}: exit socket installed only under an id that is not the id of an own circuit",
                      f"{fi.qualname} installs an exit socket for circuit id `{norm(node.slice)}` without having established that the id is not in "
                      "self.circuits: incoming_crypto prefers the exit-socket entry, so cells authenticated only with the new exit keys are "
                      "accepted and delivered as data of the own circuit with that id (injection without the circuit's session keys)")
    ctx.floor("key-selection", n, 1)


def rule_emitters(ctx: Ctx) -> None:
    repo = ctx.repo
    allowed_tb = {"PythonCryptoEndpoint.send_cell", "PythonCryptoEndpoint.relay_cell", "PythonCryptoEndpoint.process_cell"}
    n = 0
    for m, fi, c in _callers(ctx, "to_bin"):
        if fi is None or not fi.module.relpath.startswith("ipv8/messaging/anonymization/"):
            continue
        n += 1
        ctx.check(fi.qualname in allowed_tb, "cell-emitters", fi, c, f"to_bin called in {fi.qualname}",
                  "a wire cell is serialised outside send_cell/relay_cell/process_cell (crypto step bypassed)")
    ctx.floor("cell-emitters", n, 3)
    for m, fi, c in _callers(ctx, "send_cell"):
        if fi is None:
            continue
        ch = chain(c.func) or ""
        if ch.endswith("crypto_endpoint.send_cell"):
            ctx.check(fi.qualname == "TunnelCommunity.send_cell", "cell-emitters", fi, c, "crypto_endpoint.send_cell only from TunnelCommunity.send_cell",
                      "the crypto endpoint is asked to send a cell whose plaintext flag was not derived by TunnelCommunity.send_cell")
    # TunnelCommunity.send_cell strips the circuit id ([4:]) and prepends the msg id
    sc = repo.method("TunnelCommunity", "send_cell", TC)
    cells = [c for c in calls(sc, "CellPayload")]
    ok = len(cells) == 1 and norm(arg(cells[0], 0)) == "payload.circuit_id"
    ctx.check(ok, "cell-emitters", sc, sc.node, "cell header carries the payload's circuit id", "cell header circuit id differs from the payload's")
    # endpoint.send inside the crypto endpoint only in send_cell / relay_cell
    ce = repo.cls("PythonCryptoEndpoint", CR)
    for fi in ce.methods.values():
        for c in calls(fi, "self.endpoint.send"):
            ctx.check(fi.name in ("send_cell", "relay_cell"), "cell-emitters", fi, c, f"raw send in {fi.name}",
                      "the crypto endpoint sends bytes outside send_cell/relay_cell")


def run(ctx: Ctx) -> None:
    rule_duality(ctx)
    rule_plaintext(ctx)
    rule_crypto_before_send(ctx)
    rule_drop_on_failure(ctx)
    rule_e2e_delivery(ctx)
    rule_key_selection(ctx)
    rule_emitters(ctx)
    ctx.assume("ChaCha20-Poly1305 in ipv8_rust_tunnels.SessionKeys.encrypt_str/decrypt_str: decrypt raises ValueError on any altered byte; ciphertexts under different keys differ (trusted)")
    ctx.assume("a Rust CryptoEndpoint (ipv8_rust_tunnels.Endpoint), when used instead of PythonCryptoEndpoint, is outside the analysed source")


WITNESSES = [
    {"name": "pre-fix: only ValueError from the AEAD converted", "file": CR, "rule": "drop-on-failure",
     "old": "                cell.message = hop.keys.decrypt_str(cell.message, direction)\n            except Exception as e:",
     "new": "                cell.message = hop.keys.decrypt_str(cell.message, direction)\n            except ValueError as e:"},
    {"name": "pre-fix: unknown circuit sent in clear", "file": CR, "rule": "crypto-before-send",
     "old": "            elif not cell.plaintext:\n                # Without a routing entry there are no keys: never send such a cell unencrypted.\n                self.logger.warning(\"Dropping outgoing cell for unknown circuit %d\", circuit_id)\n                return None\n",
     "new": ""},
    {"name": "originator encrypts hops in path order", "file": CR, "rule": "direction-duality",
     "old": "        for layer, hop in enumerate(reversed(hops)):\n            if not hop.keys:", "new": "        for layer, hop in enumerate(hops):\n            if not hop.keys:"},
    {"name": "exit encrypts FORWARD", "file": CR, "rule": "direction-duality",
     "old": "                self.encrypt_cell(cell, BACKWARD, exit_socket.hop)", "new": "                self.encrypt_cell(cell, FORWARD, exit_socket.hop)"},
    {"name": "originator skips first hop layer", "file": CR, "rule": "direction-duality",
     "old": "                self.encrypt_cell(cell, FORWARD, *circuit.hops)", "new": "                self.encrypt_cell(cell, FORWARD, *circuit.hops[1:])"},
    {"name": "e2e applied after hop layers on send", "file": CR, "rule": "direction-duality",
     "old": """                if circuit.hs_session_keys:
                    direction = FORWARD if circuit.ctype == CIRCUIT_TYPE_RP_SEEDER else BACKWARD
                    self.encrypt_cell(cell, direction, Hop(circuit.hop.peer, circuit.hs_session_keys))
                self.encrypt_cell(cell, FORWARD, *circuit.hops)""",
     "new": """                self.encrypt_cell(cell, FORWARD, *circuit.hops)
                if circuit.hs_session_keys:
                    direction = FORWARD if circuit.ctype == CIRCUIT_TYPE_RP_SEEDER else BACKWARD
                    self.encrypt_cell(cell, direction, Hop(circuit.hop.peer, circuit.hs_session_keys))"""},
    {"name": "e2e direction not dual", "file": CR, "rule": "direction-duality",
     "old": "direction = FORWARD if circuit.ctype == CIRCUIT_TYPE_RP_DOWNLOADER else BACKWARD",
     "new": "direction = FORWARD if circuit.ctype == CIRCUIT_TYPE_RP_SEEDER else BACKWARD"},
    {"name": "relay backward decrypts", "file": CR, "rule": "direction-duality",
     "old": "                elif direction == BACKWARD:\n                    self.encrypt_cell(cell, direction, next_relay.hop)",
     "new": "                elif direction == BACKWARD:\n                    self.decrypt_cell(cell, direction, next_relay.hop)"},
    {"name": "missing keys skip layer", "file": CR, "rule": "crypto-before-send",
     "old": "            if not hop.keys:\n                msg = f\"Missing keys for circuit {cell.circuit_id} (layer {layer + 1}/{len(hops)})\"\n                raise CryptoException(msg)",
     "new": "            if not hop.keys:\n                continue"},
    {"name": "decrypt failure swallowed", "file": CR, "rule": "drop-on-failure",
     "old": "                msg = f\"Failed to decrypt cell for {cell.circuit_id} (dir {direction}) (layer {layer + 1}/{len(hops)})\"\n                raise CryptoException(msg) from e",
     "new": "                self.logger.warning(\"Failed to decrypt cell for %d\", cell.circuit_id)"},
    {"name": "ping allowed in plaintext", "file": PL, "rule": "plaintext-whitelist",
     "old": "NO_CRYPTO_PACKETS = [CreatePayload.msg_id, CreatedPayload.msg_id]",
     "new": "NO_CRYPTO_PACKETS = [CreatePayload.msg_id, CreatedPayload.msg_id, PingPayload.msg_id]"},
    {"name": "plaintext flag for circuitless sends", "file": TC, "rule": "plaintext-whitelist",
     "old": "        cell.plaintext = payload.msg_id in NO_CRYPTO_PACKETS",
     "new": "        cell.plaintext = payload.msg_id in NO_CRYPTO_PACKETS or payload.circuit_id not in self.circuits"},
    {"name": "process_cell delivers plaintext data cell", "file": CR, "rule": "plaintext-whitelist",
     "old": "        if cell.plaintext and cell.message[0] not in NO_CRYPTO_PACKETS:\n            self.logger.warning(\"Dropping cell (only create/created can have plaintext flag set)\")\n            return\n",
     "new": "        if cell.plaintext and cell.message[0] not in NO_CRYPTO_PACKETS:\n            self.logger.warning(\"Dropping cell (only create/created can have plaintext flag set)\")\n"},
    {"name": "relay forwards plaintext cells", "file": CR, "rule": "plaintext-whitelist",
     "old": "        if cell.plaintext:\n            self.logger.warning(\"Dropping cell (cell not encrypted)\")\n            return\n", "new": ""},
    {"name": "send_cell ignores crypto failure", "file": CR, "rule": "crypto-before-send",
     "old": "        if not self.outgoing_crypto(cell):\n            return\n", "new": "        self.outgoing_crypto(cell)\n"},
    {"name": "outgoing_crypto returns cell on failure", "file": CR, "rule": "crypto-before-send",
     "old": "                return None\n        except CryptoException as e:\n            self.logger.warning(str(e))\n            return None",
     "new": "                return None\n        except CryptoException as e:\n            self.logger.warning(str(e))"},
    {"name": "relay forwards after crypto failure", "file": CR, "rule": "drop-on-failure",
     "old": "        except CryptoException as e:\n            self.logger.warning(str(e))\n            return\n\n        cell.circuit_id = next_relay.circuit_id",
     "new": "        except CryptoException as e:\n            self.logger.warning(str(e))\n\n        cell.circuit_id = next_relay.circuit_id"},
    {"name": "process_cell delivers undecryptable cell", "file": CR, "rule": "drop-on-failure",
     "old": "        if not self.incoming_crypto(cell):\n            return\n", "new": "        self.incoming_crypto(cell)\n"},
    {"name": "unknown circuit cell accepted", "file": CR, "rule": "drop-on-failure",
     "old": "            self.logger.debug(\"Got encrypted cell from unknown circuit %d\", circuit_id)\n            return None",
     "new": "            self.logger.debug(\"Got encrypted cell from unknown circuit %d\", circuit_id)"},
    {"name": "create accepted under the id of an own circuit", "file": TC, "rule": "key-selection",
     "old": "        if circuit_id in self.circuits or circuit_id in self.relay_from_to or circuit_id in self.exit_sockets:",
     "new": "        if circuit_id in self.relay_from_to or circuit_id in self.exit_sockets:"},
    {"name": "relay: crypto failure reported but ignored", "file": CR, "rule": "drop-on-failure",
     "old": "        except CryptoException as e:\n            self.logger.warning(str(e))\n            return\n\n        cell.circuit_id = next_relay.circuit_id",
     "new": "        except CryptoException as e:\n            self.logger.warning(str(e))\n            cell.relay_early = False\n\n        cell.circuit_id = next_relay.circuit_id"},
    {"name": "layer removed outside the role functions", "file": CR, "rule": "direction-duality",
     "old": "        if not self.incoming_crypto(cell):\n            return\n",
     "new": "        if not self.incoming_crypto(cell):\n            return\n        self.decrypt_cell(cell, FORWARD, *self.circuits[circuit_id].hops)\n"},
    {"name": "community serialises cell itself", "file": TC, "rule": "cell-emitters",
     "old": "        return self.crypto_endpoint.send_cell(target_addr, cell)",
     "new": "        if payload.msg_id == 6:\n            self.endpoint.send(target_addr, cell.to_bin(self._prefix))\n            return None\n        return self.crypto_endpoint.send_cell(target_addr, cell)"},
]
