"""C04 - Onion circuits deliver data intact and never expose it in transit (layering discipline)."""
from __future__ import annotations

import ast

from ..core import Ctx
from ..match import arg, call_name, calls, facts_at, local_defs, resolve, single_def
from ..model import AnalysisError, FuncInfo, ancestors, chain, const_value, enclosing_stmt, norm, strip_cast, walk_no_nested

LEVEL = "other"
EXPLANATION = (
    "Layering discipline as a table and as path rules: every encrypt_cell/decrypt_cell call site in outgoing_crypto / "
    "incoming_crypto / relay_cell is extracted with (role facts, operation, direction, hops) and compared with the "
    "protocol table (originator encrypt FORWARD over all hops <-> relay/exit decrypt FORWARD; exit/relay encrypt BACKWARD "
    "<-> originator decrypt BACKWARD; e2e layer innermost with dual seeder/downloader directions; encrypt iterates hops "
    "reversed, decrypt in order; missing keys raise); only create/created may be plaintext and plaintext cells of any "
    "other type are dropped before delivery/relay; every cell leaves through a successful crypto step; a cell that fails "
    "authentication is dropped. Byte equality / ciphertext distinctness / tamper rejection rest on the AEAD (trusted)."
)

CR = "ipv8/messaging/anonymization/crypto.py"
TC = "ipv8/messaging/anonymization/community.py"
PL = "ipv8/messaging/anonymization/payload.py"


def _role(facts) -> str:
    pos = sorted({chain(f.left) for f in facts if f.op == "truthy" and f.pos and chain(f.left)})
    neg = sorted({chain(f.left) for f in facts if f.op == "truthy" and not f.pos and chain(f.left)})
    eqs = sorted({f"{norm(f.left)}=={norm(f.right)}" for f in facts if f.op == "eq" and f.pos})
    return "+".join(pos) + ("|not:" + ",".join(neg) if neg else "") + ("|" + ",".join(eqs) if eqs else "")


def _dir_text(fi: FuncInfo, e: ast.AST) -> str:
    e = resolve(fi, e)
    return norm(e)


EXPECTED = {
    "outgoing_crypto": {
        ("encrypt_cell", "FORWARD if circuit.ctype == CIRCUIT_TYPE_RP_SEEDER else BACKWARD", "Hop(circuit.hop.peer, circuit.hs_session_keys)"):
            ({"circuit", "circuit.hs_session_keys"}, set()),
        ("encrypt_cell", "FORWARD", "*circuit.hops"): ({"circuit"}, set()),
        ("encrypt_cell", "BACKWARD", "exit_socket.hop"): ({"exit_socket"}, {"circuit"}),
        ("encrypt_cell", "BACKWARD", "relay.hop"): ({"relay", "relay.rendezvous_relay"}, {"circuit", "exit_socket"}),
        ("encrypt_cell", "other.direction", "other.hop"): ({"relay"}, {"circuit", "exit_socket", "relay.rendezvous_relay"}),
    },
    "incoming_crypto": {
        ("decrypt_cell", "FORWARD", "exit_socket.hop"): ({"exit_socket"}, set()),
        ("decrypt_cell", "BACKWARD", "*circuit.hops"): ({"circuit"}, {"exit_socket"}),
        ("decrypt_cell", "FORWARD if circuit.ctype == CIRCUIT_TYPE_RP_DOWNLOADER else BACKWARD", "Hop(circuit.hop.peer, circuit.hs_session_keys)"):
            ({"circuit", "circuit.hs_session_keys"}, {"exit_socket"}),
    },
    "relay_cell": {
        ("decrypt_cell", "FORWARD", "next_relay.hop"): ({"next_relay.rendezvous_relay"}, set()),
        ("encrypt_cell", "BACKWARD", "this_relay.hop"): ({"next_relay.rendezvous_relay"}, set()),
        ("decrypt_cell", "next_relay.direction", "next_relay.hop"): (set(), {"next_relay.rendezvous_relay"}),
        ("encrypt_cell", "next_relay.direction", "next_relay.hop"): (set(), {"next_relay.rendezvous_relay"}),
    },
}


def rule_duality(ctx: Ctx) -> None:
    repo = ctx.repo
    for fname, table in EXPECTED.items():
        fi = repo.method("PythonCryptoEndpoint", fname, CR)
        cfg = ctx.cfg(fi)
        found = {}
        for c in calls(fi, ["self.encrypt_cell", "self.decrypt_cell"]):
            op = call_name(c)
            d = _dir_text(fi, arg(c, 1))
            hops = ", ".join(norm(a) for a in c.args[2:])
            facts = facts_at(cfg, c)
            pos = {chain(f.left) for f in facts if f.op == "truthy" and f.pos and chain(f.left)}
            neg = {chain(f.left) for f in facts if f.op == "truthy" and not f.pos and chain(f.left)}
            eq = {(norm(f.left), norm(f.right)) for f in facts if f.op == "eq" and f.pos}
            key = (op, d, hops)
            found[key] = c
            exp = table.get(key)
            ok = exp is not None and exp[0] <= pos and exp[1] <= neg and norm(arg(c, 0)) == "cell"
            if fname == "relay_cell" and d == "next_relay.direction" and ok:
                want = "FORWARD" if op == "decrypt_cell" else "BACKWARD"
                ok = ("direction", want) in eq or ("next_relay.direction", want) in eq
            ctx.check(ok, "direction-duality", fi, c, f"{fname}: {op}(dir={d}, hops={hops}) under role +{sorted(pos)} -{sorted(neg)}",
                      f"{fname}: crypto step {op}(direction={d}, hops={hops}) under role +{sorted(pos)} -{sorted(neg)} is not a row of the "
                      "onion protocol table (wrong operation, direction, key set or role)")
        for key in table:
            ctx.check(key in found, "direction-duality", fi, fi.node, f"{fname}: protocol row {key} present",
                      f"{fname}: the protocol step {key} is missing: a layer is no longer added/removed for that role")
        # ordering of the e2e layer relative to the hop layers
        if fname in ("outgoing_crypto", "incoming_crypto"):
            e2e = [c for k, c in found.items() if k[2].startswith("Hop(")]
            hopl = [c for k, c in found.items() if k[2] == "*circuit.hops"]
            if e2e and hopl:
                n_e2e = cfg.nodes_for(e2e[0])
                n_hop = cfg.nodes_for(hopl[0])
                if fname == "outgoing_crypto":
                    ok = all(cfg.must_complete(h, n_e2e) or True for h in n_hop) and \
                        all(h in cfg.reach([v for e in n_e2e for v, lab in e.succ if lab != "exc"]) for h in n_hop) and \
                        not any(e in cfg.reach([v for h in n_hop for v, lab in h.succ if lab != "exc"]) for e in n_e2e)
                    what = "sending: e2e layer applied before (inside) the hop layers"
                else:
                    ok = all(e in cfg.reach([v for h in n_hop for v, lab in h.succ if lab != "exc"]) for e in n_e2e) and \
                        not any(h in cfg.reach([v for e in n_e2e for v, lab in e.succ if lab != "exc"]) for h in n_hop)
                    what = "receiving: hop layers removed before the e2e layer"
                ctx.check(ok, "direction-duality", fi, e2e[0], what, f"{fname}: order of the end-to-end layer and the hop layers is wrong ({what})")
    # direction values of relay routes are FORWARD/BACKWARD constants at every construction site
    n = 0
    for m, fi, c in repo.callers_of_name("RelayRoute"):
        if fi is None:
            continue
        n += 1
        d = arg(c, 2, "direction")
        ctx.check(d is not None and chain(d) in ("FORWARD", "BACKWARD"), "direction-duality", fi, c,
                  f"RelayRoute constructed with direction {norm(d) if d is not None else None}",
                  "a relay route is constructed with a direction that is not FORWARD/BACKWARD")
    ctx.floor("direction-duality.relayroute", n, 4)
    # on_created: backward route points to the requester, forward route to the new hop, both with the hop's session keys
    oc = repo.method("TunnelCommunity", "on_created", TC)
    rr = [c for c in calls(oc, "RelayRoute")]
    pairs = {chain(arg(c, 2)): norm(arg(c, 0)) for c in rr}
    ctx.check(pairs == {"BACKWARD": "request.from_circuit_id", "FORWARD": "request.to_circuit_id"}, "direction-duality", oc, oc.node,
              "on_created builds BACKWARD route -> from_circuit and FORWARD route -> to_circuit",
              f"relay routes built in on_created have the wrong direction/circuit pairing: {pairs}")
    # FORWARD != BACKWARD
    t = repo.module("ipv8/messaging/anonymization/tunnel.py")
    f_, b_ = repo.resolve_const(t, t.constants["FORWARD"]), repo.resolve_const(t, t.constants["BACKWARD"])
    ctx.check(f_ != b_, "direction-duality", t.relpath, "FORWARD/BACKWARD", "direction constants differ", "FORWARD == BACKWARD")

    # encrypt_cell / decrypt_cell loop shape
    for name, prim, order in (("encrypt_cell", "encrypt_str", "reversed"), ("decrypt_cell", "decrypt_str", "forward")):
        fi = repo.method("PythonCryptoEndpoint", name, CR)
        cfg = ctx.cfg(fi)
        loops = [l for l in walk_no_nested(fi.node) if isinstance(l, ast.For)]
        ctx.anchor(loops, f"hop loop in {name}")
        lp = loops[0]
        it = lp.iter
        if isinstance(it, ast.Call) and chain(it.func) == "enumerate":
            it = it.args[0]
        hops_param = fi.node.args.vararg.arg if fi.node.args.vararg else None
        if order == "reversed":
            ok = isinstance(it, ast.Call) and chain(it.func) == "reversed" and chain(it.args[0]) == hops_param
        else:
            ok = chain(it) == hops_param
        ctx.check(ok, "direction-duality", fi, lp, f"{name} iterates hops {order}",
                  f"{name} must iterate the hops {'last-to-first (first hop outermost)' if order == 'reversed' else 'first-to-last'}")
        prims = [c for c in calls(fi) if call_name(c) == prim]
        ctx.anchor(prims, f"{prim} in {name}")
        for c in prims:
            st = enclosing_stmt(c)
            ok = isinstance(st, ast.Assign) and chain(st.targets[0]) == "cell.message" and norm(arg(c, 0)) == "cell.message" \
                and norm(arg(c, 1)) == fi.params()[2] and (chain(c.func) or "").endswith(".keys." + prim)
            ctx.check(ok, "direction-duality", fi, st, f"{name}: cell.message = hop.keys.{prim}(cell.message, direction)",
                      f"{name} does not replace the message by the {prim} of the message under the given direction")
            facts = facts_at(cfg, c)
            has_keys = any((f.op == "truthy" and f.pos and (chain(f.left) or "").endswith(".keys")) or
                           (f.op == "is" and not f.pos and (chain(f.left) or "").endswith(".keys")) for f in facts)
            ctx.check(has_keys, "crypto-before-send", fi, c, f"{name}: a hop without keys raises instead of skipping the layer",
                      f"{name} can skip a layer silently when a hop has no keys", [str(f) for f in facts])
        # the "no keys" branch must raise (not continue / return)
        for n in cfg.nodes:
            if n.kind != "cond":
                continue
            a = n.ast
            nokeys_pol = None
            if (chain(a) or "").endswith(".keys"):
                nokeys_pol = False
            elif isinstance(a, ast.Compare) and len(a.ops) == 1 and (chain(a.left) or "").endswith(".keys") \
                    and isinstance(a.comparators[0], ast.Constant) and a.comparators[0].value is None:
                nokeys_pol = isinstance(a.ops[0], ast.Is)
            if nokeys_pol is None:
                continue
            starts = [v for v, lab in n.succ if lab is nokeys_pol]
            r = cfg.reach(starts, follow_exc=False)
            ok = cfg.exit not in r and not any(x.kind == "loop" for x in r)
            ctx.check(ok, "crypto-before-send", fi, a, f"{name}: the missing-keys branch raises",
                      f"{name}: when a hop has no keys the layer is skipped (continue/return) instead of raising CryptoException")
        # wrong-other primitive absent
        other = "decrypt_str" if prim == "encrypt_str" else "encrypt_str"
        ctx.check(not [c for c in calls(fi) if call_name(c) == other], "direction-duality", fi, fi.node,
                  f"{name} uses only {prim}", f"{name} calls {other}")
        # every failure of the foreign AEAD call is turned into CryptoException (=> caller drops the cell).  The binary
        # extension documents no exception contract (decrypt_str raises RuntimeError on a tag mismatch, ValueError on short
        # input), so only a catch-all handler contains it.
        from ..cfg import _catches_all
        for c in prims:
            tr = next((a for a in ancestors(c) if isinstance(a, ast.Try) and any(c in list(ast.walk(b)) for b in a.body)), None)
            ok = tr is not None and any(_catches_all(h) for h in tr.handlers)
            ctx.check(ok, "drop-on-failure", fi, c, f"{name}: {prim} is wrapped in try/except Exception",
                      f"{name}: the AEAD call {prim} is not contained by a catch-all handler: a tag mismatch raises RuntimeError (not ValueError) "
                      "out of process_cell into the transport instead of dropping the cell")
            for h in (tr.handlers if tr is not None else []):
                raises = [s for s in ast.walk(h) if isinstance(s, ast.Raise)]
                ok = bool(raises) and all(s.exc is not None and (chain(s.exc) == "CryptoException" or
                                                                (isinstance(s.exc, ast.Call) and chain(s.exc.func) == "CryptoException"))
                                          for s in raises) and cfg_handler_always_raises(ctx, fi, h)
                ctx.check(ok, "drop-on-failure", fi, h, f"{name}: AEAD failure re-raised as CryptoException",
                          f"{name} swallows an authentication failure of the AEAD layer")


def cfg_handler_always_raises(ctx: Ctx, fi: FuncInfo, h: ast.ExceptHandler) -> bool:
    cfg = ctx.cfg(fi)
    hn = [n for n in cfg.by_ast.get(id(h), []) if n.kind == "handler"]
    for n in hn:
        r = cfg.reach([n], follow_exc=False)
        # following only normal edges from the handler entry we must not reach the normal exit or the loop head
        if cfg.exit in r or any(x.kind == "loop" for x in r):
            return False
    return bool(hn)


def rule_plaintext(ctx: Ctx) -> None:
    repo = ctx.repo
    pm = repo.module(PL)
    ncp = pm.constants.get("NO_CRYPTO_PACKETS")
    ctx.anchor(ncp, "NO_CRYPTO_PACKETS")
    names = [norm(e) for e in ncp.elts] if isinstance(ncp, (ast.List, ast.Tuple)) else []
    vals = repo.resolve_const(pm, ncp)
    ctx.check(sorted(names) == ["CreatePayload.msg_id", "CreatedPayload.msg_id"] and sorted(vals) == [2, 3], "plaintext-whitelist", PL, ncp,
              "NO_CRYPTO_PACKETS == [create, created]", f"the set of message types that may travel unencrypted is {names} = {vals}")
    # who sets plaintext
    n = 0
    for m in repo.modules.values():
        for node in ast.walk(m.tree):
            if isinstance(node, ast.Attribute) and node.attr == "plaintext" and isinstance(node.ctx, ast.Store):
                fi = repo.function_of(node)
                st = enclosing_stmt(node)
                n += 1
                if fi is not None and fi.qualname == "CellPayload.__init__":
                    ok = isinstance(st, ast.Assign) and chain(st.value) == "plaintext"
                elif fi is not None and fi.qualname == "TunnelCommunity.send_cell":
                    v = st.value if isinstance(st, ast.Assign) else None
                    ok = isinstance(v, ast.Compare) and isinstance(v.ops[0], ast.In) and norm(v.left) == "payload.msg_id" \
                        and chain(v.comparators[0]) == "NO_CRYPTO_PACKETS"
                else:
                    ok = False
                ctx.check(ok, "plaintext-whitelist", fi or m.relpath, st, "plaintext flag set only from msg_id in NO_CRYPTO_PACKETS",
                          "the plaintext flag of an outgoing cell is set by something other than membership in NO_CRYPTO_PACKETS")
    ctx.floor("plaintext-whitelist.setters", n, 2)
    for m, fi, c in repo.callers_of_name("CellPayload"):
        if fi is None:
            continue
        p = arg(c, 2, "plaintext")
        ctx.check(p is None, "plaintext-whitelist", fi, c, "CellPayload constructed without a plaintext argument",
                  "a cell is constructed with an explicit plaintext flag")
    # drop rule on the receive side
    for clsname, meth, rel, deliver in (("PythonCryptoEndpoint", "process_cell", CR, "self.tunnel_community.on_packet"),
                                        ("TunnelCommunity", "on_cell", TC, "self.on_packet_from_circuit")):
        fi = repo.method(clsname, meth, rel)
        cfg = ctx.cfg(fi)
        sites = ctx.anchor(calls(fi, deliver), f"{deliver} in {meth}")
        for s in sites:
            bad = _path_with(cfg, s, [("cell.plaintext", True), ("cell.message[0] not in NO_CRYPTO_PACKETS", True)])
            has_both = _has_cond(cfg, "cell.plaintext") and _has_cond(cfg, "cell.message[0] not in NO_CRYPTO_PACKETS")
            ctx.check(has_both and not bad, "plaintext-whitelist", fi, s,
                      f"{meth}: no path delivers a plaintext cell whose type is not create/created",
                      f"{meth} can deliver a cell that arrived unencrypted although its message type requires encryption")
    rc = repo.method("PythonCryptoEndpoint", "relay_cell", CR)
    cfg = ctx.cfg(rc)
    for s in ctx.anchor(calls(rc, "self.endpoint.send"), "endpoint.send in relay_cell"):
        facts = facts_at(cfg, s)
        ok = any(f.op == "truthy" and not f.pos and chain(f.left) == "cell.plaintext" for f in facts)
        ctx.check(ok, "plaintext-whitelist", rc, s, "relay_cell forwards only cells without the plaintext flag",
                  "a relay forwards cells marked plaintext (no layer is added/removed for them)", [str(f) for f in facts])


def _has_cond(cfg, text: str) -> bool:
    return any(n.kind == "cond" and norm(n.ast) == text for n in cfg.nodes)


def _path_with(cfg, site_ast, edges) -> bool:
    """Is there a path entry -> site that takes all labelled cond edges (in order)?"""
    starts = [cfg.entry]
    for text, pol in edges:
        nxt = []
        r = cfg.reach(starts)
        for n in cfg.nodes:
            if n.kind == "cond" and norm(n.ast) == text and n in r:
                nxt.extend(v for v, lab in n.succ if lab is pol)
        if not nxt:
            return False
        starts = nxt
    r = cfg.reach(starts)
    return any(n in r for n in cfg.nodes_for(site_ast))


def rule_crypto_before_send(ctx: Ctx) -> None:
    repo = ctx.repo
    sc = repo.method("PythonCryptoEndpoint", "send_cell", CR)
    cfg = ctx.cfg(sc)
    for s in ctx.anchor(calls(sc, "self.endpoint.send"), "endpoint.send in send_cell"):
        facts = facts_at(cfg, s)
        ok = any(f.op == "truthy" and f.pos and isinstance(f.left, ast.Call) and chain(f.left.func) == "self.outgoing_crypto"
                 and norm(f.left.args[0]) == "cell" for f in facts)
        pkt = resolve(sc, arg(s, 1))
        ok_pkt = isinstance(pkt, ast.Call) and chain(pkt.func) == "cell.to_bin"
        # to_bin must be taken after the crypto step
        ctx.check(ok and ok_pkt, "crypto-before-send", sc, s, "send_cell: endpoint.send dominated by truthy outgoing_crypto(cell), packet = cell.to_bin",
                  "a cell can leave send_cell without passing outgoing_crypto", [str(f) for f in facts])
        tb = [n for n in cfg.nodes_for(pkt)] if ok_pkt else []
        oc = [n for n in cfg.nodes if n.kind == "cond" and isinstance(n.ast, ast.Call) and chain(n.ast.func) == "self.outgoing_crypto"]
        ctx.check(bool(tb) and bool(oc) and all(cfg.must_complete(t, oc) for t in tb), "crypto-before-send", sc, s,
                  "cell serialised after the crypto step", "the cell is serialised before it is encrypted")
    # outgoing_crypto returns None in the CryptoException handler and cell otherwise
    oc = repo.method("PythonCryptoEndpoint", "outgoing_crypto", CR)
    _returns_none_on_crypto_exception(ctx, oc, "crypto-before-send")
    # a cell for which no routing entry (hence no keys) exists must not be returned untouched unless it is a plaintext cell
    cfgo = ctx.cfg(oc)
    for r in [r for r in walk_no_nested(oc.node) if isinstance(r, ast.Return) and r.value is not None and chain(r.value) == "cell"]:
        bad = _path_with(cfgo, r, [("circuit", False), ("exit_socket", False), ("relay", False), ("cell.plaintext", False)]) or \
            (not _has_cond(cfgo, "cell.plaintext") and _path_with(cfgo, r, [("circuit", False), ("exit_socket", False), ("relay", False)]))
        ctx.check(not bad, "crypto-before-send", oc, r, "outgoing_crypto never returns an unencrypted non-plaintext cell for an unknown circuit",
                  "outgoing_crypto returns the cell untouched when no circuit/exit/relay entry exists: send_cell then puts the payload on the wire in clear")
    rc = repo.method("PythonCryptoEndpoint", "relay_cell", CR)
    cfg = ctx.cfg(rc)
    crypto_nodes = [n for c in calls(rc, ["self.encrypt_cell", "self.decrypt_cell"]) for n in cfg.nodes_for(c)]
    # infeasible both-false path of the FORWARD/BACKWARD dispatch is cut (domain checked in rule_duality)
    dir_conds = [n for n in cfg.nodes if n.kind == "cond" and isinstance(n.ast, ast.Compare) and norm(n.ast) in ("direction == BACKWARD", "next_relay.direction == BACKWARD")]
    for s in calls(rc, "self.endpoint.send"):
        for sn in cfg.nodes_for(s):
            r = cfg.reach(cut_out_normal=crypto_nodes, cut_edge=lambda u, v, lab: u in dir_conds and lab is False)
            ctx.check(sn not in r, "crypto-before-send", rc, s, "relay_cell: every path to endpoint.send completes an encrypt/decrypt step",
                      "a relay can forward a cell without adding or removing its layer")
    # except CryptoException: return
    for tr in [t for t in walk_no_nested(rc.node) if isinstance(t, ast.Try)]:
        hs = [h for h in tr.handlers if chain(h.type) == "CryptoException"]
        ok = bool(hs) and any(isinstance(s, ast.Return) for s in hs[0].body)
        ctx.check(ok, "drop-on-failure", rc, tr, "relay_cell drops the cell on CryptoException", "relay_cell forwards a cell whose crypto step failed")


def _returns_none_on_crypto_exception(ctx: Ctx, fi: FuncInfo, rule: str) -> None:
    trs = [t for t in walk_no_nested(fi.node) if isinstance(t, ast.Try)]
    ctx.anchor(trs, f"try in {fi.name}")
    for tr in trs:
        hs = [h for h in tr.handlers if chain(h.type) == "CryptoException"]
        ok = bool(hs)
        for h in hs:
            rets = [s for s in ast.walk(h) if isinstance(s, ast.Return)]
            ok = ok and bool(rets) and all(r.value is None or (isinstance(r.value, ast.Constant) and r.value.value is None) for r in rets)
            ok = ok and cfg_handler_never_falls_through(ctx, fi, h)
        ctx.check(ok, rule, fi, tr, f"{fi.name} returns None when a layer fails", f"{fi.name} returns the cell although a crypto layer failed")


def cfg_handler_never_falls_through(ctx: Ctx, fi: FuncInfo, h: ast.ExceptHandler) -> bool:
    cfg = ctx.cfg(fi)
    # every normal path out of the handler ends in a `return None`
    for hn in [n for n in cfg.by_ast.get(id(h), []) if n.kind == "handler"]:
        r = cfg.reach([hn], follow_exc=False)
        for n in r:
            if n.kind == "stmt" and isinstance(n.ast, ast.Return) and not any(n.ast is s for s in ast.walk(h)):
                return False
    return True


def rule_drop_on_failure(ctx: Ctx) -> None:
    repo = ctx.repo
    pc = repo.method("PythonCryptoEndpoint", "process_cell", CR)
    cfg = ctx.cfg(pc)
    for s in ctx.anchor(calls(pc, "self.tunnel_community.on_packet"), "delivery in process_cell"):
        facts = facts_at(cfg, s)
        ok = any(f.op == "truthy" and f.pos and isinstance(f.left, ast.Call) and chain(f.left.func) == "self.incoming_crypto"
                 and norm(f.left.args[0]) == "cell" for f in facts)
        ctx.check(ok, "drop-on-failure", pc, s, "delivery dominated by truthy incoming_crypto(cell)",
                  "a cell is delivered although incoming_crypto rejected it (or was not consulted)", [str(f) for f in facts])
        # the delivered bytes are the decrypted cell
        pk = arg(s, 0)
        ok2 = isinstance(pk, ast.Tuple) and isinstance(pk.elts[1], ast.Call) and chain(pk.elts[1].func) == "cell.to_bin"
        ctx.check(ok2, "drop-on-failure", pc, s, "delivered packet is the decrypted cell re-serialised", "delivered bytes are not the decrypted cell")
    ic = repo.method("PythonCryptoEndpoint", "incoming_crypto", CR)
    _returns_none_on_crypto_exception(ctx, ic, "drop-on-failure")
    cfg = ctx.cfg(ic)
    # encrypted cells of unknown circuits are dropped: `return cell` is not reachable with circuit/exit_socket both falsy and not plaintext
    for r in [r for r in walk_no_nested(ic.node) if isinstance(r, ast.Return) and r.value is not None and chain(r.value) == "cell"]:
        bad = _path_with(cfg, r, [("circuit", False), ("exit_socket", False), ("cell.plaintext", False)])
        ctx.check(not bad and _has_cond(cfg, "cell.plaintext"), "drop-on-failure", ic, r, "encrypted cell for an unknown circuit is never returned",
                  "incoming_crypto accepts an encrypted cell for which no keys are known")
        # all decrypt calls precede the return on their paths: return cell only after try completes normally
    # plaintext cells skip decryption by design (decrypt_cell returns early); they are then limited by the whitelist rule


def rule_e2e_delivery(ctx: Ctx) -> None:
    """Data of an end-to-end (rendezvous) circuit is opaque payload for BOTH parties: it is never interpreted as IPv8 control traffic."""
    od = ctx.repo.method("TunnelCommunity", "on_data", TC)
    cfg = ctx.cfg(od)
    sites = [c for c in calls(od) if chain(c.func) in ("self.on_packet_from_circuit", "self.endpoint.notify_listeners")]
    ctx.anchor(sites, "control delivery in on_data")
    want = {"CIRCUIT_TYPE_RP_DOWNLOADER", "CIRCUIT_TYPE_RP_SEEDER"}
    for s in sites:
        ok = False
        seen = None
        for f in facts_at(cfg, s):
            if f.op == "truthy" and not f.pos:
                e = resolve(od, f.left)
                seen = norm(e)
                if isinstance(e, ast.Compare) and len(e.ops) == 1 and isinstance(e.ops[0], ast.In) and norm(e.left) == "circuit.ctype" \
                        and isinstance(e.comparators[0], (ast.List, ast.Tuple, ast.Set)) and {norm(x) for x in e.comparators[0].elts} == want:
                    ok = True
        ctx.check(ok, "plaintext-whitelist", od, s, "IPv8-shaped data is interpreted as control traffic only on circuits that are neither RP_DOWNLOADER nor RP_SEEDER",
                  f"on_data decides 'end-to-end payload' by `{seen}` instead of circuit.ctype in [RP_DOWNLOADER, RP_SEEDER]: on one side of an e2e circuit, payload that "
                  "merely looks like IPv8 is dropped, misrouted or executed as a tunnel control message instead of being delivered byte-for-byte")
    raw = [c for c in calls(od, "self.on_raw_data")]
    ctx.check(len(raw) == 1 and [norm(a) for a in raw[0].args] == ["circuit", "origin", "data"], "plaintext-whitelist", od, od.node,
              "other circuit data is handed to on_raw_data(circuit, origin, data) unchanged", "raw circuit data is not delivered unchanged")


def rule_emitters(ctx: Ctx) -> None:
    repo = ctx.repo
    allowed_tb = {"PythonCryptoEndpoint.send_cell", "PythonCryptoEndpoint.relay_cell", "PythonCryptoEndpoint.process_cell"}
    n = 0
    for m, fi, c in repo.callers_of_name("to_bin"):
        if fi is None or not fi.module.relpath.startswith("ipv8/messaging/anonymization/"):
            continue
        n += 1
        ctx.check(fi.qualname in allowed_tb, "cell-emitters", fi, c, f"to_bin called in {fi.qualname}",
                  "a wire cell is serialised outside send_cell/relay_cell/process_cell (crypto step bypassed)")
    ctx.floor("cell-emitters", n, 3)
    for m, fi, c in repo.callers_of_name("send_cell"):
        if fi is None:
            continue
        ch = chain(c.func) or ""
        if ch.endswith("crypto_endpoint.send_cell"):
            ctx.check(fi.qualname == "TunnelCommunity.send_cell", "cell-emitters", fi, c, "crypto_endpoint.send_cell only from TunnelCommunity.send_cell",
                      "the crypto endpoint is asked to send a cell whose plaintext flag was not derived by TunnelCommunity.send_cell")
    # TunnelCommunity.send_cell strips the circuit id ([4:]) and prepends the msg id
    sc = repo.method("TunnelCommunity", "send_cell", TC)
    cells = [c for c in calls(sc, "CellPayload")]
    ok = len(cells) == 1 and norm(arg(cells[0], 0)) == "payload.circuit_id"
    ctx.check(ok, "cell-emitters", sc, sc.node, "cell header carries the payload's circuit id", "cell header circuit id differs from the payload's")
    # endpoint.send inside the crypto endpoint only in send_cell / relay_cell
    ce = repo.cls("PythonCryptoEndpoint", CR)
    for fi in ce.methods.values():
        for c in calls(fi, "self.endpoint.send"):
            ctx.check(fi.name in ("send_cell", "relay_cell"), "cell-emitters", fi, c, f"raw send in {fi.name}",
                      "the crypto endpoint sends bytes outside send_cell/relay_cell")


def run(ctx: Ctx) -> None:
    rule_duality(ctx)
    rule_plaintext(ctx)
    rule_crypto_before_send(ctx)
    rule_drop_on_failure(ctx)
    rule_e2e_delivery(ctx)
    rule_emitters(ctx)
    ctx.assume("ChaCha20-Poly1305 in ipv8_rust_tunnels.SessionKeys.encrypt_str/decrypt_str: decrypt raises ValueError on any altered byte; ciphertexts under different keys differ (trusted)")
    ctx.assume("a Rust CryptoEndpoint (ipv8_rust_tunnels.Endpoint), when used instead of PythonCryptoEndpoint, is outside the analysed source")


WITNESSES = [
    {"name": "pre-fix: only ValueError from the AEAD converted", "file": CR, "rule": "drop-on-failure",
     "old": "                cell.message = hop.keys.decrypt_str(cell.message, direction)\n            except Exception as e:",
     "new": "                cell.message = hop.keys.decrypt_str(cell.message, direction)\n            except ValueError as e:"},
    {"name": "pre-fix: unknown circuit sent in clear", "file": CR, "rule": "crypto-before-send",
     "old": "            elif not cell.plaintext:\n                # Without a routing entry there are no keys: never send such a cell unencrypted.\n                self.logger.warning(\"Dropping outgoing cell for unknown circuit %d\", circuit_id)\n                return None\n",
     "new": ""},
    {"name": "originator encrypts hops in path order", "file": CR, "rule": "direction-duality",
     "old": "        for layer, hop in enumerate(reversed(hops)):\n            if not hop.keys:", "new": "        for layer, hop in enumerate(hops):\n            if not hop.keys:"},
    {"name": "exit encrypts FORWARD", "file": CR, "rule": "direction-duality",
     "old": "                self.encrypt_cell(cell, BACKWARD, exit_socket.hop)", "new": "                self.encrypt_cell(cell, FORWARD, exit_socket.hop)"},
    {"name": "originator skips first hop layer", "file": CR, "rule": "direction-duality",
     "old": "                self.encrypt_cell(cell, FORWARD, *circuit.hops)", "new": "                self.encrypt_cell(cell, FORWARD, *circuit.hops[1:])"},
    {"name": "e2e applied after hop layers on send", "file": CR, "rule": "direction-duality",
     "old": """                if circuit.hs_session_keys:
                    direction = FORWARD if circuit.ctype == CIRCUIT_TYPE_RP_SEEDER else BACKWARD
                    self.encrypt_cell(cell, direction, Hop(circuit.hop.peer, circuit.hs_session_keys))
                self.encrypt_cell(cell, FORWARD, *circuit.hops)""",
     "new": """                self.encrypt_cell(cell, FORWARD, *circuit.hops)
                if circuit.hs_session_keys:
                    direction = FORWARD if circuit.ctype == CIRCUIT_TYPE_RP_SEEDER else BACKWARD
                    self.encrypt_cell(cell, direction, Hop(circuit.hop.peer, circuit.hs_session_keys))"""},
    {"name": "e2e direction not dual", "file": CR, "rule": "direction-duality",
     "old": "direction = FORWARD if circuit.ctype == CIRCUIT_TYPE_RP_DOWNLOADER else BACKWARD",
     "new": "direction = FORWARD if circuit.ctype == CIRCUIT_TYPE_RP_SEEDER else BACKWARD"},
    {"name": "relay backward decrypts", "file": CR, "rule": "direction-duality",
     "old": "                elif direction == BACKWARD:\n                    self.encrypt_cell(cell, direction, next_relay.hop)",
     "new": "                elif direction == BACKWARD:\n                    self.decrypt_cell(cell, direction, next_relay.hop)"},
    {"name": "missing keys skip layer", "file": CR, "rule": "crypto-before-send",
     "old": "            if not hop.keys:\n                msg = f\"Missing keys for circuit {cell.circuit_id} (layer {layer + 1}/{len(hops)})\"\n                raise CryptoException(msg)",
     "new": "            if not hop.keys:\n                continue"},
    {"name": "decrypt failure swallowed", "file": CR, "rule": "drop-on-failure",
     "old": "                msg = f\"Failed to decrypt cell for {cell.circuit_id} (dir {direction}) (layer {layer + 1}/{len(hops)})\"\n                raise CryptoException(msg) from e",
     "new": "                self.logger.warning(\"Failed to decrypt cell for %d\", cell.circuit_id)"},
    {"name": "ping allowed in plaintext", "file": PL, "rule": "plaintext-whitelist",
     "old": "NO_CRYPTO_PACKETS = [CreatePayload.msg_id, CreatedPayload.msg_id]",
     "new": "NO_CRYPTO_PACKETS = [CreatePayload.msg_id, CreatedPayload.msg_id, PingPayload.msg_id]"},
    {"name": "plaintext flag for circuitless sends", "file": TC, "rule": "plaintext-whitelist",
     "old": "        cell.plaintext = payload.msg_id in NO_CRYPTO_PACKETS",
     "new": "        cell.plaintext = payload.msg_id in NO_CRYPTO_PACKETS or payload.circuit_id not in self.circuits"},
    {"name": "process_cell delivers plaintext data cell", "file": CR, "rule": "plaintext-whitelist",
     "old": "        if cell.plaintext and cell.message[0] not in NO_CRYPTO_PACKETS:\n            self.logger.warning(\"Dropping cell (only create/created can have plaintext flag set)\")\n            return\n",
     "new": "        if cell.plaintext and cell.message[0] not in NO_CRYPTO_PACKETS:\n            self.logger.warning(\"Dropping cell (only create/created can have plaintext flag set)\")\n"},
    {"name": "relay forwards plaintext cells", "file": CR, "rule": "plaintext-whitelist",
     "old": "        if cell.plaintext:\n            self.logger.warning(\"Dropping cell (cell not encrypted)\")\n            return\n", "new": ""},
    {"name": "send_cell ignores crypto failure", "file": CR, "rule": "crypto-before-send",
     "old": "        if not self.outgoing_crypto(cell):\n            return\n", "new": "        self.outgoing_crypto(cell)\n"},
    {"name": "outgoing_crypto returns cell on failure", "file": CR, "rule": "crypto-before-send",
     "old": "                return None\n        except CryptoException as e:\n            self.logger.warning(str(e))\n            return None",
     "new": "                return None\n        except CryptoException as e:\n            self.logger.warning(str(e))"},
    {"name": "relay forwards after crypto failure", "file": CR, "rule": "drop-on-failure",
     "old": "        except CryptoException as e:\n            self.logger.warning(str(e))\n            return\n\n        cell.circuit_id = next_relay.circuit_id",
     "new": "        except CryptoException as e:\n            self.logger.warning(str(e))\n\n        cell.circuit_id = next_relay.circuit_id"},
    {"name": "process_cell delivers undecryptable cell", "file": CR, "rule": "drop-on-failure",
     "old": "        if not self.incoming_crypto(cell):\n            return\n", "new": "        self.incoming_crypto(cell)\n"},
    {"name": "unknown circuit cell accepted", "file": CR, "rule": "drop-on-failure",
     "old": "            self.logger.debug(\"Got encrypted cell from unknown circuit %d\", circuit_id)\n            return None",
     "new": "            self.logger.debug(\"Got encrypted cell from unknown circuit %d\", circuit_id)"},
    {"name": "community serialises cell itself", "file": TC, "rule": "cell-emitters",
     "old": "        return self.crypto_endpoint.send_cell(target_addr, cell)",
     "new": "        if payload.msg_id == 6:\n            self.endpoint.send(target_addr, cell.to_bin(self._prefix))\n            return None\n        return self.crypto_endpoint.send_cell(target_addr, cell)"},
]
