"""C13 - Introduced peers behind cone NATs become mutually reachable (the clauses visible in code shape)."""
from __future__ import annotations

import ast
import itertools
import re
from dataclasses import dataclass, field

from ..core import Ctx
from ..match import stores
from ..model import AnalysisError, FuncInfo, chain, const_value, norm, strip_cast

LEVEL = "other"
EXPLANATION = (
    "Only the two clauses whose truth is in the shape of the code: (1) whenever an introduction response carries a "
    "non-null introduction, every path also sends a puncture request - built from the requester's LAN/WAN addresses and "
    "the request identifier - to the introduced peer, the requester itself is never introduced, and every answered IPv4 "
    "introduction request first records the requester's LAN address (the only source of the LAN address handed out later); (2) the LAN/WAN "
    "selection at the requester and the puncture target at the introduced peer are evaluated as decision tables over "
    "their atoms (wan known, lan known, same public IP) and must equal the stated tables. The functions are evaluated "
    "symbolically path by path (locals substituted by their values, conditions forked on their atoms), so the verdict "
    "does not depend on how the branches, locals or helpers are spelled. Reachability for the 4x4 NAT "
    "matrix needs a filtering/translating network model and is not decided."
)

CM = "ipv8/community.py"
NULL = ("0.0.0.0", 0)
NULL_T = "('0.0.0.0', 0)"


# ---------------------------------------------------------------------------------------------------------------------
# Path-by-path symbolic evaluation of small handler functions.
#
# A run executes the function body once.  Locals are bound to *value expressions* (ast nodes in which every local has
# been replaced by its own value), so `x = payload.wan; if x[0] == ...` and `if payload.wan[0] == ...` are the same
# condition.  A condition is split into atoms (not / and / or / if-else / chained comparisons are evaluated with
# short-circuit order); an atom whose truth is not known on the current path is looked up in the preset table of the
# rule and otherwise decided both ways: the function is re-run once per decision sequence.  Every run yields one path
# with the facts it assumed, the calls it made (evaluated arguments), its stores to attributes / subscripts and the
# returned value.  Nothing here depends on the position or the syntactic form of a statement.
# ---------------------------------------------------------------------------------------------------------------------

class _Ret(Exception):
    def __init__(self, value) -> None:
        self.value = value


class _Brk(Exception):
    pass


class _Cnt(Exception):
    pass


class _Rse(Exception):
    pass


@dataclass
class _Call:
    chain: str | None
    call: ast.Call          # evaluated call (locals substituted)
    src: ast.Call           # node in the analysed tree
    facts: dict
    ver: dict

    def arg(self, index: int | None, name: str | None = None):
        c = self.call
        if index is not None and index < len(c.args) and not any(isinstance(a, ast.Starred) for a in c.args[: index + 1]):
            return c.args[index]
        if name:
            for k in c.keywords:
                if k.arg == name:
                    return k.value
        return None


@dataclass
class _Store:
    target: str             # text of the evaluated target, e.g. `peer.address`, `self._all_addresses[address]`
    value: ast.expr | None
    src: ast.stmt
    facts: dict
    ver: dict


@dataclass
class _Path:
    end: str = "return"     # return | raise
    ret: ast.expr | None = None
    calls: list = field(default_factory=list)
    stores: list = field(default_factory=list)
    facts: dict = field(default_factory=dict)
    env: dict = field(default_factory=dict)
    ver: dict = field(default_factory=dict)
    forked: list = field(default_factory=list)     # keys that were decided by forking (not preset, not derived)
    pretty: dict = field(default_factory=dict)

    def extra(self) -> str:
        """the conditions this path assumed beyond the rule's own atoms, readable"""
        return ", ".join(self.pretty.get(k, (k, "not " + k))[0 if self.facts[k] else 1] for k in self.forked) or "-"


_VER = re.compile(r"@\d+")


def _unver(text: str) -> str:
    return _VER.sub("", text)


def _t(e) -> str:
    return "<none>" if e is None else norm(e)


def _is_get(e: ast.AST):
    """`D.get(k)` / `D.get(k, None)` -> (D, k) else None"""
    if isinstance(e, ast.Call) and isinstance(e.func, ast.Attribute) and e.func.attr == "get" and not e.keywords \
            and 1 <= len(e.args) <= 2 and not any(isinstance(a, ast.Starred) for a in e.args):
        if len(e.args) == 1 or (isinstance(e.args[1], ast.Constant) and e.args[1].value is None):
            return e.func.value, e.args[0]
    return None


def _has_call(e: ast.AST) -> bool:
    return any(isinstance(n, (ast.Call, ast.NamedExpr, ast.Await)) for n in ast.walk(e))


class _Run:
    def __init__(self, fi: FuncInfo, preset: dict, prefix: list) -> None:
        self.fi = fi
        self.preset = preset
        self.prefix = prefix
        self.trace: list[bool] = []
        self.alternatives: list[list[bool]] = []
        self.env: dict[str, ast.expr] = {}
        self.facts: dict[str, bool] = {}
        self.ver: dict[str, int] = {}
        self.forked: list[str] = []
        self.calls: list[_Call] = []
        self.stores: list[_Store] = []
        self.pretty: dict[str, tuple[str, str]] = {}

    # ------------------------------------------------------------------------------------------------ driver
    def go(self) -> _Path:
        p = _Path()
        try:
            self.block(self.fi.node.body)
        except _Ret as r:
            p.ret = r.value
        except _Rse:
            p.end = "raise"
        except (_Brk, _Cnt):
            raise AnalysisError(f"undecided: break/continue outside a loop in {self.fi.qualname}") from None
        p.calls, p.stores, p.facts, p.env, p.ver, p.forked = self.calls, self.stores, self.facts, self.env, self.ver, self.forked
        p.pretty = self.pretty
        return p

    def undecided(self, what: str):
        return AnalysisError(f"undecided: symbolic evaluation of {self.fi.qualname} does not support {what}")

    # ------------------------------------------------------------------------------------------------ facts
    def decide(self, key: str) -> bool:
        i = len(self.trace)
        if i < len(self.prefix):
            v = self.prefix[i]
        else:
            v = False
            self.alternatives.append([*self.trace, True])
        self.trace.append(v)
        self.forked.append(key)
        return v

    def lookup(self, key: str) -> bool:
        if key in self.facts:
            return self.facts[key]
        v = None
        if key.startswith("t:") and self.facts.get(f"is:{key[2:]}:None") is True:
            v = False                                   # x is None  =>  not x
        elif key.startswith("is:") and key.endswith(":None") and self.facts.get("t:" + key[3:-5]) is True:
            v = False                                   # x truthy   =>  x is not None
        if v is None:
            pk = _unver(key)
            if pk in self.preset:
                v = self.preset[pk]
        if v is None:
            v = self.decide(key)
        self.facts[key] = v
        return v

    def cmp_key(self, l: ast.expr, op: ast.cmpop, r: ast.expr):
        """(key, polarity) of one comparison of evaluated operands, or (None, value) when it is decided statically."""
        key, pol = self._cmp_key(l, op, r)
        if key is not None and key not in self.pretty:
            kind, sym = key.split(":", 1)[0], {"eq": ("==", "!="), "is": ("is", "is not"), "in": ("in", "not in"), "lt": ("<", ">=")}
            a, b = (_t(l), _t(r)) if kind != "lt" or isinstance(op, (ast.Lt, ast.GtE)) else (_t(r), _t(l))
            if kind == "in" and not isinstance(op, (ast.In, ast.NotIn)):
                g = _is_get(strip_cast(l)) or _is_get(strip_cast(r))
                a, b = _t(g[1]), _t(g[0])
            self.pretty[key] = (f"{a} {sym[kind][0]} {b}", f"{a} {sym[kind][1]} {b}")
        return key, pol

    def _cmp_key(self, l: ast.expr, op: ast.cmpop, r: ast.expr):
        l, r = strip_cast(l), strip_cast(r)
        if isinstance(op, (ast.Eq, ast.NotEq)):
            cl, cr = const_value(l), const_value(r)
            pol = isinstance(op, ast.Eq)
            if not _noconst(cl) and not _noconst(cr):
                return None, (cl == cr) == pol
            a, b = sorted((_t(l), _t(r)), key=_unver)
            if a == b:
                return None, pol
            return f"eq:{a}:{b}", pol
        if isinstance(op, (ast.Is, ast.IsNot)):
            pol = isinstance(op, ast.Is)
            if isinstance(l, ast.Constant) and l.value is None:
                l, r = r, l
            if isinstance(r, ast.Constant) and r.value is None:
                if isinstance(l, ast.Constant):
                    return None, (l.value is None) == pol
                if isinstance(l, (ast.Tuple, ast.List, ast.Dict, ast.Set, ast.JoinedStr)):
                    return None, not pol
                g = _is_get(l)
                if g is not None:                        # D.get(k) is None  <=>  k not in D   (values are never None)
                    return f"in:{_t(g[1])}:{_t(g[0])}", not pol
            return f"is:{_t(l)}:{_t(r)}", pol
        if isinstance(op, (ast.In, ast.NotIn)):
            return f"in:{_t(l)}:{_t(r)}", isinstance(op, ast.In)
        if isinstance(op, ast.Lt):
            return f"lt:{_t(l)}:{_t(r)}", True
        if isinstance(op, ast.GtE):
            return f"lt:{_t(l)}:{_t(r)}", False
        if isinstance(op, ast.Gt):
            return f"lt:{_t(r)}:{_t(l)}", True
        if isinstance(op, ast.LtE):
            return f"lt:{_t(r)}:{_t(l)}", False
        raise self.undecided(f"comparison operator {type(op).__name__}")

    def truth(self, v: ast.expr) -> bool:
        """truth value of an evaluated expression on this path (forks on unknown atoms)"""
        v = strip_cast(v)
        if isinstance(v, ast.Constant):
            return bool(v.value)
        if isinstance(v, (ast.List, ast.Tuple, ast.Set)) and not any(isinstance(e, ast.Starred) for e in v.elts):
            return bool(v.elts)
        if isinstance(v, ast.Dict) and all(k is not None for k in v.keys):
            return bool(v.keys)
        if isinstance(v, ast.UnaryOp) and isinstance(v.op, ast.Not):
            return not self.truth(v.operand)
        if isinstance(v, ast.BoolOp):
            if isinstance(v.op, ast.And):
                return all(self.truth(x) for x in v.values)
            return any(self.truth(x) for x in v.values)
        if isinstance(v, ast.IfExp):
            return self.truth(v.body) if self.truth(v.test) else self.truth(v.orelse)
        if isinstance(v, ast.Compare):
            left = v.left
            for op, right in zip(v.ops, v.comparators):
                key, pol = self.cmp_key(left, op, right)
                val = pol if key is None else (self.lookup(key) == pol)
                if not val:
                    return False
                left = right
            return True
        if isinstance(v, ast.Call) and isinstance(v.func, ast.Name) and v.func.id == "bool" and len(v.args) == 1 and not v.keywords:
            return self.truth(v.args[0])
        g = _is_get(v)
        if g is not None:                                # D.get(k) truthy  <=>  k in D and D[k] truthy
            kin = f"in:{_t(g[1])}:{_t(g[0])}"
            self.pretty.setdefault(kin, (f"{_t(g[1])} in {_t(g[0])}", f"{_t(g[1])} not in {_t(g[0])}"))
            return self.lookup(kin) and self.truth(ast.Subscript(value=g[0], slice=g[1], ctx=ast.Load()))
        key = "t:" + _t(v)
        self.pretty.setdefault(key, (_t(v), f"not {_t(v)}"))
        return self.lookup(key)

    def key_of(self, text: str):
        """(key, polarity) of an atom given as source text (no locals)"""
        e = ast.parse(text, mode="eval").body
        if isinstance(e, ast.Compare) and len(e.ops) == 1:
            return self.cmp_key(e.left, e.ops[0], e.comparators[0])
        return "t:" + _t(e), True

    # ------------------------------------------------------------------------------------------------ values
    def versioned(self, n: ast.expr) -> ast.expr:
        t = _t(n)
        k = self.ver.get(t)
        return ast.Name(id=f"{t}@{k}", ctx=ast.Load()) if k else n

    def ev(self, e: ast.expr) -> ast.expr:
        if isinstance(e, ast.Constant):
            return e
        if isinstance(e, ast.Name):
            if e.id in self.env:
                return self.env[e.id]
            return self.versioned(ast.Name(id=e.id, ctx=ast.Load()))
        if isinstance(e, ast.Attribute):
            b = self.base(self.ev(e.value))
            return self.versioned(ast.Attribute(value=b, attr=e.attr, ctx=ast.Load()))
        if isinstance(e, ast.Subscript):
            b = self.base(self.ev(e.value))
            return self.versioned(ast.Subscript(value=b, slice=self.ev(e.slice), ctx=ast.Load()))
        if isinstance(e, ast.Slice):
            return ast.Slice(lower=self.ev(e.lower) if e.lower else None, upper=self.ev(e.upper) if e.upper else None,
                             step=self.ev(e.step) if e.step else None)
        if isinstance(e, ast.Starred):
            return ast.Starred(value=self.ev(e.value), ctx=ast.Load())
        if isinstance(e, ast.Call):
            return self.call(e)
        if isinstance(e, ast.BoolOp):
            if not _has_call(e):
                return ast.BoolOp(op=e.op, values=[self.ev(v) for v in e.values])      # pure: kept symbolic, decided when tested
            is_and = isinstance(e.op, ast.And)
            val = None
            for v in e.values:
                val = self.ev(v)
                if v is e.values[-1] or self.truth(val) != is_and:
                    return val
            return val
        if isinstance(e, ast.UnaryOp):
            return ast.UnaryOp(op=e.op, operand=self.ev(e.operand))
        if isinstance(e, ast.BinOp):
            return ast.BinOp(left=self.ev(e.left), op=e.op, right=self.ev(e.right))
        if isinstance(e, ast.Compare):
            return ast.Compare(left=self.ev(e.left), ops=list(e.ops), comparators=[self.ev(c) for c in e.comparators])
        if isinstance(e, ast.IfExp):
            return self.ev(e.body) if self.truth(self.ev(e.test)) else self.ev(e.orelse)
        if isinstance(e, (ast.Tuple, ast.List, ast.Set)):
            return type(e)(elts=[self.ev(x) for x in e.elts], **({} if isinstance(e, ast.Set) else {"ctx": ast.Load()}))
        if isinstance(e, ast.Dict):
            return ast.Dict(keys=[self.ev(k) if k is not None else None for k in e.keys], values=[self.ev(v) for v in e.values])
        if isinstance(e, (ast.ListComp, ast.SetComp, ast.GeneratorExp)):
            return self.comprehension(e)
        if isinstance(e, ast.NamedExpr):
            v = self.ev(e.value)
            self.env[e.target.id] = v
            return v
        if isinstance(e, ast.Await):
            return ast.Await(value=self.ev(e.value))
        if isinstance(e, ast.JoinedStr):
            return ast.JoinedStr(values=[self.ev(v) for v in e.values])
        if isinstance(e, ast.FormattedValue):
            return ast.FormattedValue(value=self.ev(e.value), conversion=e.conversion, format_spec=e.format_spec)
        if isinstance(e, ast.Lambda):
            return e
        raise self.undecided(f"expression `{norm(e)[:60]}`")

    @staticmethod
    def base(b: ast.expr) -> ast.expr:
        """`D.get(k).x` reads the same value as `D[k].x` (both fail when k is missing)"""
        g = _is_get(b)
        if g is not None:
            return ast.Subscript(value=g[0], slice=g[1], ctx=ast.Load())
        return b

    def call(self, e: ast.Call) -> ast.expr:
        f = e.func
        if isinstance(f, ast.Name) and f.id == "cast" and len(e.args) == 2:
            return self.ev(e.args[1])
        # mutation of a list literal held in a local
        if isinstance(f, ast.Attribute) and isinstance(f.value, ast.Name) and isinstance(self.env.get(f.value.id), ast.List) \
                and f.attr in ("append", "extend", "insert", "clear", "pop", "remove", "sort", "reverse") and not e.keywords:
            cur = self.env[f.value.id]
            args = [self.ev(a) for a in e.args]
            if f.attr == "append" and len(args) == 1 and not isinstance(args[0], ast.Starred):
                self.env[f.value.id] = ast.List(elts=[*cur.elts, args[0]], ctx=ast.Load())
                return ast.Constant(value=None)
            if f.attr == "extend" and len(args) == 1 and isinstance(args[0], (ast.List, ast.Tuple)):
                self.env[f.value.id] = ast.List(elts=[*cur.elts, *args[0].elts], ctx=ast.Load())
                return ast.Constant(value=None)
            raise self.undecided(f"list mutation `{norm(e)[:60]}`")
        fn = self.ev(f)
        args = [self.ev(a) for a in e.args]
        kws = [ast.keyword(arg=k.arg, value=self.ev(k.value)) for k in e.keywords]
        c = ast.Call(func=fn, args=args, keywords=kws)
        self.calls.append(_Call(chain(fn), c, e, dict(self.facts), dict(self.ver)))
        return c

    def comprehension(self, e) -> ast.expr:
        saved = dict(self.env)

        def gen(i: int) -> list:
            if i == len(e.generators):
                return [self.ev(e.elt)]
            g = e.generators[i]
            if g.is_async:
                raise self.undecided("async comprehension")
            it = self.ev(g.iter)
            out = []
            if isinstance(it, (ast.List, ast.Tuple)) and not any(isinstance(x, ast.Starred) for x in it.elts):
                for x in it.elts:
                    self.bind(g.target, x, None)
                    if all(self.truth(self.ev(c)) for c in g.ifs):
                        out.extend(gen(i + 1))
                return out
            self.bind(g.target, _each(it), None)
            if all(self.truth(self.ev(c)) for c in g.ifs):
                out.extend(gen(i + 1))
            return out
        elts = gen(0)
        self.env = saved                                 # comprehension targets are local to the comprehension
        return ast.List(elts=elts, ctx=ast.Load())

    # ------------------------------------------------------------------------------------------------ statements
    def bind(self, target: ast.expr, value: ast.expr | None, stmt) -> None:
        if isinstance(target, ast.Name):
            if value is None:
                self.env.pop(target.id, None)
            else:
                self.env[target.id] = value
            return
        if isinstance(target, (ast.Tuple, ast.List)):
            if any(isinstance(t, ast.Starred) for t in target.elts):
                raise self.undecided("starred assignment target")
            if isinstance(value, (ast.Tuple, ast.List)) and len(value.elts) == len(target.elts) \
                    and not any(isinstance(x, ast.Starred) for x in value.elts):
                for t, x in zip(target.elts, value.elts):
                    self.bind(t, x, stmt)
            else:
                for i, t in enumerate(target.elts):
                    self.bind(t, ast.Subscript(value=value, slice=ast.Constant(value=i), ctx=ast.Load()), stmt)
            return
        if isinstance(target, ast.Attribute):
            n = ast.Attribute(value=self.base(self.ev(target.value)), attr=target.attr, ctx=ast.Load())
        elif isinstance(target, ast.Subscript):
            n = ast.Subscript(value=self.base(self.ev(target.value)), slice=self.ev(target.slice), ctx=ast.Load())
        else:
            raise self.undecided(f"assignment target `{norm(target)[:60]}`")
        t = _t(n)
        self.stores.append(_Store(t, value, stmt, dict(self.facts), dict(self.ver)))
        self.ver[t] = self.ver.get(t, 0) + 1

    def block(self, stmts) -> None:
        for s in stmts:
            self.stmt(s)

    def stmt(self, s: ast.stmt) -> None:  # noqa: C901, PLR0912
        if isinstance(s, ast.Expr):
            if not isinstance(s.value, ast.Constant):
                self.ev(s.value)
        elif isinstance(s, ast.Assign):
            v = self.ev(s.value)
            for t in s.targets:
                self.bind(t, v, s)
        elif isinstance(s, ast.AnnAssign):
            if s.value is not None:
                self.bind(s.target, self.ev(s.value), s)
        elif isinstance(s, ast.AugAssign):
            v = self.ev(s.value)
            if isinstance(s.target, ast.Name):
                cur = self.ev(s.target)
                if isinstance(cur, ast.List) and isinstance(s.op, ast.Add) and isinstance(v, (ast.List, ast.Tuple)):
                    self.env[s.target.id] = ast.List(elts=[*cur.elts, *v.elts], ctx=ast.Load())
                else:
                    self.env[s.target.id] = ast.BinOp(left=cur, op=s.op, right=v)
            else:
                cur = self.ev(s.target)
                self.bind(s.target, ast.BinOp(left=cur, op=s.op, right=v), s)
        elif isinstance(s, ast.If):
            self.block(s.body if self.truth(self.ev(s.test)) else s.orelse)
        elif isinstance(s, ast.For):
            it = self.ev(s.iter)
            if isinstance(it, (ast.List, ast.Tuple)) and not any(isinstance(x, ast.Starred) for x in it.elts):
                broke = False
                for x in it.elts:
                    self.bind(s.target, x, s)
                    try:
                        self.block(s.body)
                    except _Cnt:
                        continue
                    except _Brk:
                        broke = True
                        break
                if not broke:
                    self.block(s.orelse)
            else:
                # unknown iterable: one representative element; lists appended to in the body hold that element
                if s.orelse:
                    raise self.undecided("for/else over an unknown iterable")
                self.bind(s.target, _each(it), s)
                try:
                    self.block(s.body)
                except (_Cnt, _Brk):
                    pass
        elif isinstance(s, ast.With):
            for item in s.items:
                v = self.ev(item.context_expr)
                if item.optional_vars is not None:
                    self.bind(item.optional_vars, v, s)
            self.block(s.body)
        elif isinstance(s, ast.Return):
            raise _Ret(self.ev(s.value) if s.value is not None else None)
        elif isinstance(s, ast.Raise):
            if s.exc is not None:
                self.ev(s.exc)
            raise _Rse
        elif isinstance(s, ast.Assert):
            if not self.truth(self.ev(s.test)):
                raise _Rse
        elif isinstance(s, ast.Break):
            raise _Brk
        elif isinstance(s, ast.Continue):
            raise _Cnt
        elif isinstance(s, (ast.Pass, ast.Global, ast.Nonlocal, ast.Import, ast.ImportFrom)):
            pass
        elif isinstance(s, ast.Delete):
            for t in s.targets:
                self.bind(t, None, s)
        elif isinstance(s, ast.Try):
            # implicit exceptions of calls are not modelled (as in the CFG queries with follow_exc=False); an explicit raise
            # inside a guarded body would need the handlers
            try:
                self.block(s.body)
                self.block(s.orelse)
            except _Rse:
                if s.handlers:
                    raise self.undecided("an explicit raise inside try/except") from None
                raise
            finally:
                self.block(s.finalbody)
        else:
            raise self.undecided(f"statement `{norm(s)[:60]}`")


def _noconst(v) -> bool:
    return type(v).__name__ == "_NoConst"


def _each(it: ast.expr) -> ast.expr:
    return ast.Name(id=f"each({_t(it)})", ctx=ast.Load())


def _paths(fi: FuncInfo, preset: dict | None = None, limit: int = 4000) -> list[_Path]:
    out = []
    stack: list[list[bool]] = [[]]
    while stack:
        run = _Run(fi, preset or {}, stack.pop())
        out.append(run.go())
        stack.extend(run.alternatives)
        if len(out) + len(stack) > limit:
            raise AnalysisError(f"undecided: more than {limit} paths through {fi.qualname}")
    return out


def _preset(fi: FuncInfo, atoms: dict[str, bool]) -> dict[str, bool]:
    """{atom source text: value} -> {fact key: value}"""
    r = _Run(fi, {}, [])
    out = {}
    for text, val in atoms.items():
        key, pol = r.key_of(text)
        out[key] = val if pol else not val
    return out


def _fact(facts: dict, fi: FuncInfo, text: str):
    """value of the atom `text` among the facts (any version of the mentioned attributes), None when not decided"""
    key, pol = _Run(fi, {}, []).key_of(text)
    for k, v in facts.items():
        if _unver(k) == key:
            return v if pol else not v
    return None


def _cur(text: str, ver: dict) -> str:
    """spelling of the attribute chain `text` when read under the store versions `ver`"""
    k = ver.get(text)
    return f"{text}@{k}" if k else text


def _args(c: ast.Call, names: list[str]) -> list[str] | None:
    """texts of the first len(names) parameters of a call, positional or by keyword"""
    out = []
    for i, n in enumerate(names):
        if i < len(c.args):
            if any(isinstance(a, ast.Starred) for a in c.args[: i + 1]):
                return None
            out.append(_t(c.args[i]))
        else:
            k = next((k for k in c.keywords if k.arg == n), None)
            out.append(_t(k.value) if k else "<missing>")
    return out


# ---------------------------------------------------------------------------------------------------------------------

def rule_puncture_accompanies(ctx: Ctx) -> None:  # noqa: C901, PLR0912, PLR0915
    repo = ctx.repo
    fi = repo.method("Community", "create_introduction_response", CM)
    p = fi.params()
    lan_sock, sock, ident, intro_param = p[1], p[2], p[3], p[4]
    paths = [x for x in _paths(fi) if x.end == "return"]
    gf = repo.method("Community", "get_peer_for_introduction", CM)
    payload_names = ("IntroductionResponsePayload", "NewIntroductionResponsePayload")
    fields = ["destination_address", "source_lan_address", "source_wan_address", "lan_introduction_address", "wan_introduction_address"]
    seen: set[str] = set()
    sites = set()
    excl_nodes: dict[int, bool] = {}
    any_send = None
    for path in paths:
        pls = [n for n in ast.walk(path.ret) if isinstance(n, ast.Call) and chain(n.func) in payload_names] if path.ret is not None else []
        pls = list({id(n): n for n in pls}.values())          # `payload.msg_id` and `payload` are the same value
        if len(pls) != 1:
            raise AnalysisError("undecided: a return value of create_introduction_response does not contain one introduction-response payload")
        a = _args(pls[0], fields)
        if a is None:
            raise AnalysisError("undecided: starred arguments in the introduction-response payload")
        dest, lan, wan = a[0], a[3], a[4]
        src_pl = next((c.src for c in path.calls if c.call is pls[0]), fi.node)
        sends = [c for c in path.calls if c.chain == "self.endpoint.send" and isinstance(c.arg(1, "packet"), ast.Call)
                 and chain(c.arg(1, "packet").func) == "self.create_puncture_request"]
        for c in path.calls:
            if c.chain == "self.get_peer_for_introduction":
                ok = _t(c.arg(0, gf.params()[1])) == f"self.network.get_verified_by_address({sock})"
                excl_nodes[id(c.src)] = excl_nodes.get(id(c.src), True) and ok
        if dest != sock and "dest" not in seen:
            seen.add("dest")
            ctx.check(False, "puncture-accompanies", fi, src_pl, "response names the requester's address as destination",
                      "the response's introduction fields are not the ones the puncture was requested for")
        if lan == NULL_T and wan == NULL_T:
            continue
        sites.add((lan, wan))
        if len(sends) != 1:
            key = "nosend:" + lan + wan
            if key not in seen:
                seen.add(key)
                ctx.check(False, "puncture-accompanies", fi, src_pl if not sends else sends[0].src,
                          f"response introducing ({lan}, {wan}) is accompanied by one puncture request",
                          f"an introduction ({lan}, {wan}) can be handed out without asking the introduced peer to puncture towards the "
                          f"requester (path conditions: {path.extra()})")
            continue
        c = sends[0]
        any_send = any_send or c
        tgt = _t(c.arg(0, "socket_address"))
        pk = c.arg(1, "packet")
        who = tgt[: -len(".address")] if tgt.endswith(".address") else None
        ok = who is not None and _args(pk, repo.method("Community", "create_puncture_request", CM).params()[1:4]) == [lan_sock, sock, ident]
        key = f"send:{tgt}:{_t(pk)}"
        if key not in seen:
            seen.add(key)
            ctx.check(ok, "puncture-accompanies", fi, c.src, "puncture request (requester LAN, requester WAN, request identifier) goes to the introduced peer",
                      "the puncture request is sent to the wrong peer or carries other addresses/identifier than the requester's")
        if not ok:
            continue
        # the addresses handed out are those of the peer that is asked to puncture
        is_lan = _fact(path.facts, fi, f"isinstance({who}.address, UDPv4Address)") is True and \
            _fact(path.facts, fi, f"self.address_is_lan({who}.address[0])") is True
        if is_lan:
            want = (f"{who}.address", f"(self.my_estimated_wan[0], {who}.address[1])")
        else:
            want = (f"{who}.addresses.get(UDPv4LANAddress, {NULL_T})", f"{who}.address")
        origin_ok = who == intro_param or who.startswith("self.get_peer_for_introduction(")
        key = f"derive:{is_lan}:{lan}:{wan}:{who}"
        if key not in seen:
            seen.add(key)
            ctx.check((lan, wan) == want and origin_ok, "puncture-accompanies", fi, src_pl,
                      f"introduced (LAN, WAN) = {want} for a peer {'on our LAN' if is_lan else 'elsewhere'}; the same peer gets the puncture request",
                      f"introduction address derivation changed: the response carries ({lan}, {wan}) while the puncture request goes to {tgt}; "
                      f"expected {want}")
    ctx.floor("puncture-accompanies.sites", len(sites), 2)
    ctx.check(bool(excl_nodes) and all(excl_nodes.values()), "puncture-accompanies", fi, fi.node, "the requester is excluded from the introduction choice",
              "the requester can be introduced to itself")

    # introduction candidates: elements of get_peers() that differ from the excluded peer
    excl = gf.params()[1]
    ok, n_choice = True, 0
    for path in _paths(gf):
        if path.end != "return" or path.ret is None or (isinstance(path.ret, ast.Constant) and path.ret.value is None):
            continue
        r = path.ret
        good = False
        if isinstance(r, ast.Call) and (chain(r.func) or "").split(".")[-1] == "choice" and len(r.args) == 1 and isinstance(r.args[0], ast.List):
            each = "each(self.get_peers())"
            elts = {_t(x) for x in r.args[0].elts}
            # an empty literal only arises on a path whose representative element was filtered out: nothing is chosen from it
            good = not elts or (elts == {each} and _fact(path.facts, gf, f"{each} == {excl}") is False)
            n_choice += bool(elts)
        ok = ok and good
    ctx.check(ok and n_choice > 0, "puncture-accompanies", gf, gf.node, "introduction candidates = verified peers except the excluded one", "introduction choice ignores the exclusion")

    # the introducer answers the requester and learns the requester's LAN address
    oir = repo.method("Community", "on_introduction_request", CM)
    op = oir.params()
    peer, payload = op[1], op[3]
    answered = 0
    ok_resp, ok_lan = True, True
    why_lan = ""
    lan_node = oir.node
    for path in _paths(oir):
        cr = [c for c in path.calls if c.chain == "self.create_introduction_response"]
        if not cr:
            continue
        answered += 1
        c = cr[0]
        pa = _cur(f"{peer}.address", c.ver)
        good = len(cr) == 1 and _args(c.call, p[1:4]) == [f"{payload}.destination_address", pa, f"{payload}.identifier"]
        snd = [s for s in path.calls if s.chain == "self.endpoint.send"]
        good = good and len(snd) == 1 and snd[0].arg(1, "packet") is c.call and _t(snd[0].arg(0, "socket_address")) == _cur(f"{peer}.address", snd[0].ver)
        ok_resp = ok_resp and good
        st = [s for s in path.stores if s.target == f"{peer}.address" and s.ver.get(s.target, 0) < c.ver.get(s.target, 0)]
        lan_node = next((s.src for s in path.stores if s.target == f"{peer}.address" and lan_node is oir.node), lan_node)
        is4 = _fact(c.facts, oir, f"isinstance({payload}.source_lan_address, UDPv4Address)")
        want_store = f"UDPv4LANAddress(*{payload}.source_lan_address)"
        if is4 is True:
            good = len(st) == 1 and _t(st[0].value) == want_store
        elif is4 is False:
            good = not st
        else:
            good = False
        if not good and not why_lan:
            why_lan = f" (path conditions: {path.extra()})"
        ok_lan = ok_lan and good
    ctx.check(ok_resp and answered > 0, "puncture-accompanies", oir, oir.node, "introduction response answers the requester with its own identifier", "the response is not addressed to the requester / loses the identifier")
    ctx.check(ok_lan and answered > 0, "puncture-accompanies", oir, lan_node, "the requester's IPv4 LAN address is recorded with the peer before every answer",
              "the requester's LAN address is not learnt on every answered IPv4 request: the introducer later hands out a null LAN address for this peer, "
              "so a requester behind the same NAT cannot connect to it over the LAN" + why_lan)


def rule_requester_selection(ctx: Ctx) -> None:
    repo = ctx.repo
    fi = repo.method("Community", "on_introduction_response", CM)
    p = fi.params()
    peer, payload = p[1], p[3]
    W_, L_ = f"{payload}.wan_introduction_address", f"{payload}.lan_introduction_address"
    MY = f"UDPv4Address(self.my_estimated_lan[0], {W_}[1])"
    table = {}
    for w, l, s in itertools.product([False, True], repeat=3):
        pre = _preset(fi, {f"{W_} != {NULL_T}": w, f"{L_} != {NULL_T}": l, f"{W_}[0] == self.my_estimated_wan[0]": s})
        table[(w, l, s)] = [x for x in _paths(fi, pre) if x.end == "return"]
    # the call sites that hand introduced addresses to the peer graph
    intro_sites = set()
    for paths in table.values():
        for path in paths:
            for c in path.calls:
                if c.chain == "self.network.discover_address" and "_introduction_address" in _t(c.arg(1, "address")):
                    intro_sites.add(id(c.src))
    if not intro_sites:
        raise AnalysisError("anchor-lost: discover_address of an introduced address in on_introduction_response")

    def label(c: _Call) -> str:
        a = _t(c.arg(1, "address"))
        lab = "lan" if a == L_ else "wan" if a == W_ else "mylan:wanport" if _unver(a) == MY else "other:" + a
        if _t(c.arg(0, "peer")) != peer:
            lab += f"(introduced by {_t(c.arg(0, 'peer'))})"
        return lab

    bad = None
    for (w, l, s), paths in table.items():
        if w and not s:
            want = (["lan"] if l else []) + ["wan"]
        elif l and s:
            want = ["lan"]
        elif w:
            want = ["wan", "mylan:wanport"]
        else:
            want = []
        gots = []
        for path in paths:
            got = [label(c) for c in path.calls if id(c.src) in intro_sites]
            if got not in gots:
                gots.append(got)
            if got != want and bad is None:
                bad = (w, l, s, got, want, path.extra())
        ok = gots == [want]
        ctx.instance("requester-selection", fi.where, f"wan_known={w} lan_known={l} same_nat={s} -> {gots[0] if len(gots) == 1 else gots}", ok=ok)
    ctx.functions.add(fi.where)
    if bad:
        ctx.violation("requester-selection", fi, fi.node, f"address selection for (wan_known={bad[0]}, lan_known={bad[1]}, same_nat={bad[2]}) is {bad[3]}, must be {bad[4]} "
                      f"(different NAT: [lan?] wan; same NAT with LAN: lan; same NAT without LAN: wan + own-LAN-ip:wan-port; other path conditions: {bad[5]})")
    # own WAN estimate learnt only from non-LAN IPv4 destinations
    n, ok = 0, True
    for path in table[(True, True, True)]:
        for st in path.stores:
            if st.target == "self.my_estimated_wan":
                n += 1
                ok = ok and _t(st.value) == f"{payload}.destination_address" and \
                    _fact(st.facts, fi, f"self.address_in_lan_subnets({payload}.destination_address[0])") is False
    ctx.check(ok and n > 0, "requester-selection", fi, fi.node, "own WAN estimate is taken from responses that name a non-LAN IPv4 address",
              "the own-WAN estimate (used for the same-NAT test) is learnt from LAN addresses")


def rule_puncture_target(ctx: Ctx) -> None:
    repo = ctx.repo
    fi = repo.method("Community", "on_puncture_request", CM)
    payload = fi.params()[3]
    W_, L_ = f"{payload}.wan_walker_address", f"{payload}.lan_walker_address"
    carried = True
    first = None
    for s in (False, True):
        want = L_ if s else W_
        targets = []
        for path in _paths(fi, _preset(fi, {f"{W_}[0] == self.my_estimated_wan[0]": s})):
            snd = [c for c in path.calls if c.chain == "self.endpoint.send"]
            first = first or (snd[0] if snd else None)
            if path.end != "return" or len(snd) != 1:
                ctx.check(False, "puncture-target", fi, fi.node, "every path of on_puncture_request sends exactly one puncture",
                          f"on_puncture_request can finish without sending one puncture (path conditions: {path.extra()}): the requester's next contact "
                          "attempt is dropped by the introduced peer's NAT")
                return
            t = _t(snd[0].arg(0, "socket_address"))
            if t not in targets:
                targets.append(t)
            pk = snd[0].arg(1, "packet")
            carried = carried and isinstance(pk, ast.Call) and chain(pk.func) == "self.create_puncture" and \
                _args(pk, repo.method("Community", "create_puncture", CM).params()[1:4]) == ["self.my_estimated_lan", W_, f"{payload}.identifier"]
        ok = targets == [want]
        ctx.instance("puncture-target", fi.where, f"same_nat={s} -> puncture sent to {targets[0] if len(targets) == 1 else targets}", ok=ok)
        if not ok:
            ctx.violation("puncture-target", fi, first.src if first else fi.node, f"with same_nat={s} the puncture goes to {targets}, must go to {want}")
    ctx.check(True, "puncture-target", fi, fi.node, "every path of on_puncture_request sends exactly one puncture")
    ctx.check(carried, "puncture-target", fi, first.src if first else fi.node, "puncture carries our LAN address, the requester's WAN address and the request's identifier",
              "the puncture does not carry the identifier/addresses of the puncture request")
    for name in ("on_old_puncture_request", "on_new_puncture_request"):
        f2 = repo.method("Community", name, CM)
        ok = True
        for path in _paths(f2):
            c = [x for x in path.calls if x.chain == "self.on_puncture_request"]
            ok = ok and path.end == "return" and len(c) == 1 and _args(c[0].call, fi.params()[1:4]) == f2.params()[1:4]
        ctx.check(ok, "puncture-target", f2, f2.node, f"{name} forwards to on_puncture_request unchanged", f"{name} does not forward the request unchanged")


def _records_are_truthy(ctx: Ctx, da: FuncInfo) -> bool:
    """Every value stored in Network._all_addresses is a WalkableAddress(...) and that is a NamedTuple with fields (never falsy)."""
    wa = ctx.repo.try_cls("WalkableAddress", da.module.relpath)
    if wa is None or "NamedTuple" not in wa.base_names or not any(isinstance(x, ast.AnnAssign) for x in wa.node.body) or da.cls is None:
        return False
    for m in da.cls.methods.values():
        for st, _ in stores(m, "self._all_addresses[]"):
            if isinstance(st, ast.Delete):
                continue
            v = getattr(st, "value", None)
            if not (isinstance(st, ast.Assign) and isinstance(v, ast.Call) and chain(v.func) == "WalkableAddress"):
                return False
    return True


def rule_introduction_recorded(ctx: Ctx) -> None:
    """discover_address (re)records an introduced address whenever it is unknown or its recorded introducer is not a verified key."""
    da = ctx.repo.method("Network", "discover_address", "ipv8/peerdiscovery/network.py")
    p = da.params()
    peer, addr, service, new_style = p[1], p[2], p[3], p[4]
    A = "self._all_addresses"
    slot = f"{A}[{addr}]"
    found, bad, bad_value = 0, None, None
    rows = []
    records_truthy = _records_are_truthy(ctx, da)
    for k, live in itertools.product([False, True], repeat=2):
        atoms = {f"{addr} in self.blacklist": False, f"{addr} in {A}": k, f"{A}[{addr}].introduced_by in self.verified_by_public_key_bin": live}
        if records_truthy:
            atoms[slot] = True                          # `self._all_addresses.get(address)` is truthy exactly when the address is known
        pre = _preset(da, atoms)
        want = (not k) or (not live)
        outcomes = set()
        for path in _paths(da, pre):
            if path.end != "return":
                continue
            st = [s for s in path.stores if s.target == slot]
            found += len(st)
            outcomes.add(bool(st))
            if bool(st) != want and bad is None:
                bad = (k, live, bool(st), path.extra(), st[0].src if st else da.node)
            for s in st:
                v = s.value
                good = isinstance(v, ast.Call) and chain(v.func) == "WalkableAddress" and \
                    _args(v, ["introduced_by", "services", "new_style"]) == [f"{peer}.public_key.key_to_bin()", service, new_style]
                if not good and bad_value is None:
                    bad_value = s.src
        rows.append((k, live, want, outcomes))
    if not found:
        raise AnalysisError("anchor-lost: _all_addresses[address] = ... in discover_address")
    for k, live, want, outcomes in rows:
        ctx.instance("introduction-recorded", da.where, f"known={k} live_introducer={live} -> recorded={sorted(outcomes)}", ok=outcomes == {want})
    ctx.functions.add(da.where)
    if bad:
        ctx.violation("introduction-recorded", da, bad[4],
                      f"discover_address {'records' if bad[2] else 'does not record'} the introduction for (known={bad[0]}, live introducer={bad[1]}; other path "
                      f"conditions: {bad[3]}); it must (re)record iff the address is unknown or its introducer is no verified key: an address known without a live "
                      "introducer (e.g. from a snapshot) keeps service=None and is never offered as walkable for the overlay")
    ctx.check(bad_value is None, "introduction-recorded", da, bad_value or da.node, "record = (introducer key, service, new_style)", "the recorded introduction loses the introducer/service/new_style")


def run(ctx: Ctx) -> None:
    rule_introduction_recorded(ctx)
    rule_puncture_accompanies(ctx)
    rule_requester_selection(ctx)
    rule_puncture_target(ctx)
    ctx.assume("reachability for each NAT type combination depends on NAT mapping/filtering behaviour that only a network model can provide: not decided")
    ctx.assume("address_in_lan_subnets / address_is_lan classify private addresses correctly (not analysed)")


WITNESSES = [
    {"name": "puncture only for LAN introductions", "file": CM, "rule": "puncture-accompanies",
     "old": "        if introduced and introduction is not None:\n            packet = self.create_puncture_request",
     "new": "        if introduced and introduction is not None and introduction_lan != (\"0.0.0.0\", 0):\n            packet = self.create_puncture_request"},
    {"name": "puncture request names the introducer", "file": CM, "rule": "puncture-accompanies",
     "old": "            packet = self.create_puncture_request(lan_socket_address, socket_address, identifier, prefix=prefix,",
     "new": "            packet = self.create_puncture_request(self.my_estimated_lan, self.my_estimated_wan, identifier, prefix=prefix,"},
    {"name": "puncture request sent to the requester", "file": CM, "rule": "puncture-accompanies",
     "old": "            self.endpoint.send(introduction.address, packet)\n\n        return self._ez_pack(prefix or self._prefix, payload.msg_id, [auth, dist, payload])",
     "new": "            self.endpoint.send(socket_address, packet)\n\n        return self._ez_pack(prefix or self._prefix, payload.msg_id, [auth, dist, payload])"},
    {"name": "flag not set for WAN introductions", "file": CM, "rule": "puncture-accompanies",
     "old": "                introduction_wan = introduction.address\n            introduced = True", "new": "                introduction_wan = introduction.address\n                introduced = False\n            introduced = introduced or introduction_lan != (\"0.0.0.0\", 0)"},
    {"name": "requester may be introduced to itself", "file": CM, "rule": "puncture-accompanies",
     "old": "            introduction = self.get_peer_for_introduction(exclude=other, new_style=new_style)", "new": "            introduction = self.get_peer_for_introduction(new_style=new_style)"},
    {"name": "LAN address recorded on first contact only", "file": CM, "rule": "puncture-accompanies",
     "old": "        if isinstance(payload.source_lan_address, UDPv4Address):\n            peer.address = UDPv4LANAddress(",
     "new": "        if isinstance(payload.source_lan_address, UDPv4Address) and peer not in self.network.verified_peers:\n            peer.address = UDPv4LANAddress("},
    {"name": "introduction only re-recorded for named introducers", "file": "ipv8/peerdiscovery/network.py", "rule": "introduction-recorded",
     "old": "                    or (self._all_addresses[address].introduced_by not in self.verified_by_public_key_bin)):",
     "new": "                    or (self._all_addresses[address].introduced_by\n                        and self._all_addresses[address].introduced_by not in self.verified_by_public_key_bin)):"},
    {"name": "puncture skipped for addresses we walk to ourselves", "file": CM, "rule": "puncture-target",
     "old": "        packet = self.create_puncture(self.my_estimated_lan, payload.wan_walker_address, payload.identifier,",
     "new": "        if target in self.get_walkable_addresses():\n            return\n        packet = self.create_puncture(self.my_estimated_lan, payload.wan_walker_address, payload.identifier,"},
    {"name": "same-NAT without LAN walks WAN only", "file": CM, "rule": "requester-selection",
     "old": "            introductions.append(payload.wan_introduction_address)\n            introductions.append(UDPv4Address(self.my_estimated_lan[0], payload.wan_introduction_address[1]))",
     "new": "            introductions.append(payload.wan_introduction_address)"},
    {"name": "different NAT prefers LAN only", "file": CM, "rule": "requester-selection",
     "old": "            if payload.lan_introduction_address != (\"0.0.0.0\", 0):\n                introductions.append(payload.lan_introduction_address)\n            introductions.append(payload.wan_introduction_address)\n        elif",
     "new": "            if payload.lan_introduction_address != (\"0.0.0.0\", 0):\n                introductions.append(payload.lan_introduction_address)\n            else:\n                introductions.append(payload.wan_introduction_address)\n        elif"},
    {"name": "same-NAT test inverted", "file": CM, "rule": "requester-selection",
     "old": "              and payload.wan_introduction_address[0] == self.my_estimated_wan[0]):\n            introductions.append(payload.lan_introduction_address)",
     "new": "              and payload.wan_introduction_address[0] != self.my_estimated_wan[0]):\n            introductions.append(payload.lan_introduction_address)"},
    {"name": "puncture always to WAN", "file": CM, "rule": "puncture-target",
     "old": "        if payload.wan_walker_address[0] == self.my_estimated_wan[0]:\n            target = payload.lan_walker_address\n", "new": ""},
    {"name": "puncture loses identifier", "file": CM, "rule": "puncture-target",
     "old": "        packet = self.create_puncture(self.my_estimated_lan, payload.wan_walker_address, payload.identifier,",
     "new": "        packet = self.create_puncture(self.my_estimated_lan, payload.wan_walker_address, self.claim_global_time() % 65536,"},
]
