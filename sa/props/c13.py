"""C13 - Introduced peers behind cone NATs become mutually reachable (the clauses visible in code shape)."""
from __future__ import annotations

import ast
import itertools
import re
from dataclasses import dataclass, field

from ..core import Ctx
from ..localnames import load_table
from ..match import stores
from ..model import AnalysisError, ClassInfo, FuncInfo, chain, const_value, enclosing_stmt, norm, strip_cast, walk_no_nested

LEVEL = "other"
EXPLANATION = (
    "Only the two clauses whose truth is in the shape of the code: (1) whenever an introduction response carries a "
    "non-null introduction, every path also sends a puncture request - built from the requester's LAN/WAN addresses and "
    "the request identifier and packed for the same community prefix as the response - to the introduced peer, the requester itself is never introduced, and every answered IPv4 "
    "introduction request first records the requester's LAN address (the only source of the LAN address handed out later); (2) the LAN/WAN "
    "selection at the requester and the puncture target at the introduced peer are evaluated as decision tables over "
    "their atoms (wan known, lan known, same public IP) and must equal the stated tables. The functions are evaluated "
    "symbolically path by path (locals substituted by their values, conditions forked on their atoms; helpers that the "
    "reviewed tree does not have, local defs, lambdas, generators and callables picked from dict/tuple dispatch tables are "
    "entered with their parameters bound to the caller's values; NamedTuple / dataclass / small new-class objects created on a path "
    "keep their field values, so result objects, callable objects, Enum decisions, functools.partial / operator / itertools pipelines "
    "and contextlib.suppress are evaluated by what they compute), so the verdict "
    "does not depend on how the branches, locals or helpers are spelled. Two freshness clauses complete (1) and (2): the "
    "same-NAT test of a response reads the own-WAN estimate as updated by that response, and the wrapper of the signed "
    "introduction handlers records the packet's source address with a known peer on every packet (the address that is "
    "handed out and punctured towards). The contact attempt itself: for a service, Network.get_walkable_addresses holds back only the "
    "addresses of the peers verified for that service (the Network is shared by all overlays of a node). The exclusion of the requester "
    "from the introduction choice names the peer Network.get_verified_by_address finds for the requester's address: every path of that "
    "lookup that answers with a peer has established that the peer uses the address (cached entries included). Reachability for the 4x4 NAT "
    "matrix needs a filtering/translating network model and is not decided."
)

CM = "ipv8/community.py"
NULL = ("0.0.0.0", 0)
NULL_T = "('0.0.0.0', 0)"


# ---------------------------------------------------------------------------------------------------------------------
# Path-by-path symbolic evaluation of small handler functions.
#
# A run executes the function body once.  Locals are bound to *value expressions* (ast nodes in which every local has
# been replaced by its own value), so `x = payload.wan; if x[0] == ...` and `if payload.wan[0] == ...` are the same
# condition.  A condition is split into atoms (not / and / or / if-else / chained comparisons are evaluated with
# short-circuit order); an atom whose truth is not known on the current path is looked up in the preset table of the
# rule and otherwise decided both ways: the function is re-run once per decision sequence.  Every run yields one path
# with the facts it assumed, the calls it made (evaluated arguments), its stores to attributes / subscripts and the
# returned value.  Nothing here depends on the position or the syntactic form of a statement.
# ---------------------------------------------------------------------------------------------------------------------

class _Ret(Exception):
    def __init__(self, value) -> None:
        self.value = value


class _Brk(Exception):
    pass


class _Cnt(Exception):
    pass


class _Rse(Exception):
    pass


class _Exc(_Rse):
    """an implicit exception that the evaluated code catches itself (KeyError of a lookup inside try/except KeyError)"""

    def __init__(self, kind: str) -> None:
        self.kind = kind


_CATCHES_KEYERROR = {"KeyError", "LookupError", "Exception", "BaseException"}


def _catchers(kind: str) -> set[str]:
    """the exception classes whose handlers catch an exception of class `kind`"""
    if kind == "KeyError":
        return _CATCHES_KEYERROR
    if kind == "IndexError":
        return {"IndexError", "LookupError", "Exception", "BaseException"}
    return {kind, "Exception", "BaseException"}


def _handler_catches(h: ast.ExceptHandler, kind: str) -> bool:
    if h.type is None:
        return True
    names = [chain(t) for t in (h.type.elts if isinstance(h.type, ast.Tuple) else [h.type])]
    return any(n is not None and n.split(".")[-1] in _catchers(kind) for n in names)


@dataclass
class _Call:
    chain: str | None
    call: ast.Call          # evaluated call (locals substituted)
    src: ast.Call           # node in the analysed tree
    facts: dict
    ver: dict

    def arg(self, index: int | None, name: str | None = None):
        c = self.call
        if index is not None and index < len(c.args) and not any(isinstance(a, ast.Starred) for a in c.args[: index + 1]):
            return c.args[index]
        if name:
            for k in c.keywords:
                if k.arg == name:
                    return k.value
        return None


@dataclass
class _Store:
    target: str             # text of the evaluated target, e.g. `peer.address`, `self._all_addresses[address]`
    value: ast.expr | None
    src: ast.stmt
    facts: dict
    ver: dict


@dataclass
class _Path:
    end: str = "return"     # return | raise
    ret: ast.expr | None = None
    calls: list = field(default_factory=list)
    stores: list = field(default_factory=list)
    facts: dict = field(default_factory=dict)
    env: dict = field(default_factory=dict)
    ver: dict = field(default_factory=dict)
    forked: list = field(default_factory=list)     # keys that were decided by forking (not preset, not derived)
    pretty: dict = field(default_factory=dict)
    meta: dict = field(default_factory=dict)

    def extra(self) -> str:
        """the conditions this path assumed beyond the rule's own atoms, readable"""
        return ", ".join(self.pretty.get(k, (k, "not " + k))[0 if self.facts[k] else 1] for k in self.forked) or "-"


_VER = re.compile(r"@\d+")


def _unver(text: str) -> str:
    return _VER.sub("", text)


def _t(e) -> str:
    return "<none>" if e is None else norm(e)


def _is_get(e: ast.AST):
    """`D.get(k)` / `D.get(k, None)` -> (D, k) else None"""
    if isinstance(e, ast.Call) and isinstance(e.func, ast.Attribute) and e.func.attr == "get" and not e.keywords \
            and 1 <= len(e.args) <= 2 and not any(isinstance(a, ast.Starred) for a in e.args):
        if len(e.args) == 1 or (isinstance(e.args[1], ast.Constant) and e.args[1].value is None):
            return e.func.value, e.args[0]
    return None


def _has_call(e: ast.AST) -> bool:
    return any(isinstance(n, (ast.Call, ast.NamedExpr, ast.Await)) for n in ast.walk(e))


_REPO = None                # repository model of the current check (set by every rule before it evaluates a function)


def _is_new(fi: FuncInfo) -> bool:
    """fi does not exist in the reviewed tree (sa/tables/local_names.json): a helper introduced by a later change"""
    return fi.qualname not in load_table().get(fi.module.relpath, {})


_NEW_NAMES: list = [None, frozenset()]       # (repo, names of the functions of that repo which the reviewed tree does not have)


def _new_names(repo) -> frozenset:
    if _NEW_NAMES[0] is not repo:
        _NEW_NAMES[0], _NEW_NAMES[1] = repo, frozenset(f.name for f in repo.all_functions() if _is_new(f))
    return _NEW_NAMES[1]


_LITERALS: list = [None, {}]                  # (repo, {(module relpath, name) | (class, .attr): repr of the literal or None})


def _literal_cache(repo) -> dict:
    if _LITERALS[0] is not repo:
        _LITERALS[0], _LITERALS[1] = repo, {}
    return _LITERALS[1]


def _plain_literal(v) -> bool:
    if isinstance(v, tuple):
        return all(_plain_literal(x) for x in v)
    return v is None or (type(v) in (str, bytes, int, float, bool) and v == v)


def _bound_once(module, name: str, imports: bool = False) -> bool:
    """`name` has exactly one binding in the whole module (any scope: a conservative count) and is never declared global"""
    n = 0
    for node in ast.walk(module.tree):
        if isinstance(node, ast.Name) and node.id == name and not isinstance(node.ctx, ast.Load):
            n += 1
        elif isinstance(node, (ast.Global, ast.Nonlocal)) and name in node.names:
            return False
        elif isinstance(node, (ast.FunctionDef, ast.AsyncFunctionDef, ast.ClassDef)) and node.name == name:
            n += 1
        elif isinstance(node, ast.arg) and node.arg == name:
            n += 1
        elif isinstance(node, (ast.Import, ast.ImportFrom)):
            for a in node.names:
                if (a.asname or a.name.split(".")[0]) == name:
                    n += 1 if imports else 2
        elif isinstance(node, ast.ExceptHandler) and node.name == name:
            n += 1
        elif isinstance(node, (ast.MatchAs, ast.MatchStar)) and node.name == name:
            n += 1
    return n == 1


def _consts_bound_once(repo, module, expr: ast.expr, cls=None, depth: int = 0) -> bool:
    """every name the folding of expr went through is itself a module constant bound once (so the folded value is THE value)"""
    if depth > 6:
        return False
    for n in ast.walk(expr):
        if isinstance(n, ast.Name):
            r = repo.resolve_name(module, n.id)
            if not (isinstance(r, tuple) and r[0] == "const" and _bound_once(r[1], n.id)
                    and (r[1] is module or _bound_once(module, n.id, imports=True))
                    and _consts_bound_once(repo, r[1], r[2], None, depth + 1)):
                return False
        elif not isinstance(n, (ast.Constant, ast.Tuple, ast.BinOp, ast.operator, ast.expr_context, ast.UnaryOp, ast.unaryop)):
            return False
    return True


def _is_enum(c) -> bool:
    return isinstance(c, tuple) and c[:1] == ("<enum>",)


def _boolish(e: ast.AST) -> bool:
    """e evaluates to True / False (not merely to something truthy)"""
    if isinstance(e, ast.Compare):
        return True
    if isinstance(e, ast.UnaryOp) and isinstance(e.op, ast.Not):
        return True
    if isinstance(e, ast.BoolOp):
        return all(_boolish(v) for v in e.values)
    if isinstance(e, ast.IfExp):
        return _boolish(e.body) and _boolish(e.orelse)
    if isinstance(e, ast.Constant):
        return isinstance(e.value, bool)
    return isinstance(e, ast.Call) and isinstance(e.func, ast.Name) and e.func.id in ("bool", "isinstance", "issubclass", "callable") \
        and not e.keywords


def _literal_table(e) -> bool:
    if isinstance(e, ast.Dict):
        return all(k is not None for k in e.keys)
    return isinstance(e, (ast.Tuple, ast.List)) and not any(isinstance(x, ast.Starred) for x in e.elts)


_PROPERTY = {"property", "cached_property", "functools.cached_property"}


# ---------------------------------------------------------------------------------------------------------------------
# Objects created on the evaluated path.  `R(a, b).x`, a NamedTuple / dataclass / small class instance returned by a decision
# helper and read back by the caller, a callable object replacing a closure: the value is still the constructor call (so its
# text is what it always was), but it carries what the language defines about it - its class and its attribute values - and
# attribute reads, item reads, unpacking, truth tests, isinstance, class patterns and method calls are answered from that.
# ---------------------------------------------------------------------------------------------------------------------

class _Cls:
    """a class definition as the evaluation needs it: module level (ClassInfo) or local to a function body (ClassDef)"""

    def __init__(self, node: ast.ClassDef, info: ClassInfo | None = None, env: dict | None = None) -> None:
        self.node, self.info, self.env = node, info, env
        self.name = node.name

    def methods(self) -> dict:
        if self.info is not None:
            return dict(self.info.methods)
        return {st.name: st for st in self.node.body if isinstance(st, (ast.FunctionDef, ast.AsyncFunctionDef))}

    def method(self, name: str):
        return self.methods().get(name)

    def attr(self, name: str):
        """value of the class-level assignment `name = value` / `name: T = value`"""
        for st in self.node.body:
            if isinstance(st, ast.Assign) and any(isinstance(t, ast.Name) and t.id == name for t in st.targets):
                return st.value
            if isinstance(st, ast.AnnAssign) and isinstance(st.target, ast.Name) and st.target.id == name and st.value is not None:
                return st.value
        return None

    def bases(self) -> list[str]:
        out = []
        for b in self.node.bases:
            c = chain(b.value if isinstance(b, ast.Subscript) else b)
            out.append((c or norm(b)).split(".")[-1])
        return out

    def decorators(self) -> list[ast.expr]:
        return list(self.node.decorator_list)

    def same(self, other: "_Cls") -> bool:
        return other.node is self.node

    def annotated(self) -> list[ast.AnnAssign]:
        return [st for st in self.node.body if isinstance(st, ast.AnnAssign) and isinstance(st.target, ast.Name)]


_UNMODELLED_HOOKS = {"__new__", "__setattr__", "__getattr__", "__getattribute__", "__delattr__", "__init_subclass__", "__set_name__",
                     "__get__", "__set__", "__eq__", "__hash__"}


def _deco_names(fn) -> set[str]:
    node = fn.node if isinstance(fn, FuncInfo) else fn
    out = set()
    for d in node.decorator_list:
        out.add(chain(d.func if isinstance(d, ast.Call) else d) or norm(d))
    return out


def _class_kind(c: _Cls) -> str | None:
    """tuple (typing.NamedTuple) | data (@dataclass) | plain (attributes set by its own methods) | None (not modelled)"""
    if c.node.keywords or set(c.methods()) & _UNMODELLED_HOOKS:
        return None
    bases, decos = c.bases(), c.decorators()
    if bases == ["NamedTuple"] and not decos and "__init__" not in c.methods():
        return "tuple"
    if not set(bases) <= {"object", "Generic"}:
        return None
    if len(decos) == 1:
        d = decos[0]
        name = chain(d.func if isinstance(d, ast.Call) else d) or ""
        if name.split(".")[-1] != "dataclass" or "__init__" in c.methods():
            return None
        if isinstance(d, ast.Call) and (d.args or any(k.arg in (None, "init", "eq", "order") for k in d.keywords)):
            return None
        return "data"
    if decos:
        return None
    if c.info is not None and not all(_is_new(m) for m in c.info.methods.values()):
        return None                                      # a class of the reviewed tree: its constructor stays an opaque call
    if any(isinstance(st, ast.AnnAssign) and st.value is None for st in c.node.body) and "__init__" not in c.methods():
        return None                                      # declared but unset fields: some base machinery is expected
    return "plain"


_NT_CACHE: dict[int, tuple] = {}


def _functional_namedtuple(name: str, e: ast.expr) -> _Cls | None:
    """`X = namedtuple("X", "a b")` / `X = NamedTuple("X", [("a", T), ...])` as the class definition it abbreviates"""
    if id(e) in _NT_CACHE and _NT_CACHE[id(e)][0] is e:
        return _NT_CACHE[id(e)][1]
    out = None
    if isinstance(e, ast.Call) and (chain(e.func) or "").split(".")[-1] in ("namedtuple", "NamedTuple") and len(e.args) == 2 and not e.keywords:
        spec, names = e.args[1], None
        if isinstance(const_value(spec), str):
            names = const_value(spec).replace(",", " ").split()
        elif isinstance(spec, (ast.List, ast.Tuple)):
            names = []
            for x in spec.elts:
                if isinstance(x, ast.Tuple) and len(x.elts) == 2:
                    x = x.elts[0]
                if not isinstance(const_value(x), str):
                    names = None
                    break
                names.append(const_value(x))
        if names and all(n.isidentifier() for n in names):
            out = _Cls(ast.parse(f"class {name}(NamedTuple):\n" + "".join(f"    {n}: object\n" for n in names)).body[0])
    _NT_CACHE[id(e)] = (e, out)
    return out


class _Rec:
    """what is known of an object created on the evaluated path"""
    __slots__ = ("cls", "kind", "names", "fields")

    def __init__(self, cls: _Cls | None, kind: str, names: list[str], fields: dict) -> None:
        self.cls, self.kind, self.names, self.fields = cls, kind, names, fields


def _rec(v) -> _Rec | None:
    return getattr(v, "_rec", None)


def _fn(v):
    return getattr(v, "_fn", None)


def _items(v) -> list | None:
    """the elements of a value whose elements are known in order: list / tuple literal, NamedTuple object"""
    if isinstance(v, (ast.List, ast.Tuple)) and not any(isinstance(x, ast.Starred) for x in v.elts):
        return list(v.elts)
    r = _rec(v)
    if r is not None and r.kind == "tuple":
        return [r.fields[n] for n in r.names]
    return None


def _int(e) -> int | None:
    c = const_value(e) if e is not None else None
    return c if isinstance(c, int) and not isinstance(c, bool) and not _noconst(c) else None


_BUILTIN_FUNCS = {"filter", "map", "dict", "len", "list", "tuple", "iter", "next", "any", "all", "bool", "isinstance", "getattr", "sum", "sorted",
                  "reversed", "enumerate", "zip", "range", "callable", "min", "max", "set", "frozenset"}

_OPERATOR_CMP = {"eq": ast.Eq, "ne": ast.NotEq, "lt": ast.Lt, "le": ast.LtE, "gt": ast.Gt, "ge": ast.GtE, "is_": ast.Is, "is_not": ast.IsNot}
_OPERATOR_BIN = {"add": ast.Add, "sub": ast.Sub, "mul": ast.Mult, "mod": ast.Mod, "floordiv": ast.FloorDiv, "and_": ast.BitAnd, "or_": ast.BitOr,
                 "xor": ast.BitXor, "lshift": ast.LShift, "rshift": ast.RShift, "concat": ast.Add}


def _class_of_instance(e: ast.expr):
    """x for `type(x)` / `x.__class__` (the class of the object x), else None"""
    if isinstance(e, ast.Call) and isinstance(e.func, ast.Name) and e.func.id == "type" and len(e.args) == 1 and not e.keywords \
            and not isinstance(e.args[0], ast.Starred):
        return e.args[0]
    if isinstance(e, ast.Attribute) and e.attr == "__class__":
        return e.value
    return None


class _Run:
    def __init__(self, fi: FuncInfo, preset: dict, prefix: list, repo=None, driver=None) -> None:
        self.fi = fi
        self.driver = driver                          # what to evaluate instead of the plain body of fi (see _wrapper_driver)
        self.meta: dict = {}                          # what the driver wants the rule to know about this path
        self.repo = repo if repo is not None else _REPO
        self.frames: list[FuncInfo] = [fi]            # the function being evaluated and the helpers it is currently inside
        self.active: list = []                        # function nodes being evaluated (recursion guard)
        self.closures: dict[str, ast.AST] = {}        # local `def`s seen so far (a name passed on to a helper still denotes it)
        self.yields: list[list] = []                  # values produced by the generator helpers being evaluated
        self.awaited: list = []                       # results of inlined coroutine helpers (`await` of them is the value)
        self.defenv: dict[int, dict] = {}             # lambda / local def -> locals of the frame that created it
        self.catching = 0                             # enclosing try statements (also of callers) that catch KeyError
        self.outer: list[dict] = []                   # locals of the callers of the helper being evaluated
        self.records: list[_Rec] = []                 # objects created on this path (their fields may hold lists that are appended to)
        self.imported: dict[str, str] = {}            # names imported inside the evaluated bodies -> dotted origin
        self.local_classes: dict[str, _Cls] = {}      # classes defined inside the evaluated bodies
        self.preset = preset
        self.prefix = prefix
        self.trace: list[bool] = []
        self.alternatives: list[list[bool]] = []
        self.env: dict[str, ast.expr] = {}
        self.facts: dict[str, bool] = {}
        self.ver: dict[str, int] = {}
        self.forked: list[str] = []
        self.calls: list[_Call] = []
        self.stores: list[_Store] = []
        self.pretty: dict[str, tuple[str, str]] = {}

    # ------------------------------------------------------------------------------------------------ driver
    def go(self) -> _Path:
        p = _Path()
        try:
            decos = self.new_decorators(self.fi) if self.driver is None else []
            if self.driver is not None:
                p.ret = self.driver(self)
            elif decos:
                # the analysed function is decorated with a decorator the reviewed tree does not have: what runs under its name is
                # the wrapper that decorator returns around the body (parameters symbolic, as for the plain body)
                a = self.fi.node.args
                if a.vararg or a.kwarg:
                    raise self.undecided(f"the newly decorated {self.fi.qualname} takes *args / **kwargs")
                value = self.decorated_callable(self.fi, decos)
                p.ret = self.apply(self.picked(value), [ast.Name(id=x.arg, ctx=ast.Load()) for x in a.posonlyargs + a.args],
                                   [ast.keyword(arg=x.arg, value=ast.Name(id=x.arg, ctx=ast.Load())) for x in a.kwonlyargs], None)
                if isinstance(p.ret, ast.Constant) and p.ret.value is None:
                    p.ret = None
            else:
                self.block(self.fi.node.body)
        except _Ret as r:
            p.ret = r.value
        except _Rse:
            p.end = "raise"
        except (_Brk, _Cnt):
            raise AnalysisError(f"undecided: break/continue outside a loop in {self.fi.qualname}") from None
        p.calls, p.stores, p.facts, p.env, p.ver, p.forked = self.calls, self.stores, self.facts, self.env, self.ver, self.forked
        p.pretty, p.meta = self.pretty, self.meta
        return p

    def body_value(self, node) -> ast.expr:
        """value returned by the body of a function whose parameters are left symbolic"""
        try:
            self.block(node.body)
        except _Ret as r:
            return r.value if r.value is not None else ast.Constant(value=None)
        return ast.Constant(value=None)

    def signature(self, v: ast.expr) -> list[str] | None:
        """parameter names (without the receiver) of an evaluated callable that this evaluation would enter; None: it would not"""
        r = _rec(v)
        if r is not None:
            m = r.cls.method("__call__") if r.cls is not None else None
            if m is None or not self.followable(r.cls, m):
                return None
            a = (m.node if isinstance(m, FuncInfo) else m).args
            return [x.arg for x in a.posonlyargs + a.args][1:]
        if getattr(v, "_partial", None) is not None:
            inner, n, named = v._partial
            names = self.signature(inner)
            return None if names is None else [x for x in names[n:] if x not in named]
        tgt = self.target(v)
        if tgt is None:
            return None
        a = (tgt.node if isinstance(tgt, FuncInfo) else tgt).args
        names = [x.arg for x in a.posonlyargs + a.args]
        if isinstance(tgt, FuncInfo) and tgt.cls is not None and isinstance(v, ast.Attribute) and "staticmethod" not in _deco_names(tgt):
            names = names[1:]
        return names

    def undecided(self, what: str):
        return AnalysisError(f"undecided: symbolic evaluation of {self.fi.qualname} does not support {what}")

    # ------------------------------------------------------------------------------------------------ facts
    def decide(self, key: str) -> bool:
        i = len(self.trace)
        if i < len(self.prefix):
            v = self.prefix[i]
        else:
            v = False
            self.alternatives.append([*self.trace, True])
        self.trace.append(v)
        self.forked.append(key)
        return v

    def lookup(self, key: str) -> bool:
        if key in self.facts:
            return self.facts[key]
        v = None
        if key.startswith("t:") and self.facts.get(f"is:{key[2:]}:None") is True:
            v = False                                   # x is None  =>  not x
        elif key.startswith("is:") and key.endswith(":None") and self.facts.get("t:" + key[3:-5]) is True:
            v = False                                   # x truthy   =>  x is not None
        if v is None:
            pk = _unver(key)
            if pk in self.preset:
                v = self.preset[pk]
        if v is None:
            v = self.decide(key)
        self.facts[key] = v
        return v

    def cmp_key(self, l: ast.expr, op: ast.cmpop, r: ast.expr):
        """(key, polarity) of one comparison of evaluated operands, or (None, value) when it is decided statically."""
        key, pol = self._cmp_key(l, op, r)
        if key is not None and key not in self.pretty:
            kind, sym = key.split(":", 1)[0], {"eq": ("==", "!="), "is": ("is", "is not"), "in": ("in", "not in"), "lt": ("<", ">=")}
            a, b = (_t(l), _t(r)) if kind != "lt" or isinstance(op, (ast.Lt, ast.GtE)) else (_t(r), _t(l))
            if kind == "in" and not isinstance(op, (ast.In, ast.NotIn)):
                g = _is_get(strip_cast(l)) or _is_get(strip_cast(r))
                a, b = _t(g[1]), _t(g[0])
            self.pretty[key] = (f"{a} {sym[kind][0]} {b}", f"{a} {sym[kind][1]} {b}")
        return key, pol

    def cv(self, x: ast.expr):
        """constant denoted by an evaluated expression: a literal, a module / class constant, or a member of an Enum class"""
        v = const_value(x)
        if not _noconst(v) or self.repo is None:
            return v
        plain = isinstance(x, ast.Name) and x.id.isidentifier() or \
            isinstance(x, ast.Attribute) and isinstance(x.value, ast.Name) and x.value.id.isidentifier()
        if not plain:
            return v
        for fi in (self.frames[-1], self.fi):
            if isinstance(x, ast.Attribute) and x.value.id not in ("self", "cls"):
                c = self.repo.resolve_class_expr(fi.module, x.value)
                if c is not None and any(b.endswith(("Enum", "Flag")) for b in c.all_base_names()) and c.lookup_attr(x.attr) is not None:
                    return ("<enum>", c.where, x.attr)
            try:
                w = self.repo.resolve_const(fi.module, x, self.fi.cls)
            except (StopIteration, AttributeError, KeyError, TypeError):
                continue
            if not _noconst(w) and isinstance(w, (str, bytes, int, float, bool, tuple, type(None))):
                return w
        return v

    def _cmp_key(self, l: ast.expr, op: ast.cmpop, r: ast.expr):
        l, r = strip_cast(l), strip_cast(r)
        if isinstance(op, (ast.Is, ast.IsNot)):
            cl, cr = self.cv(l), self.cv(r)
            if _is_enum(cl) and _is_enum(cr):
                return None, (cl == cr) == isinstance(op, ast.Is)
        if isinstance(op, (ast.Eq, ast.NotEq)):
            cl, cr = self.cv(l), self.cv(r)
            pol = isinstance(op, ast.Eq)
            if not _noconst(cl) and not _noconst(cr):
                return None, (cl == cr) == pol
            # a named constant is compared as the literal it denotes
            if not _noconst(cl) and _noconst(const_value(l)) and not _is_enum(cl):
                l = ast.parse(repr(cl), mode="eval").body
            if not _noconst(cr) and _noconst(const_value(r)) and not _is_enum(cr):
                r = ast.parse(repr(cr), mode="eval").body
            a, b = sorted((_t(l), _t(r)), key=_unver)
            if a == b:
                return None, pol
            return f"eq:{a}:{b}", pol
        if isinstance(op, (ast.Is, ast.IsNot)):
            pol = isinstance(op, ast.Is)
            if isinstance(l, ast.Constant) and l.value is None:
                l, r = r, l
            if isinstance(l, ast.Constant) and isinstance(r, ast.Constant) and any(isinstance(x.value, (bool, type(None))) for x in (l, r)):
                return None, (l.value is r.value) == pol          # True / False / None are singletons
            if isinstance(r, ast.Constant) and r.value is None:
                if isinstance(l, ast.Constant):
                    return None, (l.value is None) == pol
                if isinstance(l, (ast.Tuple, ast.List, ast.Dict, ast.Set, ast.JoinedStr, ast.Lambda)) or _rec(l) is not None or _fn(l) is not None:
                    return None, not pol
                g = _is_get(l)
                if g is not None:                        # D.get(k) is None  <=>  k not in D   (values are never None)
                    return f"in:{_t(g[1])}:{_t(g[0])}", not pol
            return f"is:{_t(l)}:{_t(r)}", pol
        if isinstance(op, (ast.In, ast.NotIn)):
            return f"in:{_t(l)}:{_t(r)}", isinstance(op, ast.In)
        nl, nr = _int(l), _int(r)
        if nl is not None and nr is not None and isinstance(op, (ast.Lt, ast.GtE, ast.Gt, ast.LtE)):
            # an explicit loop index against a known length: two integers compare as they do
            return None, {ast.Lt: nl < nr, ast.GtE: nl >= nr, ast.Gt: nl > nr, ast.LtE: nl <= nr}[type(op)]
        if isinstance(op, ast.Lt):
            return f"lt:{_t(l)}:{_t(r)}", True
        if isinstance(op, ast.GtE):
            return f"lt:{_t(l)}:{_t(r)}", False
        if isinstance(op, ast.Gt):
            return f"lt:{_t(r)}:{_t(l)}", True
        if isinstance(op, ast.LtE):
            return f"lt:{_t(r)}:{_t(l)}", False
        raise self.undecided(f"comparison operator {type(op).__name__}")

    def truth(self, v: ast.expr) -> bool:
        """truth value of an evaluated expression on this path (forks on unknown atoms)"""
        v = strip_cast(v)
        if isinstance(v, ast.Constant):
            return bool(v.value)
        r = _rec(v)
        if r is not None:
            if r.kind == "tuple":
                return bool(r.names)                     # a NamedTuple object is a tuple of its fields
            if r.cls is not None and r.cls.method("__bool__") is not None:
                got = self.rec_call(v, r, "__bool__", [], [], None)
                if got is None:
                    raise self.undecided(f"truth of a {r.cls.name} object")
                return self.truth(got)
            if r.cls is not None and r.cls.method("__len__") is not None:
                raise self.undecided(f"truth of a {r.cls.name} object with __len__")
            return True
        if _fn(v) is not None or isinstance(v, ast.Lambda):
            return True
        if isinstance(v, ast.Call) and isinstance(v.func, ast.Name) and v.func.id == "isinstance" and len(v.args) == 2 and not v.keywords:
            known = self.isinstance_of(v.args[0], v.args[1])
            if known is not None:
                return known
        if isinstance(v, (ast.List, ast.Tuple, ast.Set)) and not any(isinstance(e, ast.Starred) for e in v.elts):
            return bool(v.elts)
        if isinstance(v, ast.Dict) and all(k is not None for k in v.keys):
            return bool(v.keys)
        if isinstance(v, ast.UnaryOp) and isinstance(v.op, ast.Not):
            return not self.truth(v.operand)
        if isinstance(v, ast.BoolOp):
            if isinstance(v.op, ast.And):
                return all(self.truth(x) for x in v.values)
            return any(self.truth(x) for x in v.values)
        if isinstance(v, ast.IfExp):
            return self.truth(v.body) if self.truth(v.test) else self.truth(v.orelse)
        if isinstance(v, ast.Compare):
            left = v.left
            for op, right in zip(v.ops, v.comparators):
                rr = strip_cast(right)
                members = self.member_table(rr) if isinstance(op, (ast.In, ast.NotIn)) else None
                if members is not None:
                    # membership in a literal (also frozenset(...) of one, or a module constant bound to one): equal to one of its elements
                    hit = any(self.truth(ast.Compare(left=left, ops=[ast.Eq()], comparators=[x])) for x in members)
                    if hit != isinstance(op, ast.In):
                        return False
                    left = right
                    continue
                # a comparison result compared with True / False: `(a != b) is True`, `flag == False`
                lb, rb_ = strip_cast(left), strip_cast(right)
                flag = rb_ if isinstance(rb_, ast.Constant) and isinstance(rb_.value, bool) else \
                    lb if isinstance(lb, ast.Constant) and isinstance(lb.value, bool) else None
                other = lb if flag is rb_ else rb_
                if flag is not None and isinstance(op, (ast.Is, ast.IsNot, ast.Eq, ast.NotEq)) and _boolish(other) \
                        and not isinstance(other, ast.Constant):
                    val = (self.truth(other) == flag.value) == isinstance(op, (ast.Is, ast.Eq))
                    if not val:
                        return False
                    left = right
                    continue
                key, pol = self.cmp_key(left, op, right)
                val = pol if key is None else (self.lookup(key) == pol)
                if not val:
                    return False
                left = right
            return True
        if isinstance(v, ast.Call) and isinstance(v.func, ast.Name) and v.func.id == "bool" and len(v.args) == 1 and not v.keywords:
            return self.truth(v.args[0])
        g = _is_get(v)
        if g is not None:                                # D.get(k) truthy  <=>  k in D and D[k] truthy
            kin = f"in:{_t(g[1])}:{_t(g[0])}"
            self.pretty.setdefault(kin, (f"{_t(g[1])} in {_t(g[0])}", f"{_t(g[1])} not in {_t(g[0])}"))
            return self.lookup(kin) and self.truth(ast.Subscript(value=g[0], slice=g[1], ctx=ast.Load()))
        key = "t:" + _t(v)
        self.pretty.setdefault(key, (_t(v), f"not {_t(v)}"))
        return self.lookup(key)

    def member_table(self, rr: ast.expr, depth: int = 0):
        """the elements of the collection on the right of `in`, when they are known one by one; else None"""
        if depth > 3:
            return None
        if isinstance(rr, (ast.Tuple, ast.List, ast.Set)):
            return None if any(isinstance(x, ast.Starred) for x in rr.elts) else list(rr.elts)
        if isinstance(rr, ast.Call) and isinstance(rr.func, ast.Name) and rr.func.id in ("frozenset", "set", "tuple", "list") \
                and rr.func.id not in self.env and not rr.keywords and len(rr.args) <= 1:
            return [] if not rr.args else self.member_table(rr.args[0], depth + 1)
        if isinstance(rr, ast.Name) and rr.id.isidentifier() and rr.id not in self.env and self.repo is not None \
                and rr.id not in self.frames[-1].params() and rr.id not in self.closures:
            mod = self.frames[-1].module
            try:
                r = self.repo.resolve_name(mod, rr.id)
            except (AttributeError, KeyError, TypeError):
                r = None
            if isinstance(r, tuple) and r[0] == "const" and _bound_once(r[1], rr.id) and (r[1] is mod or _bound_once(mod, rr.id, imports=True)):
                v = r[2]
                while isinstance(v, ast.Call) and isinstance(v.func, ast.Name) and v.func.id in ("frozenset", "set", "tuple", "list") \
                        and not v.keywords and len(v.args) == 1:
                    v = v.args[0]
                if isinstance(v, (ast.Tuple, ast.List, ast.Set)) and not any(isinstance(x, ast.Starred) for x in v.elts):
                    if r[1] is mod:
                        return [self.in_frame_of(None, lambda x=x: self.ev(x)) for x in v.elts]
                    if all(not _noconst(const_value(x)) for x in v.elts):
                        return list(v.elts)
        return None

    def isinstance_of(self, x: ast.expr, classes: ast.expr):
        """isinstance(x, classes) for an object created on this path and classes that resolve to definitions; None: not known"""
        r = _rec(x)
        if r is None or r.cls is None:
            return None
        out = False
        for a in (classes.elts if isinstance(classes, ast.Tuple) else [classes]):
            if isinstance(a, ast.Name) and a.id in ("tuple", "object") and a.id not in self.env:
                hit = a.id == "object" or r.kind == "tuple"
            else:
                pc = self.class_of(a)
                if pc is None or _class_kind(pc) is None:
                    return None
                hit = r.cls.same(pc)                     # modelled classes have no modelled subclasses
            out = out or hit
        return out

    def key_of(self, text: str):
        """(key, polarity) of an atom given as source text (no locals)"""
        e = ast.parse(text, mode="eval").body
        if isinstance(e, ast.Compare) and len(e.ops) == 1:
            return self.cmp_key(e.left, e.ops[0], e.comparators[0])
        return "t:" + _t(e), True

    # ------------------------------------------------------------------------------------------------ values
    def versioned(self, n: ast.expr) -> ast.expr:
        t = _t(n)
        k = self.ver.get(t)
        return ast.Name(id=f"{t}@{k}", ctx=ast.Load()) if k else n

    def ev(self, e: ast.expr) -> ast.expr:
        if isinstance(e, ast.Constant):
            return e
        if isinstance(e, ast.Name):
            if e.id in self.env:
                return self.env[e.id]
            lit = self.global_literal(e.id)
            if lit is not None:
                return lit                               # a named module constant is the literal it is bound to
            return self.versioned(ast.Name(id=e.id, ctx=ast.Load()))
        if isinstance(e, ast.Attribute):
            return self.attribute(self.ev(e.value), e.attr)
        if isinstance(e, ast.Subscript):
            return self.subscript(self.ev(e.value), self.ev(e.slice))
        if isinstance(e, ast.Slice):
            return ast.Slice(lower=self.ev(e.lower) if e.lower else None, upper=self.ev(e.upper) if e.upper else None,
                             step=self.ev(e.step) if e.step else None)
        if isinstance(e, ast.Starred):
            return ast.Starred(value=self.ev(e.value), ctx=ast.Load())
        if isinstance(e, ast.Call):
            return self.call(e)
        if isinstance(e, ast.BoolOp):
            if not _has_call(e):
                return ast.BoolOp(op=e.op, values=[self.ev(v) for v in e.values])      # pure: kept symbolic, decided when tested
            is_and = isinstance(e.op, ast.And)
            val = None
            for v in e.values:
                val = self.ev(v)
                if v is e.values[-1] or self.truth(val) != is_and:
                    return val
            return val
        if isinstance(e, ast.UnaryOp):
            return ast.UnaryOp(op=e.op, operand=self.ev(e.operand))
        if isinstance(e, ast.BinOp):
            l, r = self.ev(e.left), self.ev(e.right)
            return self.binop(l, e.op, r)
        if isinstance(e, ast.Compare):
            return ast.Compare(left=self.ev(e.left), ops=list(e.ops), comparators=[self.ev(c) for c in e.comparators])
        if isinstance(e, ast.IfExp):
            return self.ev(e.body) if self.truth(self.ev(e.test)) else self.ev(e.orelse)
        if isinstance(e, (ast.Tuple, ast.List, ast.Set)):
            elts = []
            for x in (self.ev(x) for x in e.elts):
                if isinstance(x, ast.Starred) and _items(x.value) is not None:
                    elts.extend(_items(x.value))         # `[*[a, b], c]` is `[a, b, c]`
                else:
                    elts.append(x)
            return type(e)(elts=elts, **({} if isinstance(e, ast.Set) else {"ctx": ast.Load()}))
        if isinstance(e, ast.Dict):
            return ast.Dict(keys=[self.ev(k) if k is not None else None for k in e.keys], values=[self.ev(v) for v in e.values])
        if isinstance(e, (ast.ListComp, ast.SetComp, ast.GeneratorExp)):
            out = self.comprehension(e)
            if isinstance(e, ast.GeneratorExp):
                out._iter = True
            return out
        if isinstance(e, ast.DictComp):
            pairs = self.comprehension(ast.ListComp(elt=ast.Tuple(elts=[e.key, e.value], ctx=ast.Load()), generators=e.generators))
            if any(isinstance(n, ast.Name) and n.id.startswith("each(") for x in pairs.elts for n in ast.walk(x)):
                # built from a representative element of an unknown iterable: not a table whose keys are all known
                return ast.Call(func=ast.Name(id="dict", ctx=ast.Load()), args=[pairs], keywords=[])
            if len({_t(x.elts[0]) for x in pairs.elts}) != len(pairs.elts):
                raise self.undecided("a dict comprehension with repeated keys")
            return ast.Dict(keys=[x.elts[0] for x in pairs.elts], values=[x.elts[1] for x in pairs.elts])
        if isinstance(e, ast.NamedExpr):
            v = self.ev(e.value)
            self.env[e.target.id] = v
            return v
        if isinstance(e, ast.Await):
            v = self.ev(e.value)
            if any(v is x for x in self.awaited):
                return v                                 # value returned by an inlined coroutine helper
            return ast.Await(value=v)
        if isinstance(e, ast.JoinedStr):
            return ast.JoinedStr(values=[self.ev(v) for v in e.values])
        if isinstance(e, ast.FormattedValue):
            return ast.FormattedValue(value=self.ev(e.value), conversion=e.conversion, format_spec=e.format_spec)
        if isinstance(e, ast.Lambda):
            self.defenv[id(e)] = self.env
            return e
        raise self.undecided(f"expression `{norm(e)[:60]}`")

    def global_literal(self, name: str):
        """the literal a bare name denotes when it is a module-level constant (of the module of the code being evaluated, possibly
        imported from another module of the repository) that is bound exactly once and folds to a plain literal; else None"""
        if self.repo is None or not name.isidentifier() or name in self.closures or name in self.local_classes or name in self.imported:
            return None
        fi = self.frames[-1]
        if name in fi.params() or (len(self.frames) == 1 and name in self.fi.params()):
            return None
        key = (fi.module.relpath, name)
        cache = _literal_cache(self.repo)
        if key not in cache:
            cache[key] = None
            try:
                r = self.repo.resolve_name(fi.module, name)
            except (AttributeError, KeyError, TypeError):
                r = None
            if isinstance(r, tuple) and r[0] == "const" and _bound_once(r[1], name) and (r[1] is fi.module or _bound_once(fi.module, name, imports=True)):
                try:
                    v = self.repo.resolve_const(r[1], r[2])
                except (StopIteration, AttributeError, KeyError, TypeError, RecursionError):
                    v = None
                if _plain_literal(v) and _consts_bound_once(self.repo, r[1], r[2]):
                    cache[key] = repr(v)
        text = cache[key]
        return None if text is None else ast.parse(text, mode="eval").body

    def class_literal(self, b: ast.expr, attr: str):
        """the literal `self.X` / `Class.X` denotes when X is a class-level constant that folds to a plain literal, that no class of the
        repository redefines (as attribute or method) and that nothing in the repository assigns through an attribute; else None"""
        if self.repo is None or not isinstance(b, ast.Name) or not b.id.isidentifier():
            return None
        if b.id == "self" and self.fi.cls is not None and self.fi.params()[:1] == ["self"]:
            cls = self.fi.cls                            # (an evaluated `self` is the receiver of the analysed method: helpers' own are bound)
        elif b.id in self.env or b.id in ("self", "cls"):
            return None
        else:
            try:
                cls = self.repo.resolve_class_expr(self.frames[-1].module, b)
            except (AttributeError, KeyError, TypeError):
                cls = None
        if cls is None:
            return None
        cache = _literal_cache(self.repo)
        key = (cls.where, "." + attr)
        if key not in cache:
            cache[key] = None
            owners = [c for c in cls.mro() if attr in c.attrs]
            special = any(x.split(".")[-1].endswith(("Enum", "Flag", "NamedTuple", "TypedDict", "Structure")) for x in cls.all_base_names()) \
                or any(not (k.arg == "metaclass" and (chain(k.value) or "").split(".")[-1] == "ABCMeta") for c in cls.mro() for k in c.node.keywords) \
                or attr.startswith("__")
            # (members of Enum classes, NamedTuple field defaults, metaclass-built classes: `Class.X` is not the assigned value)
            if owners and not special and not any(attr in c.methods for c in cls.mro()):
                owner = owners[0]
                family = {id(c.node) for c in (*cls.mro(), *cls.all_subclasses(), *owner.all_subclasses())}
                redefined = sum(1 for cs in self.repo.classes.values() for c in cs if id(c.node) in family and (attr in c.attrs or attr in c.methods))
                stored = any(not isinstance(n.ctx, ast.Load) for _, _, n in self.repo.attribute_uses(attr))
                by_name = any(isinstance(n, ast.Constant) and n.value == attr for m in self.repo.modules.values() for n in ast.walk(m.tree))
                once = sum(1 for st in owner.node.body for n in ast.walk(st) if isinstance(n, ast.Name) and n.id == attr and not isinstance(n.ctx, ast.Load)
                           and not isinstance(st, (ast.FunctionDef, ast.AsyncFunctionDef, ast.ClassDef))) == 1
                if redefined == 1 and not stored and not by_name and once:
                    try:
                        v = self.repo.resolve_const(owner.module, owner.attrs[attr], owner)
                    except (StopIteration, AttributeError, KeyError, TypeError, RecursionError):
                        v = None
                    if _plain_literal(v) and _consts_bound_once(self.repo, owner.module, owner.attrs[attr], owner):
                        cache[key] = repr(v)
        text = cache[key]
        return None if text is None else ast.parse(text, mode="eval").body

    def attribute(self, b: ast.expr, attr: str) -> ast.expr:
        """value of `b.attr` for an evaluated b"""
        b = self.base(b)
        r = _rec(b)
        if r is not None:
            return self.rec_attr(b, r, attr)
        m = self.enum_member(b)
        if m is not None:
            v = self.enum_attr(b, m, attr)
            if v is not None:
                return v
        lit = self.class_literal(b, attr)
        if lit is not None:
            return lit                                   # a named class constant is the literal it is bound to
        a = ast.Attribute(value=b, attr=attr, ctx=ast.Load())
        if self.repo is not None and attr in _new_names(self.repo):
            tgt = self.target(a)
            if isinstance(tgt, FuncInfo) and _PROPERTY & set(tgt.decorator_names()):
                return self.follow(tgt, a, [], [], None)          # a property the reviewed tree does not have: its getter
        return self.versioned(a)

    def subscript(self, b: ast.expr, k: ast.expr) -> ast.expr:
        """value of `b[k]` for evaluated b and k"""
        b = self.base(b)
        r = _rec(b)
        if r is not None:
            v = self.rec_item(b, r, k)
            if v is not None:
                return v
        if _literal_table(b) and not isinstance(k, ast.Slice):
            return self.select(b, k, None)             # a literal indexed on the spot denotes the selected element
        if isinstance(k, ast.Slice) and isinstance(b, (ast.List, ast.Tuple)) and not any(isinstance(x, ast.Starred) for x in b.elts):
            cs = [None if x is None else const_value(x) for x in (k.lower, k.upper, k.step)]
            if all(c is None or (isinstance(c, int) and not _noconst(c)) for c in cs):
                return type(b)(elts=b.elts[slice(*cs)], ctx=ast.Load())      # a slice of a literal with constant bounds
        if self.catching and not isinstance(k, ast.Slice) and not isinstance(const_value(k), int):
            # a lookup inside `try: ... except KeyError:` - the handler is the `k not in D` branch
            kin = f"in:{_t(k)}:{_t(b)}"
            self.pretty.setdefault(kin, (f"{_t(k)} in {_t(b)}", f"{_t(k)} not in {_t(b)}"))
            if not self.lookup(kin):
                raise _Exc("KeyError")
        return self.versioned(ast.Subscript(value=b, slice=k, ctx=ast.Load()))

    @staticmethod
    def base(b: ast.expr) -> ast.expr:
        """`D.get(k).x` reads the same value as `D[k].x` (both fail when k is missing)"""
        g = _is_get(b)
        if g is not None:
            return ast.Subscript(value=g[0], slice=g[1], ctx=ast.Load())
        return b

    def select(self, table: ast.expr, key: ast.expr, default: ast.expr | None) -> ast.expr:
        """element of a dict / tuple / list literal picked by an evaluated key; an unknown key is decided entry by entry"""
        key = strip_cast(key)
        if isinstance(table, ast.Dict):
            entries = list(zip(table.keys, table.values))
            kc = const_value(key)
            for k, v in entries:
                c = const_value(k)
                if not _noconst(kc) and not _noconst(c):
                    hit = kc == c
                elif isinstance(k, ast.Constant) and isinstance(k.value, bool) and _boolish(key):
                    hit = self.truth(key) == k.value
                else:
                    hit = self.truth(ast.Compare(left=key, ops=[ast.Eq()], comparators=[k]))
                if hit:
                    return v
            if default is not None:
                return default
            raise _Exc("KeyError")
        elts = table.elts
        if isinstance(key, ast.Call) and isinstance(key.func, ast.Name) and key.func.id == "int" and len(key.args) == 1 \
                and not key.keywords and _boolish(key.args[0]):
            key = key.args[0]
        kc = const_value(key)
        if isinstance(kc, int) and not _noconst(kc):
            if -len(elts) <= kc < len(elts):
                return elts[kc]
            raise _Exc("IndexError")
        if _boolish(key) and len(elts) >= 2:
            return elts[1] if self.truth(key) else elts[0]
        return self.versioned(ast.Subscript(value=table, slice=key, ctx=ast.Load()))

    def const_table(self, e: ast.expr):
        """the dict / tuple / list literal a module constant or class attribute is bound to (dispatch tables), else None"""
        if self.repo is None:
            return None
        v = None
        if isinstance(e, ast.Name) and e.id not in self.env:
            for fi in (self.frames[-1], self.fi):
                r = self.repo.resolve_name(fi.module, e.id)
                if isinstance(r, tuple) and r[0] == "const":
                    v = r[2]
                    break
        elif isinstance(e, ast.Attribute) and isinstance(e.value, ast.Name):
            cls = None
            if e.value.id in ("self", "cls") and e.value.id not in self.env or _t(self.env.get(e.value.id)) == "self":
                cls = self.fi.cls
            elif e.value.id not in self.env:
                cls = self.repo.resolve_class_expr(self.frames[-1].module, e.value)
            if cls is not None and not any(e.attr in c.methods for c in cls.mro()):
                v = cls.lookup_attr(e.attr)
                if v is not None and any(e.attr in s.attrs for s in cls.all_subclasses()):
                    v = None
        return v if v is not None and _literal_table(v) else None

    def picked(self, fn: ast.expr) -> ast.expr:
        """callee taken from a dispatch table held in a module constant / class attribute: `T[k]`, `T.get(k[, d])`, getattr"""
        if isinstance(fn, ast.Subscript) and not isinstance(fn.slice, ast.Slice):
            t = self.const_table(fn.value)
            if t is not None:
                t = self.in_frame_of(None, lambda: self.ev(t))
                return self.picked(self.select(t, fn.slice, None))
        g = fn if isinstance(fn, ast.Call) and isinstance(fn.func, ast.Attribute) and fn.func.attr == "get" and not fn.keywords \
            and 1 <= len(fn.args) <= 2 and not any(isinstance(a, ast.Starred) for a in fn.args) else None
        if g is not None:
            t = self.const_table(g.func.value)
            if isinstance(t, ast.Dict):
                t = self.in_frame_of(None, lambda: self.ev(t))
                return self.picked(self.select(t, g.args[0], g.args[1] if len(g.args) == 2 else ast.Constant(value=None)))
        return fn

    def in_frame_of(self, env: dict | None, thunk):
        saved = self.env
        self.outer.append(self.env)
        self.env = dict(env or {})
        try:
            return thunk()
        finally:
            self.outer.pop()
            self.env = saved

    def set_list(self, old: ast.List, value: ast.List) -> None:
        """in-place change of a list held in a local: every local (of this frame and of the callers) and every attribute of an object
        created on this path that is bound to the same list object - `out = introductions`, a list passed to a helper, a list
        captured by a local def, `self.out` of a collector object - sees the new contents"""
        for env in (self.env, *self.outer, *(r.fields for r in self.records)):
            for k, v in env.items():
                if v is old:
                    env[k] = value

    # ------------------------------------------------------------------------------------------------ helpers that are followed
    def target(self, fn: ast.expr):
        """what a call of the evaluated callee `fn` runs, when that is code this evaluation follows:
        a lambda, a local def, or a function / method that the reviewed tree does not have (exactly one candidate)."""
        if isinstance(fn, ast.Lambda):
            return fn
        if isinstance(fn, ast.Name) and fn.id in self.closures:
            return self.closures[fn.id]
        if self.repo is None or not isinstance(fn, (ast.Name, ast.Attribute)):
            return None
        if (fn.id if isinstance(fn, ast.Name) else fn.attr) not in _new_names(self.repo):
            return None                                  # only functions that the reviewed tree does not have are entered
        probe = ast.Call(func=fn, args=[], keywords=[])
        cands: list[FuncInfo] = []
        for fi in ([self.frames[-1], self.fi] if isinstance(fn, ast.Name) else [self.fi]):
            try:
                cands = self.repo.resolve_call(fi, probe)
            except (AttributeError, KeyError, TypeError):
                cands = []
            if cands:
                break
        if isinstance(fn, ast.Name) and cands and cands[0].name == "__init__":
            return None
        if isinstance(fn, ast.Attribute) and not cands:
            cands = self.receiver_methods(fn)
        if isinstance(fn, ast.Name) and not cands:
            # a plain function name found in a class-level dispatch table: the method of that name (called with an explicit self)
            for fi in (self.frames[-1], self.fi):
                m = fi.cls.lookup(fn.id) if fi.cls is not None else None
                if m is not None:
                    cands = [m]
                    break
        if len(cands) != 1 or not _is_new(cands[0]) or cands[0].node in self.active:
            return None
        return cands[0]

    def param_class(self, name: str) -> ClassInfo | None:
        """class of the parameter `name` of the evaluated function (or of the helper being followed) as its annotation gives it:
        a class of the repository, `A | None`, a quoted annotation, or a TypeVar bound to such a class"""
        for node, module in self.symbol_scopes():
            a = node.args
            for p in a.posonlyargs + a.args + a.kwonlyargs:
                if p.arg != name:
                    continue
                if p.annotation is None:
                    return None
                ann = p.annotation
                if isinstance(ann, ast.Constant) and isinstance(ann.value, str):
                    try:
                        ann = ast.parse(ann.value, mode="eval").body
                    except SyntaxError:
                        return None
                if isinstance(ann, ast.BinOp) and isinstance(ann.op, ast.BitOr):
                    sides = [x for x in (ann.left, ann.right) if not (isinstance(x, ast.Constant) and x.value is None)]
                    if len(sides) != 1:
                        return None
                    ann = sides[0]
                try:
                    c = self.repo.resolve_class_expr(module, ann)
                    if c is None and isinstance(ann, ast.Name):
                        r = self.repo.resolve_name(module, ann.id)
                        if isinstance(r, tuple) and r and r[0] == "const" and isinstance(r[2], ast.Call) \
                                and (chain(r[2].func) or "").split(".")[-1] == "TypeVar" and _bound_once(r[1], ann.id):
                            b = next((k.value for k in r[2].keywords if k.arg == "bound"), None)
                            if isinstance(b, ast.Constant) and isinstance(b.value, str):
                                b = ast.parse(b.value, mode="eval").body
                            c = self.repo.resolve_class_expr(r[1], b) if b is not None else None
                except (AttributeError, KeyError, TypeError, SyntaxError):
                    c = None
                return c if isinstance(c, ClassInfo) else None
        return None

    def symbol_scopes(self) -> list:
        """[(function node, its module)] of the functions whose parameters can be symbolic names of this evaluation, outermost first:
        the evaluated function itself, then the wrappers / closures / helpers entered from it"""
        out = []
        for n in [self.fi.node, *self.active]:
            try:
                m = self.repo.module_of(n)
            except (AttributeError, KeyError, TypeError):
                m = None
            out.append((n, m if m is not None else self.fi.module))
        return out

    def receiver_methods(self, fn: ast.Attribute) -> list[FuncInfo]:
        """possible targets of `recv.m(...)` made OUTSIDE a class body (a module-level wrapper / closure / helper whose first parameter
        is the overlay): m is a name the reviewed tree does not have; the receiver is a parameter of the evaluated function whose
        annotation names a class (dispatch over that class and its subclasses), or - with no usable annotation - any class of the
        repository that defines m (closed world: the over-approximation `resolve_call` makes for self.m inside a class)"""
        recv = _class_of_instance(fn.value) or fn.value  # `type(x).m(x, ...)` / `x.__class__.m(x, ...)`: the same lookup as x.m
        if not isinstance(recv, ast.Name) or recv.id in self.closures or recv.id in self.local_classes:
            return []
        held = self.env.get(recv.id)
        if held is not None and not (isinstance(held, ast.Name) and held.id == recv.id):
            return []                                    # a local of this frame, not the symbolic parameter of that name
        if not any(recv.id in [p.arg for p in n.args.posonlyargs + n.args.args + n.args.kwonlyargs] for n, _ in self.symbol_scopes()):
            return []
        c = self.param_class(recv.id)
        try:
            if c is not None:
                return list(self.repo.dispatch(c, fn.attr))
            return [k.methods[fn.attr] for k in self.repo.all_classes() if fn.attr in k.methods]
        except (AttributeError, KeyError, TypeError):
            return []

    def new_decorators(self, tgt: FuncInfo) -> list:
        """[(decorator expression, its definition)] for the decorators of tgt that are functions the reviewed tree does not have:
        `@d` / `@d(args)` with d a module-level function (possibly of another module) or a plain function of the class body"""
        out = []
        if self.repo is None:
            return out
        for d in tgt.node.decorator_list:
            f = d.func if isinstance(d, ast.Call) else d
            dfi = None
            if isinstance(f, ast.Name):
                if tgt.cls is not None and f.id in tgt.cls.methods:
                    dfi = tgt.cls.methods[f.id]
                else:
                    try:
                        dfi = self.repo.resolve_name(tgt.module, f.id)
                    except (AttributeError, KeyError, TypeError):
                        dfi = None
            elif isinstance(f, ast.Attribute) and isinstance(f.value, ast.Name):
                try:
                    r = self.repo.resolve_name(tgt.module, f.value.id)
                except (AttributeError, KeyError, TypeError):
                    r = None
                if isinstance(r, tuple) and r[0] == "module" and r[1] is not None:
                    dfi = r[1].functions.get(f.attr)
                elif isinstance(r, ClassInfo):
                    dfi = r.lookup(f.attr)
            if isinstance(dfi, FuncInfo) and _is_new(dfi):
                out.append((d, dfi))
        return out

    def body_callable(self, tgt: FuncInfo) -> ast.expr:
        """the function object a decorator of tgt receives: calling it runs the undecorated body with the given arguments"""
        node = ast.Name(id=f"<body of {tgt.qualname}>", ctx=ast.Load())

        def body_impl(a, k, src):
            return self.follow(tgt, ast.Name(id=tgt.name, ctx=ast.Load()), list(a), list(k), src, raw=True)
        node._fn = body_impl
        return node

    def decorated_callable(self, tgt: FuncInfo, decos: list) -> ast.expr:
        """what the name of a function decorated with NEW decorators denotes: d1(d2(body)), each decorator evaluated as the code it is
        (decorators of the reviewed tree keep the meaning the rules already give them: the body)"""
        value = self.body_callable(tgt)
        self.frames.append(tgt)
        try:
            for d, dfi in reversed(decos):
                if dfi.node in self.active:
                    raise self.undecided(f"recursive decorator {dfi.qualname}")
                dn = ast.Name(id=dfi.name, ctx=ast.Load())
                if isinstance(d, ast.Call):
                    if any(isinstance(a, ast.Starred) for a in d.args) or any(k.arg is None for k in d.keywords):
                        raise self.undecided(f"starred arguments of decorator {dfi.qualname}")
                    dargs = [self.in_frame_of(None, lambda a=a: self.ev(a)) for a in d.args]
                    dkws = [ast.keyword(arg=k.arg, value=self.in_frame_of(None, lambda k=k: self.ev(k.value))) for k in d.keywords]
                    maker = self.follow(dfi, dn, dargs, dkws, None)
                    value = self.apply(self.picked(maker), [value], [], None)
                else:
                    value = self.follow(dfi, dn, [value], [], None)
        finally:
            self.frames.pop()
        return value

    def receiver(self, tgt, fn: ast.expr, self_value: ast.expr | None):
        """the receiver a call `fn(...)` of the followed function tgt binds implicitly (None: none / given explicitly)"""
        bound_self = self_value                       # the receiver, when the caller knows it (methods of objects created on this path)
        if bound_self is None and isinstance(tgt, FuncInfo) and tgt.cls is not None and isinstance(fn, ast.Attribute):
            decos = set(tgt.decorator_names())
            if _class_of_instance(fn.value) is not None:
                # looked up on the class of an object: only a classmethod binds (the class); a plain method gets its receiver explicitly
                bound_self = fn.value if "classmethod" in decos else None
            elif "staticmethod" not in decos:
                explicit = "classmethod" not in decos and self.repo is not None and isinstance(fn.value, ast.Name) \
                    and fn.value.id not in ("self", "cls") and isinstance(self.repo.resolve_class_expr(self.fi.module, fn.value), ClassInfo)
                if not explicit:
                    bound_self = fn.value
        return bound_self

    def follow(self, tgt, fn: ast.expr, args: list, kws: list, src: ast.Call | None, self_value: ast.expr | None = None,
               raw: bool = False) -> ast.expr:
        """evaluate the body of a followed helper with its parameters bound to the evaluated arguments"""
        node = tgt.node if isinstance(tgt, FuncInfo) else tgt
        what = tgt.qualname if isinstance(tgt, FuncInfo) else getattr(node, "name", "lambda")
        if len(self.active) > 12:
            raise self.undecided(f"helper calls nested deeper than 12 at {what}")
        if any(isinstance(a, ast.Starred) for a in args) or any(k.arg is None for k in kws):
            raise self.undecided(f"starred arguments in the call of helper {what}")
        bound_self = self.receiver(tgt, fn, self_value)
        if not raw and isinstance(tgt, FuncInfo):
            decos = self.new_decorators(tgt)
            if decos:
                # a function decorated with a decorator the reviewed tree does not have denotes what the decorator returns
                value = self.decorated_callable(tgt, decos)
                return self.apply(self.picked(value), ([bound_self] if bound_self is not None else []) + list(args), list(kws), src)
        a = node.args
        pos = [x.arg for x in a.posonlyargs + a.args]
        kwonly = [x.arg for x in a.kwonlyargs]
        vals = ([bound_self] if bound_self is not None else []) + list(args)
        new: dict[str, ast.expr] = dict(zip(pos, vals))
        rest = vals[len(pos):]
        if rest and not a.vararg:
            raise self.undecided(f"too many arguments for helper {what}")
        if a.vararg:
            new[a.vararg.arg] = ast.Tuple(elts=rest, ctx=ast.Load())
        extra = []
        for k in kws:
            if k.arg in new and k.arg != (a.kwarg.arg if a.kwarg else None):
                raise self.undecided(f"argument {k.arg} of helper {what} given twice")
            if k.arg in pos[len(a.posonlyargs):] or k.arg in kwonly:
                new[k.arg] = k.value
            elif a.kwarg:
                extra.append(k)
            else:
                raise self.undecided(f"unknown keyword {k.arg} for helper {what}")
        defaults = dict(zip(pos[len(pos) - len(a.defaults):], a.defaults))
        defaults.update({n: d for n, d in zip(kwonly, a.kw_defaults) if d is not None})
        for n in pos + kwonly:
            if n not in new:
                if n not in defaults:
                    raise self.undecided(f"missing argument {n} for helper {what}")
                new[n] = self.in_frame_of(None, lambda d=defaults[n]: self.ev(d))
        if a.kwarg:
            new[a.kwarg.arg] = ast.Dict(keys=[ast.Constant(value=k.arg) for k in extra], values=[k.value for k in extra])
        is_fn = isinstance(node, (ast.FunctionDef, ast.AsyncFunctionDef))
        body_nodes = list(walk_no_nested(node, include_root_defs=True)) if is_fn else []
        if any(isinstance(n, ast.Nonlocal) for n in body_nodes):
            raise self.undecided(f"nonlocal in helper {what}")
        is_gen = any(isinstance(n, (ast.Yield, ast.YieldFrom)) for n in body_nodes)
        # a lambda / local def reads the enclosing locals as they are when it is called; a function starts from its parameters
        closure = not isinstance(tgt, FuncInfo)
        saved = self.env
        self.outer.append(self.env)
        self.env = {**(self.defenv.get(id(node), self.env) if closure else {}), **new}
        self.active.append(node)
        if isinstance(tgt, FuncInfo):
            self.frames.append(tgt)
        if is_gen:
            self.yields.append([])
        n_stores = len(self.stores)
        ret: ast.expr | None = None
        try:
            if isinstance(node, ast.Lambda):
                ret = self.ev(node.body)
            else:
                try:
                    self.block(node.body)
                except _Ret as r:
                    ret = r.value
                except (_Brk, _Cnt):
                    raise AnalysisError(f"undecided: break/continue outside a loop in {what}") from None
        finally:
            produced = self.yields.pop() if is_gen else None
            if isinstance(tgt, FuncInfo):
                self.frames.pop()
            self.active.pop()
            self.outer.pop()
            self.env = saved
        if is_gen:
            if len(self.stores) != n_stores:
                # the body of a generator runs interleaved with its consumer: evaluating it eagerly would reorder its stores
                raise self.undecided(f"generator helper {what} with stores")
            out = ast.List(elts=produced, ctx=ast.Load())
            out._iter = True
            return out
        if ret is None:
            ret = ast.Constant(value=None)
        if isinstance(node, ast.AsyncFunctionDef):
            self.awaited.append(ret)
        return ret

    def held_list(self, recv: ast.expr):
        """the list literal a receiver expression holds on this path: a local, or an attribute of an object created on this path"""
        if isinstance(recv, ast.Name):
            v = self.env.get(recv.id)
            return v if isinstance(v, ast.List) else None
        if isinstance(recv, ast.Attribute) and isinstance(recv.value, ast.Name):
            r = _rec(self.env.get(recv.value.id))
            v = r.fields.get(recv.attr) if r is not None else None
            return v if isinstance(v, ast.List) else None
        return None

    def call(self, e: ast.Call) -> ast.expr:
        f = e.func
        if isinstance(f, ast.Name) and f.id == "cast" and len(e.args) == 2:
            return self.ev(e.args[1])
        # mutation of a list literal held in a local / in an attribute of an object created on this path
        cur = self.held_list(f.value) if isinstance(f, ast.Attribute) and not e.keywords and \
            f.attr in ("append", "extend", "insert", "clear", "pop", "remove", "sort", "reverse") else None
        if cur is not None:
            args = [self.ev(a) for a in e.args]
            if f.attr == "append" and len(args) == 1 and not isinstance(args[0], ast.Starred):
                self.set_list(cur, ast.List(elts=[*cur.elts, args[0]], ctx=ast.Load()))
                return ast.Constant(value=None)
            if f.attr == "extend" and len(args) == 1 and not isinstance(args[0], ast.Starred):
                more = _items(args[0])                   # the elements of an unknown iterable: `[*cur, *it]`
                self.set_list(cur, ast.List(elts=[*cur.elts, *(more if more is not None else [ast.Starred(value=args[0], ctx=ast.Load())])], ctx=ast.Load()))
                return ast.Constant(value=None)
            plain = not any(isinstance(x, ast.Starred) for x in [*cur.elts, *args])
            idx = const_value(args[0]) if args else None
            if f.attr == "insert" and len(args) == 2 and plain and isinstance(idx, int) and not _noconst(idx):
                elts = list(cur.elts)
                elts.insert(idx, args[1])
                self.set_list(cur, ast.List(elts=elts, ctx=ast.Load()))
                return ast.Constant(value=None)
            if f.attr == "clear" and not args:
                self.set_list(cur, ast.List(elts=[], ctx=ast.Load()))
                return ast.Constant(value=None)
            if f.attr == "reverse" and not args and plain:
                self.set_list(cur, ast.List(elts=list(reversed(cur.elts)), ctx=ast.Load()))
                return ast.Constant(value=None)
            if f.attr == "pop" and len(args) <= 1 and plain and (not args or (isinstance(idx, int) and not _noconst(idx))):
                elts = list(cur.elts)
                k = -1 if not args else idx
                if not -len(elts) <= k < len(elts):
                    raise _Exc("IndexError")
                v = elts.pop(k)
                self.set_list(cur, ast.List(elts=elts, ctx=ast.Load()))
                return v
            raise self.undecided(f"list mutation `{norm(e)[:60]}`")
        fn = self.picked(self.ev(f))
        args = []
        for a in (self.ev(a) for a in e.args):
            if isinstance(a, ast.Starred) and _items(a.value) is not None:
                args.extend(_items(a.value))             # `f(*[a, b])` is `f(a, b)`
            else:
                args.append(a)
        kws = []
        for k in e.keywords:
            v = self.ev(k.value)
            if k.arg is None and isinstance(v, ast.Dict) and all(isinstance(x, ast.Constant) and isinstance(x.value, str) for x in v.keys):
                kws.extend(ast.keyword(arg=x.value, value=y) for x, y in zip(v.keys, v.values))       # `f(**{"a": b})` is `f(a=b)`
            else:
                kws.append(ast.keyword(arg=k.arg, value=v))
        return self.apply(fn, args, kws, e)

    def apply(self, fn: ast.expr, args: list, kws: list, e: ast.Call) -> ast.expr:  # noqa: C901, PLR0911, PLR0912
        """the value of calling the evaluated callee with evaluated arguments (e: the call in the analysed tree it stands for)"""
        impl = _fn(fn)
        if impl is not None:
            return impl(args, kws, e)                    # functools.partial / operator.itemgetter / ... objects
        r = _rec(fn)
        if r is not None:
            v = self.rec_call(fn, r, "__call__", args, kws, e)
            if v is not None:
                return v
        if isinstance(fn, ast.Attribute):
            r = _rec(fn.value)
            if r is not None:
                v = self.rec_call(fn.value, r, fn.attr, args, kws, e)
                if v is not None:
                    return v
            m = self.enum_member(fn.value)
            if m is not None:
                meth = m[0].lookup(fn.attr)
                if meth is not None and _is_new(meth) and meth.node not in self.active and not {"staticmethod", "classmethod"} & _deco_names(meth):
                    return self.follow(meth, fn, args, kws, e, self_value=fn.value)
        if isinstance(fn, ast.Attribute) and fn.attr == "get" and _literal_table(fn.value) and isinstance(fn.value, ast.Dict) \
                and not kws and 1 <= len(args) <= 2 and not any(isinstance(a, ast.Starred) for a in args):
            return self.select(fn.value, args[0], args[1] if len(args) == 2 else ast.Constant(value=None))
        if isinstance(fn, ast.Name) and fn.id == "getattr" and fn.id not in self.env and 2 <= len(args) <= 3 and not kws \
                and isinstance(self.picked(args[1]), ast.Constant) and isinstance(self.picked(args[1]).value, str):
            args[1] = self.picked(args[1])
            return self.attribute(args[0], args[1].value)
        if isinstance(fn, ast.Name) and fn.id == "setattr" and fn.id not in self.env and len(args) == 3 and not kws \
                and isinstance(self.picked(args[1]), ast.Constant) and isinstance(self.picked(args[1]).value, str) \
                and self.picked(args[1]).value.isidentifier() and not isinstance(args[0], ast.Starred):
            holder = ast.Name(id="<setattr>", ctx=ast.Load())           # `setattr(x, "a", v)` is `x.a = v`
            saved = self.env.get(holder.id)
            self.env[holder.id] = args[0]
            try:
                self.bind(ast.Attribute(value=holder, attr=self.picked(args[1]).value, ctx=ast.Store()), args[2], enclosing_stmt(e) if e is not None else None)
            finally:
                if saved is None:
                    self.env.pop(holder.id, None)
                else:
                    self.env[holder.id] = saved
            return ast.Constant(value=None)
        if isinstance(fn, ast.Attribute) and fn.attr == "_make" and len(args) == 1 and not kws and _items(args[0]) is not None:
            c = self.class_of(fn.value)
            if c is not None and _class_kind(c) == "tuple":
                v = self.construct(c, fn.value, _items(args[0]), [], e)        # `T._make([a, b])` is `T(a, b)`
                if v is not None:
                    return v
        seqs = [_items(a) for a in args]
        if isinstance(fn, ast.Name) and fn.id not in self.env and not kws and args and all(x is not None for x in seqs):
            # builtins over literal sequences: the traversal order / the elements are known
            first = seqs[0]
            if len(args) == 1 and fn.id == "len":
                return ast.Constant(value=len(first))
            if len(args) == 1 and fn.id in ("list", "iter"):
                out = ast.List(elts=first, ctx=ast.Load())
                if fn.id == "iter":
                    out._iter = True                     # an iterator: next() consumes it
                return out
            if len(args) == 1 and fn.id == "tuple":
                return ast.Tuple(elts=first, ctx=ast.Load())
            if len(args) == 1 and fn.id == "reversed":
                return ast.List(elts=first[::-1], ctx=ast.Load())
            if len(args) == 1 and fn.id == "enumerate":
                return ast.List(elts=[ast.Tuple(elts=[ast.Constant(value=i), x], ctx=ast.Load()) for i, x in enumerate(first)], ctx=ast.Load())
            if fn.id == "zip":
                return ast.List(elts=[ast.Tuple(elts=list(t), ctx=ast.Load()) for t in zip(*seqs)], ctx=ast.Load())
        if isinstance(fn, ast.Name) and fn.id in ("next", "any", "all") and fn.id not in self.env and not kws and args and seqs[0] is not None:
            first = seqs[0]
            if fn.id == "next" and len(args) <= 2:
                if first:
                    if getattr(args[0], "_iter", False) and isinstance(args[0], ast.List):
                        rest = ast.List(elts=first[1:], ctx=ast.Load())
                        rest._iter = True
                        self.set_list(args[0], rest)     # every name that holds this iterator sees it advanced
                    return first[0]
                if len(args) == 2:
                    return args[1]
                raise _Exc("StopIteration")
            if fn.id != "next" and len(args) == 1:
                if not first:
                    return ast.Constant(value=fn.id == "all")
                return ast.Call(func=ast.Name(id="bool", ctx=ast.Load()), keywords=[],
                                args=[ast.BoolOp(op=ast.Or() if fn.id == "any" else ast.And(), values=first) if len(first) > 1 else first[0]])
        if isinstance(fn, ast.Name) and fn.id == "range" and fn.id not in self.env and not kws and 1 <= len(args) <= 3:
            cs = [const_value(a) for a in args]
            if all(isinstance(c, int) and not _noconst(c) for c in cs) and len(range(*cs)) <= 64:
                return ast.List(elts=[ast.Constant(value=i) for i in range(*cs)], ctx=ast.Load())
        if isinstance(fn, ast.Attribute) and not isinstance(fn.value, (ast.Dict, ast.List, ast.Tuple, ast.Set)):
            # item assignment spelled as a call: D.__setitem__(k, v) / D.update({k: v}) store D[k] = v
            pairs = None
            if fn.attr == "__setitem__" and len(args) == 2 and not kws and not any(isinstance(a, ast.Starred) for a in args):
                pairs = [(args[0], args[1])]
            elif fn.attr == "update" and len(args) == 1 and not kws and isinstance(args[0], ast.Dict) and args[0].keys \
                    and all(k is not None for k in args[0].keys):
                pairs = list(zip(args[0].keys, args[0].values))
            if pairs:
                for k, v in pairs:
                    t = _t(ast.Subscript(value=self.base(fn.value), slice=k, ctx=ast.Load()))
                    self.stores.append(_Store(t, v, enclosing_stmt(e) or e, dict(self.facts), dict(self.ver)))
                    self.ver[t] = self.ver.get(t, 0) + 1
                return ast.Constant(value=None)
        name = self.ext(fn)
        if name is not None:
            v = self.std(name, fn, args, kws, e)
            if v is not None:
                return v
        c = self.class_of(fn)
        if c is not None:
            v = self.construct(c, fn, args, kws, e)
            if v is not None:
                return v
        tgt = self.target(fn)
        if tgt is not None:
            return self.follow(tgt, fn, args, kws, e)
        c = ast.Call(func=fn, args=args, keywords=kws)
        self.calls.append(_Call(chain(fn), c, e, dict(self.facts), dict(self.ver)))
        return c

    # ------------------------------------------------------------------------------------------------ library functions
    def ext(self, fn: ast.expr) -> str | None:
        """dotted origin of an evaluated callee that is not defined in the repository: `itertools.chain`, `builtins.filter`, ..."""
        if isinstance(fn, ast.Name):
            n = fn.id
            if not n.isidentifier() or n in self.env or n in self.closures or n in self.local_classes or n in self.fi.params():
                return None
            if n in self.imported:
                return self.imported[n]
            for fi in (self.frames[-1], self.fi):
                m = fi.module
                if n in m.classes or n in m.functions or n in m.constants:
                    return None
                if n in m.imports:
                    mod, attr = m.imports[n]
                    if self.repo is not None and (mod in self.repo.modules or mod.split(".")[0] == "ipv8"):
                        return None
                    return f"{mod}.{attr}" if attr else mod
            return "builtins." + n if n in _BUILTIN_FUNCS else None
        if isinstance(fn, ast.Attribute):
            b = self.ext(fn.value)
            return f"{b}.{fn.attr}" if b else None
        return None

    def binop(self, l: ast.expr, op: ast.operator, r: ast.expr) -> ast.expr:
        if isinstance(op, ast.Add) and type(l) is type(r) and isinstance(l, (ast.List, ast.Tuple)):
            return type(l)(elts=[*l.elts, *r.elts], ctx=ast.Load())          # concatenation of two literals
        nl, nr = _int(l), _int(r)
        if nl is not None and nr is not None and isinstance(op, (ast.Add, ast.Sub, ast.Mult)):
            v = nl + nr if isinstance(op, ast.Add) else nl - nr if isinstance(op, ast.Sub) else nl * nr
            return ast.Constant(value=v) if v >= 0 else ast.UnaryOp(op=ast.USub(), operand=ast.Constant(value=-v))   # integer arithmetic
        return ast.BinOp(left=l, op=op, right=r)

    def callable_value(self, fn: ast.expr, args: list, kws: list, impl) -> ast.expr:
        node = ast.Call(func=fn, args=list(args), keywords=list(kws))
        node._fn = impl
        return node

    def std(self, name: str, fn: ast.expr, args: list, kws: list, e: ast.Call):  # noqa: C901, PLR0911, PLR0912, PLR0915
        """calls of the standard library whose result is defined by their arguments alone; None: not modelled (an opaque call)"""
        if any(isinstance(a, ast.Starred) for a in args) or any(k.arg is None for k in kws):
            return None
        mod, _, leaf = name.rpartition(".")

        def call(f, a):
            return self.apply(self.picked(f), list(a), [], e)

        def lst(xs):
            return ast.List(elts=list(xs), ctx=ast.Load())

        def one(a, k, what):
            if len(a) != 1 or k:
                raise self.undecided(f"call of {what} with other than one argument")
            return a[0]

        if name == "functools.partial" and args:
            pf, pa, pk = self.picked(args[0]), list(args[1:]), list(kws)

            def partial_impl(a, k, src):
                given = {y.arg for y in k}
                return self.apply(pf, [*pa, *a], [x for x in pk if x.arg not in given] + list(k), src)
            node = self.callable_value(fn, args, kws, partial_impl)
            node._partial = (pf, len(pa), {k.arg for k in pk})
            return node
        if name == "operator.methodcaller" and args and isinstance(const_value(args[0]), str):
            mname, margs, mkws = const_value(args[0]), list(args[1:]), list(kws)

            def methodcaller_impl(a, k, src):
                return self.apply(self.attribute(one(a, k, "a methodcaller"), mname), list(margs), list(mkws), src)
            return self.callable_value(fn, args, kws, methodcaller_impl)
        if mod == "operator" and not kws:
            if leaf in _OPERATOR_CMP and len(args) == 2:
                return ast.Compare(left=args[0], ops=[_OPERATOR_CMP[leaf]()], comparators=[args[1]])
            if leaf in _OPERATOR_BIN and len(args) == 2:
                return self.binop(args[0], _OPERATOR_BIN[leaf](), args[1])
            if leaf == "contains" and len(args) == 2:
                return ast.Compare(left=args[1], ops=[ast.In()], comparators=[args[0]])
            if leaf == "not_" and len(args) == 1:
                return ast.UnaryOp(op=ast.Not(), operand=args[0])
            if leaf == "truth" and len(args) == 1:
                return ast.Call(func=ast.Name(id="bool", ctx=ast.Load()), args=[args[0]], keywords=[])
            if leaf == "getitem" and len(args) == 2:
                return self.subscript(args[0], args[1])
            if leaf == "itemgetter" and args:
                keys = list(args)

                def itemgetter_impl(a, k, src):
                    x = one(a, k, "an itemgetter")
                    got = [self.subscript(x, key) for key in keys]
                    return got[0] if len(got) == 1 else ast.Tuple(elts=got, ctx=ast.Load())
                return self.callable_value(fn, args, kws, itemgetter_impl)
            if leaf == "attrgetter" and args and all(isinstance(const_value(a), str) for a in args):
                paths = [const_value(a) for a in args]

                def attrgetter_impl(a, k, src):
                    x = one(a, k, "an attrgetter")
                    got = []
                    for path in paths:
                        v = x
                        for part in path.split("."):
                            v = self.attribute(v, part)
                        got.append(v)
                    return got[0] if len(got) == 1 else ast.Tuple(elts=got, ctx=ast.Load())
                return self.callable_value(fn, args, kws, attrgetter_impl)
            return None
        if name == "itertools.chain" and not kws:
            seqs = [_items(a) for a in args]
            return None if any(x is None for x in seqs) else lst(y for x in seqs for y in x)
        if name == "itertools.chain.from_iterable" and len(args) == 1 and not kws:
            outer = _items(args[0])
            inner = [_items(x) for x in outer] if outer is not None else [None]
            return None if any(x is None for x in inner) else lst(y for x in inner for y in x)
        if name == "itertools.islice" and 2 <= len(args) <= 4 and not kws:
            xs = _items(args[0])
            cs = [None if isinstance(a, ast.Constant) and a.value is None else _int(a) for a in args[1:]]
            if xs is None or any(c is None and not (isinstance(a, ast.Constant) and a.value is None) for c, a in zip(cs, args[1:])):
                return None
            return lst(xs[slice(*cs)])
        if name in ("builtins.filter", "itertools.filterfalse") and len(args) == 2 and not kws:
            keep = name == "builtins.filter"
            pred = args[0]
            xs = _items(args[1])
            if xs is None:
                xs = [_each(args[1])]                    # unknown iterable: one representative element (as in a comprehension)
            none = isinstance(pred, ast.Constant) and pred.value is None
            return lst(x for x in xs if self.truth(x if none else call(pred, [x])) == keep)
        if name == "builtins.map" and len(args) >= 2 and not kws:
            seqs = [_items(a) for a in args[1:]]
            if all(x is not None for x in seqs):
                return lst(call(args[0], row) for row in zip(*seqs))
            return lst([call(args[0], [_each(args[1])])]) if len(args) == 2 else None
        if name == "itertools.starmap" and len(args) == 2 and not kws:
            rows = _items(args[1])
            rows = [_items(x) for x in rows] if rows is not None else [None]
            return None if any(x is None for x in rows) else lst(call(args[0], row) for row in rows)
        if name in ("itertools.takewhile", "itertools.dropwhile") and len(args) == 2 and not kws:
            xs = _items(args[1])
            if xs is None:
                return None
            i = 0
            while i < len(xs) and self.truth(call(args[0], [xs[i]])):
                i += 1
            return lst(xs[:i] if leaf == "takewhile" else xs[i:])
        if name == "functools.reduce" and len(args) in (2, 3) and not kws:
            xs = _items(args[1])
            if xs is None:
                return None
            if len(args) == 3:
                acc = args[2]
            elif xs:
                acc, xs = xs[0], xs[1:]
            else:
                raise _Exc("TypeError")                   # reduce() of empty iterable with no initial value
            for x in xs:
                acc = call(args[0], [acc, x])
            return acc
        if name == "itertools.accumulate" and 1 <= len(args) <= 2 and all(k.arg in ("func", "initial") for k in kws):
            xs = _items(args[0])
            if xs is None:
                return None
            kw = {k.arg: k.value for k in kws}
            f = args[1] if len(args) == 2 else kw.get("func")
            if isinstance(f, ast.Constant) and f.value is None:
                f = None
            init = kw.get("initial")
            out, acc = [], None
            if init is not None and not (isinstance(init, ast.Constant) and init.value is None):
                acc = init
                out.append(acc)
            for x in xs:
                acc = x if acc is None else (call(f, [acc, x]) if f is not None else self.binop(acc, ast.Add(), x))
                out.append(acc)
            return lst(out)
        if name == "itertools.repeat" and len(args) == 2 and not kws and _int(args[1]) is not None and 0 <= _int(args[1]) <= 64:
            return lst([args[0]] * _int(args[1]))
        if name == "builtins.dict" and len(args) <= 1:
            keys, vals = [], []
            if args:
                if isinstance(args[0], ast.Dict) and all(k is not None for k in args[0].keys):
                    keys, vals = list(args[0].keys), list(args[0].values)
                else:
                    rows = _items(args[0])
                    rows = [_items(x) for x in rows] if rows is not None else [None]
                    if any(x is None or len(x) != 2 for x in rows):
                        return None
                    keys, vals = [x[0] for x in rows], [x[1] for x in rows]
            for k in kws:
                keys.append(ast.Constant(value=k.arg))
                vals.append(k.value)
            if len({_t(k) for k in keys}) != len(keys):
                return None
            return ast.Dict(keys=keys, values=vals)
        if name == "types.SimpleNamespace" and not args:
            node = ast.Call(func=fn, args=[], keywords=list(kws))
            node._rec = _Rec(None, "ns", [k.arg for k in kws], {k.arg: k.value for k in kws})
            self.records.append(node._rec)
            return node
        if name == "dataclasses.replace" and len(args) == 1:
            r = _rec(args[0])
            if r is not None and r.kind == "data" and all(k.arg in r.names for k in kws) and r.cls.method("__post_init__") is None:
                return self.record_like(args[0], r, {**r.fields, **{k.arg: k.value for k in kws}})
        return None

    # ------------------------------------------------------------------------------------------------ objects
    def class_of(self, fn: ast.expr) -> _Cls | None:
        """the class definition that an evaluated callee / class expression denotes"""
        if isinstance(fn, ast.Name) and fn.id in self.local_classes and fn.id not in self.env:
            return self.local_classes[fn.id]
        if self.repo is None or not isinstance(fn, (ast.Name, ast.Attribute)):
            return None
        if isinstance(fn, ast.Name) and (not fn.id.isidentifier() or fn.id in self.env or fn.id in self.closures):
            return None
        if isinstance(fn, ast.Attribute) and not (isinstance(fn.value, ast.Name) and fn.value.id.isidentifier() and fn.value.id not in self.env):
            return None
        for fi in (self.frames[-1], self.fi):
            try:
                c = self.repo.resolve_class_expr(fi.module, fn)
            except (AttributeError, KeyError, TypeError):
                c = None
            if c is not None:
                return _Cls(c.node, c)
            if isinstance(fn, ast.Name):
                r = self.repo.resolve_name(fi.module, fn.id)
                if isinstance(r, tuple) and r[0] == "const":
                    return _functional_namedtuple(fn.id, r[2])
        return None

    def followable(self, c: _Cls, m) -> bool:
        """is the method code this evaluation enters: of a class local to the evaluated body, or one the reviewed tree does not have"""
        node = m.node if isinstance(m, FuncInfo) else m
        if node in self.active:
            raise self.undecided(f"recursive method {c.name}.{node.name}")
        return c.info is None or (isinstance(m, FuncInfo) and _is_new(m))

    def field_default(self, c: _Cls, d: ast.expr, kind: str):
        if kind == "data" and isinstance(d, ast.Call) and (chain(d.func) or "").split(".")[-1] == "field":
            kw = {k.arg: k.value for k in d.keywords}
            if d.args or set(kw) - {"default", "default_factory", "repr", "compare", "hash", "metadata", "kw_only"}:
                return None
            if "default" in kw:
                d = kw["default"]
            elif "default_factory" in kw:
                fac = kw["default_factory"]
                if isinstance(fac, ast.Name) and fac.id in ("list", "tuple"):
                    return (ast.List if fac.id == "list" else ast.Tuple)(elts=[], ctx=ast.Load())
                if isinstance(fac, ast.Name) and fac.id == "dict":
                    return ast.Dict(keys=[], values=[])
                if isinstance(fac, ast.Lambda) and not fac.args.args:
                    d = fac.body
                else:
                    return None
            else:
                return None
        if c.info is not None and c.info.module is not self.frames[-1].module and _noconst(const_value(d)):
            return None                                  # names of another module: not resolvable from the current frame
        return self.in_frame_of(c.env, lambda: self.ev(d))

    def construct(self, c: _Cls, fn: ast.expr, args: list, kws: list, e: ast.Call):
        """the object `C(args)` creates, for the classes whose construction the language defines (see _class_kind); else None"""
        kind = _class_kind(c)
        if kind is None:
            if c.info is not None and c.info.methods and all(_is_new(m) for m in c.info.methods.values()) \
                    and set(c.bases()) <= {"object", "Generic", "NamedTuple"}:
                raise self.undecided(f"objects of the new class {c.name}")         # (a class with other bases stays an opaque constructor call)
            return None
        starred = any(isinstance(a, ast.Starred) for a in args) or any(k.arg is None for k in kws)
        node = ast.Call(func=fn, args=list(args), keywords=list(kws))
        if kind == "plain":
            if starred:
                raise self.undecided(f"starred arguments in the construction of {c.name}")
            init = c.method("__init__")
            if init is None and (args or kws):
                raise self.undecided(f"arguments for {c.name}, which has no __init__")
            if init is not None and not self.followable(c, init):
                return None
            node._rec = _Rec(c, kind, [], {})
            self.records.append(node._rec)
            if init is not None:
                self.follow(init, ast.Attribute(value=node, attr="__init__", ctx=ast.Load()), args, kws, e, self_value=node)
            return node
        if starred:
            return None
        names, defaults = [], {}
        for st in c.annotated():
            ann = norm(st.annotation)
            if "ClassVar" in ann:
                continue
            if "InitVar" in ann or "KW_ONLY" in ann:
                return None
            names.append(st.target.id)
            if st.value is not None:
                defaults[st.target.id] = st.value
        if len(args) > len(names):
            return None
        fields = dict(zip(names, args))
        for k in kws:
            if k.arg not in names or k.arg in fields:
                return None
            fields[k.arg] = k.value
        post = c.method("__post_init__") if kind == "data" else None
        if post is not None and not self.followable(c, post):
            return None
        for n in names:
            if n not in fields:
                d = self.field_default(c, defaults[n], kind) if n in defaults else None
                if d is None:
                    return None
                fields[n] = d
        node._rec = _Rec(c, kind, names, {n: fields[n] for n in names})
        self.records.append(node._rec)
        self.calls.append(_Call(chain(fn), node, e, dict(self.facts), dict(self.ver)))
        if post is not None:
            self.follow(post, ast.Attribute(value=node, attr="__post_init__", ctx=ast.Load()), [], [], e, self_value=node)
        return node

    def record_like(self, recv: ast.expr, r: _Rec, fields: dict) -> ast.expr:
        """a copy of an object with other field values (`_replace`, dataclasses.replace)"""
        node = ast.Call(func=recv.func, args=[], keywords=[ast.keyword(arg=n, value=fields[n]) for n in r.names])
        node._rec = _Rec(r.cls, r.kind, list(r.names), {n: fields[n] for n in r.names})
        self.records.append(node._rec)
        return node

    def rec_attr(self, b: ast.expr, r: _Rec, attr: str) -> ast.expr:
        """`b.attr` of an object created on this path"""
        if attr in r.fields:
            return r.fields[attr]
        c = r.cls
        if c is not None:
            m = c.method(attr)
            if m is not None:
                if _PROPERTY & _deco_names(m):
                    if not self.followable(c, m):
                        return self.versioned(ast.Attribute(value=b, attr=attr, ctx=ast.Load()))
                    return self.follow(m, ast.Attribute(value=b, attr=attr, ctx=ast.Load()), [], [], None, self_value=b)
                return ast.Attribute(value=b, attr=attr, ctx=ast.Load())         # a bound method: entered when it is called
            v = c.attr(attr)
            if v is not None and (c.info is None or c.info.module is self.frames[-1].module or not _noconst(const_value(v))):
                return self.in_frame_of(c.env, lambda: self.ev(v))
        if r.kind == "tuple" and attr == "_fields":
            return ast.Tuple(elts=[ast.Constant(value=n) for n in r.names], ctx=ast.Load())
        if attr == "__class__" and isinstance(b, ast.Call):
            return b.func
        if attr == "__dict__" and r.kind in ("plain", "data", "ns"):
            return ast.Dict(keys=[ast.Constant(value=n) for n in r.fields], values=list(r.fields.values()))
        if r.kind == "tuple" and attr in ("_replace", "_asdict"):
            return ast.Attribute(value=b, attr=attr, ctx=ast.Load())
        return self.versioned(ast.Attribute(value=b, attr=attr, ctx=ast.Load()))

    def rec_item(self, b: ast.expr, r: _Rec, k: ast.expr):
        """`b[k]` of an object created on this path; None: not known"""
        if r.kind == "tuple":
            vals = [r.fields[n] for n in r.names]
            i = _int(k)
            if i is not None:
                if -len(vals) <= i < len(vals):
                    return vals[i]
                raise _Exc("IndexError")
            if isinstance(k, ast.Slice):
                cs = [None if x is None else _int(x) for x in (k.lower, k.upper, k.step)]
                if all(c is not None or x is None for c, x in zip(cs, (k.lower, k.upper, k.step))):
                    return ast.Tuple(elts=vals[slice(*cs)], ctx=ast.Load())
            return None
        if r.cls is not None and r.cls.method("__getitem__") is not None and not isinstance(k, ast.Slice):
            return self.rec_call(b, r, "__getitem__", [k], [], None)
        return None

    def rec_call(self, recv: ast.expr, r: _Rec, name: str, args: list, kws: list, e):
        """call of the attribute `name` of an object created on this path; None when that is not code this evaluation enters"""
        if r.kind == "tuple" and name == "_replace" and not args and all(k.arg in r.names for k in kws):
            return self.record_like(recv, r, {**r.fields, **{k.arg: k.value for k in kws}})
        if r.kind == "tuple" and name == "_asdict" and not args and not kws:
            return ast.Dict(keys=[ast.Constant(value=n) for n in r.names], values=[r.fields[n] for n in r.names])
        c = r.cls
        m = c.method(name) if c is not None else None
        if m is None:
            if name in r.fields and name != "__call__":
                return self.apply(self.picked(r.fields[name]), args, kws, e)          # a callable held in an attribute
            return None
        if not self.followable(c, m):
            return None
        decos = _deco_names(m)
        if "staticmethod" in decos:
            return self.follow(m, ast.Name(id=name, ctx=ast.Load()), args, kws, e)
        me = recv.func if "classmethod" in decos and isinstance(recv, ast.Call) else recv
        return self.follow(m, ast.Attribute(value=recv, attr=name, ctx=ast.Load()), args, kws, e, self_value=me)

    def enum_member(self, x: ast.expr):
        """(class, member name) when the evaluated expression names a member of an Enum class"""
        if self.repo is None or not (isinstance(x, ast.Attribute) and isinstance(x.value, ast.Name) and x.value.id.isidentifier()
                                     and x.value.id not in ("self", "cls") and x.value.id not in self.env):
            return None
        for fi in (self.frames[-1], self.fi):
            try:
                c = self.repo.resolve_class_expr(fi.module, x.value)
            except (AttributeError, KeyError, TypeError):
                c = None
            if c is not None and any(b.endswith(("Enum", "Flag")) for b in c.all_base_names()) and c.lookup_attr(x.attr) is not None:
                return c, x.attr
        return None

    def enum_attr(self, b: ast.expr, m: tuple, attr: str):
        """`Member.attr`: name, constant value, or a property / method that the reviewed tree does not have; None: not known"""
        c, member = m
        if attr == "name":
            return ast.Constant(value=member)
        if attr == "value":
            v = c.lookup_attr(member)
            return v if v is not None and not _noconst(const_value(v)) else None
        meth = c.lookup(attr)
        if meth is None or not _is_new(meth) or meth.node in self.active:
            return None
        if _PROPERTY & _deco_names(meth):
            return self.follow(meth, ast.Attribute(value=b, attr=attr, ctx=ast.Load()), [], [], None, self_value=b)
        return ast.Attribute(value=b, attr=attr, ctx=ast.Load())

    def comprehension(self, e) -> ast.expr:
        saved = dict(self.env)

        def gen(i: int) -> list:
            if i == len(e.generators):
                return [self.ev(e.elt)]
            g = e.generators[i]
            if g.is_async:
                raise self.undecided("async comprehension")
            it = self.ev(g.iter)
            out = []
            if _items(it) is not None:
                for x in _items(it):
                    self.bind(g.target, x, None)
                    if all(self.truth(self.ev(c)) for c in g.ifs):
                        out.extend(gen(i + 1))
                return out
            self.bind(g.target, _each(it), None)
            if all(self.truth(self.ev(c)) for c in g.ifs):
                out.extend(gen(i + 1))
            return out
        elts = gen(0)
        self.env.clear()                                 # comprehension targets are local to the comprehension
        self.env.update(saved)                           # (restored in place: helper frames may share this dict)
        return ast.List(elts=elts, ctx=ast.Load())

    # ------------------------------------------------------------------------------------------------ statements
    def bind(self, target: ast.expr, value: ast.expr | None, stmt) -> None:
        if isinstance(target, ast.Name):
            if value is None:
                self.env.pop(target.id, None)
            else:
                self.env[target.id] = value
            return
        if isinstance(target, (ast.Tuple, ast.List)):
            if any(isinstance(t, ast.Starred) for t in target.elts):
                raise self.undecided("starred assignment target")
            items = _items(value) if value is not None else None
            if items is not None and len(items) == len(target.elts):
                for t, x in zip(target.elts, items):
                    self.bind(t, x, stmt)
            else:
                for i, t in enumerate(target.elts):
                    self.bind(t, ast.Subscript(value=value, slice=ast.Constant(value=i), ctx=ast.Load()), stmt)
            return
        if isinstance(target, ast.Attribute):
            owner = self.base(self.ev(target.value))
            r = _rec(owner)
            if r is not None:
                # attribute of an object created on this path: part of that object, not a store the rules look at
                if r.kind == "tuple" or (r.cls is not None and r.cls.method(target.attr) is not None):
                    raise self.undecided(f"assignment to `{norm(target)[:60]}`")
                if value is None:
                    r.fields.pop(target.attr, None)
                else:
                    r.fields[target.attr] = value
                    if target.attr not in r.names:
                        r.names.append(target.attr)
                return
            n = ast.Attribute(value=owner, attr=target.attr, ctx=ast.Load())
        elif isinstance(target, ast.Subscript):
            n = ast.Subscript(value=self.base(self.ev(target.value)), slice=self.ev(target.slice), ctx=ast.Load())
        else:
            raise self.undecided(f"assignment target `{norm(target)[:60]}`")
        t = _t(n)
        self.stores.append(_Store(t, value, stmt, dict(self.facts), dict(self.ver)))
        self.ver[t] = self.ver.get(t, 0) + 1

    def pattern(self, pat: ast.pattern, subj: ast.expr) -> bool:
        """does the evaluated subject match the pattern (literals, dotted constants, or-patterns, captures, fixed-length sequences)"""
        lit = pat.value if isinstance(pat, ast.MatchSingleton) else const_value(pat.value) if isinstance(pat, ast.MatchValue) else None
        if isinstance(lit, bool) and _boolish(subj):
            return self.truth(subj) == lit               # a comparison result matched against True / False
        if isinstance(pat, ast.MatchValue):
            return self.truth(ast.Compare(left=subj, ops=[ast.Eq()], comparators=[self.ev(pat.value)]))
        if isinstance(pat, ast.MatchSingleton):
            return self.truth(ast.Compare(left=subj, ops=[ast.Is()], comparators=[ast.Constant(value=pat.value)]))
        if isinstance(pat, ast.MatchOr):
            return any(self.pattern(q, subj) for q in pat.patterns)
        if isinstance(pat, ast.MatchAs):
            if pat.pattern is not None and not self.pattern(pat.pattern, subj):
                return False
            if pat.name is not None:
                self.env[pat.name] = subj
            return True
        if isinstance(pat, ast.MatchSequence) and isinstance(subj, (ast.Tuple, ast.List)) \
                and not any(isinstance(q, ast.MatchStar) for q in pat.patterns) and not any(isinstance(x, ast.Starred) for x in subj.elts):
            return len(pat.patterns) == len(subj.elts) and all(self.pattern(q, x) for q, x in zip(pat.patterns, subj.elts))
        if isinstance(pat, ast.MatchClass):
            r = _rec(subj)
            pc = self.class_of(self.ev(pat.cls))
            if r is not None and r.cls is not None and pc is not None and _class_kind(pc) is not None:
                if not r.cls.same(pc):
                    return False
                if r.kind in ("tuple", "data"):
                    names = r.names
                else:
                    names = const_value(pc.attr("__match_args__")) if pc.attr("__match_args__") is not None else ()
                if isinstance(names, (list, tuple)) and len(pat.patterns) <= len(names):
                    return all(self.pattern(q, self.rec_attr(subj, r, n)) for q, n in zip(pat.patterns, names)) and \
                        all(self.pattern(q, self.rec_attr(subj, r, n)) for n, q in zip(pat.kwd_attrs, pat.kwd_patterns))
        raise self.undecided(f"match pattern `{norm(pat)[:60]}`")

    def block(self, stmts) -> None:
        for s in stmts:
            self.stmt(s)

    def stmt(self, s: ast.stmt) -> None:  # noqa: C901, PLR0912
        if isinstance(s, ast.Expr):
            if isinstance(s.value, (ast.Yield, ast.YieldFrom)):
                if not self.yields:
                    raise self.undecided("yield outside a followed generator helper")
                if isinstance(s.value, ast.Yield):
                    self.yields[-1].append(self.ev(s.value.value) if s.value.value is not None else ast.Constant(value=None))
                else:
                    v = self.ev(s.value.value)
                    if isinstance(v, (ast.List, ast.Tuple)):
                        self.yields[-1].extend(v.elts)
                    else:
                        self.yields[-1].append(ast.Starred(value=v, ctx=ast.Load()))
            elif not isinstance(s.value, ast.Constant):
                self.ev(s.value)
        elif isinstance(s, (ast.FunctionDef, ast.AsyncFunctionDef)):
            if any(not (isinstance(d, ast.Call) and self.ext(d.func) == "functools.wraps") for d in s.decorator_list):
                raise self.undecided(f"decorated local function {s.name}")     # (functools.wraps only copies the name and docstring)
            self.closures[s.name] = s
            self.defenv[id(s)] = self.env
            self.env.pop(s.name, None)
        elif isinstance(s, ast.Assign):
            v = self.ev(s.value)
            for t in s.targets:
                self.bind(t, v, s)
        elif isinstance(s, ast.AnnAssign):
            if s.value is not None:
                self.bind(s.target, self.ev(s.value), s)
        elif isinstance(s, ast.AugAssign):
            v = self.ev(s.value)
            if isinstance(s.target, ast.Name):
                cur = self.ev(s.target)
                if isinstance(cur, ast.List) and isinstance(s.op, ast.Add) and isinstance(v, (ast.List, ast.Tuple)):
                    self.set_list(cur, ast.List(elts=[*cur.elts, *v.elts], ctx=ast.Load()))      # in place: aliases see it
                else:
                    self.env[s.target.id] = self.binop(cur, s.op, v)
            else:
                cur = self.ev(s.target)
                self.bind(s.target, ast.BinOp(left=cur, op=s.op, right=v), s)
        elif isinstance(s, ast.If):
            self.block(s.body if self.truth(self.ev(s.test)) else s.orelse)
        elif isinstance(s, (ast.For, ast.AsyncFor)):
            it = self.ev(s.iter)
            if _items(it) is not None:
                broke = False
                for x in _items(it):
                    self.bind(s.target, x, s)
                    try:
                        self.block(s.body)
                    except _Cnt:
                        continue
                    except _Brk:
                        broke = True
                        break
                if not broke:
                    self.block(s.orelse)
            else:
                # unknown iterable: one representative element; lists appended to in the body hold that element
                # (for/else: the else block runs exactly when no element left the loop with `break` - under the one-representative
                # abstraction, when the representative element did not)
                self.bind(s.target, _each(it), s)
                broke = False
                try:
                    self.block(s.body)
                except _Cnt:
                    pass
                except _Brk:
                    broke = True
                if not broke:
                    self.block(s.orelse)
        elif isinstance(s, ast.Match):
            subj = self.ev(s.subject)
            for case in s.cases:
                if self.pattern(case.pattern, subj) and (case.guard is None or self.truth(self.ev(case.guard))):
                    self.block(case.body)
                    break
        elif isinstance(s, ast.While):
            # unrolled while its condition is decided on this path (e.g. `while pending: x = pending.pop(0)` over a list literal)
            n, broke = 0, False
            while self.truth(self.ev(s.test)):
                n += 1
                if n > 16:
                    raise self.undecided("a while loop of more than 16 iterations")
                try:
                    self.block(s.body)
                except _Cnt:
                    continue
                except _Brk:
                    broke = True
                    break
            if not broke:
                self.block(s.orelse)
        elif isinstance(s, (ast.With, ast.AsyncWith)):
            suppressed: set[str] = set()
            for item in s.items:
                v = self.ev(item.context_expr)
                if item.optional_vars is not None:
                    self.bind(item.optional_vars, v, s)
                if isinstance(v, ast.Call) and self.ext(v.func) == "contextlib.suppress":
                    suppressed.update((chain(a) or "?").split(".")[-1] for a in v.args)
            if not suppressed:
                self.block(s.body)
            else:
                # `with suppress(KeyError): ...` is `try: ... except KeyError: pass`
                keyed = bool(suppressed & _CATCHES_KEYERROR)
                self.catching += keyed
                try:
                    self.block(s.body)
                except _Exc as x:
                    if not suppressed & _catchers(x.kind):
                        raise
                except _Rse:
                    raise self.undecided("an explicit raise inside `with suppress(...)`") from None
                finally:
                    self.catching -= keyed
        elif isinstance(s, ast.Return):
            raise _Ret(self.ev(s.value) if s.value is not None else None)
        elif isinstance(s, ast.Raise):
            if s.exc is not None:
                self.ev(s.exc)
            raise _Rse
        elif isinstance(s, ast.Assert):
            if not self.truth(self.ev(s.test)):
                raise _Rse
        elif isinstance(s, ast.Break):
            raise _Brk
        elif isinstance(s, ast.Continue):
            raise _Cnt
        elif isinstance(s, ast.ImportFrom):
            for a in s.names:
                if not s.level and s.module:
                    self.imported[a.asname or a.name] = f"{s.module}.{a.name}"
        elif isinstance(s, ast.Import):
            for a in s.names:
                self.imported[a.asname or a.name.split(".")[0]] = a.name if a.asname else a.name.split(".")[0]
        elif isinstance(s, ast.ClassDef):
            c = _Cls(s, None, self.env)
            self.local_classes[s.name] = c
            for m in c.methods().values():
                self.defenv[id(m)] = self.env
            self.env.pop(s.name, None)
        elif isinstance(s, (ast.Pass, ast.Global, ast.Nonlocal)):
            pass
        elif isinstance(s, ast.Delete):
            for t in s.targets:
                self.bind(t, None, s)
        elif isinstance(s, ast.Try):
            # implicit exceptions of calls are not modelled (as in the CFG queries with follow_exc=False).  A failed lookup
            # `D[k]` under a handler that catches KeyError is control flow and is followed into the handler; an explicit raise
            # inside a guarded body would need the handlers
            keyed = any(_handler_catches(h, "KeyError") for h in s.handlers)
            try:
                try:
                    self.catching += keyed
                    try:
                        self.block(s.body)
                    finally:
                        self.catching -= keyed
                except _Exc as x:
                    h = next((h for h in s.handlers if _handler_catches(h, x.kind)), None)
                    if h is None:
                        raise
                    if h.name:
                        self.env[h.name] = ast.Name(id=f"<{x.kind}>", ctx=ast.Load())
                    self.block(h.body)
                except _Rse:
                    if s.handlers:
                        raise self.undecided("an explicit raise inside try/except") from None
                    raise
                else:
                    self.block(s.orelse)
            finally:
                self.block(s.finalbody)
        else:
            raise self.undecided(f"statement `{norm(s)[:60]}`")


def _noconst(v) -> bool:
    return type(v).__name__ == "_NoConst"


def _each(it: ast.expr) -> ast.expr:
    return ast.Name(id=f"each({_t(it)})", ctx=ast.Load())


def _bind(ctx: Ctx):
    """make the repository model of this check available to the symbolic evaluation (helpers are followed through it)"""
    global _REPO  # noqa: PLW0603
    _REPO = ctx.repo
    return ctx.repo


def _paths(fi: FuncInfo, preset: dict | None = None, limit: int = 4000, repo=None, driver=None) -> list[_Path]:
    out = []
    stack: list[list[bool]] = [[]]
    while stack:
        run = _Run(fi, preset or {}, stack.pop(), repo, driver)
        out.append(run.go())
        stack.extend(run.alternatives)
        if len(out) + len(stack) > limit:
            raise AnalysisError(f"undecided: more than {limit} paths through {fi.qualname}")
    return out


def _preset(fi: FuncInfo, atoms: dict[str, bool]) -> dict[str, bool]:
    """{atom source text: value} -> {fact key: value}"""
    r = _Run(fi, {}, [])
    out = {}
    for text, val in atoms.items():
        key, pol = r.key_of(text)
        out[key] = val if pol else not val
    return out


def _fact(facts: dict, fi: FuncInfo, text: str):
    """value of the atom `text` among the facts (any version of the mentioned attributes), None when not decided"""
    key, pol = _Run(fi, {}, []).key_of(text)
    for k, v in facts.items():
        if _unver(k) == key:
            return v if pol else not v
    return None


def _cur(text: str, ver: dict) -> str:
    """spelling of the attribute chain `text` when read under the store versions `ver`"""
    k = ver.get(text)
    return f"{text}@{k}" if k else text


def _args(c: ast.Call, names: list[str]) -> list[str] | None:
    """texts of the first len(names) parameters of a call, positional or by keyword"""
    out = []
    for i, n in enumerate(names):
        if i < len(c.args):
            if any(isinstance(a, ast.Starred) for a in c.args[: i + 1]):
                return None
            out.append(_t(c.args[i]))
        else:
            k = next((k for k in c.keywords if k.arg == n), None)
            out.append(_t(k.value) if k else "<missing>")
    return out


# ---------------------------------------------------------------------------------------------------------------------

def _eff_prefix(text: str | None, param: str, truthy) -> str:
    """the community prefix `_ez_pack(<text> ...)` / `create_puncture_request(prefix=<text>)` ends up using, as a canonical text:
    a missing / None / falsy prefix means the overlay's own one"""
    if text in (None, "<missing>", "None", "self._prefix"):
        return "self._prefix"
    if text in (param, f"{param} or self._prefix"):
        return param if truthy is True else "self._prefix" if truthy is False else f"{param} or self._prefix"
    return text


def rule_puncture_accompanies(ctx: Ctx) -> None:  # noqa: C901, PLR0912, PLR0915
    repo = _bind(ctx)
    fi = repo.method("Community", "create_introduction_response", CM)
    p = fi.params()
    lan_sock, sock, ident, intro_param = p[1], p[2], p[3], p[4]
    prefix_param = "prefix" if "prefix" in p else None
    if prefix_param is None:
        raise AnalysisError("anchor-lost: the prefix parameter of create_introduction_response")
    cpr = repo.method("Community", "create_puncture_request", CM)
    paths = [x for x in _paths(fi) if x.end == "return"]
    gf = repo.method("Community", "get_peer_for_introduction", CM)
    payload_names = ("IntroductionResponsePayload", "NewIntroductionResponsePayload")
    fields = ["destination_address", "source_lan_address", "source_wan_address", "lan_introduction_address", "wan_introduction_address"]
    seen: set[str] = set()
    sites = set()
    excl_nodes: dict[int, bool] = {}
    any_send = None
    for path in paths:
        pls = [n for n in ast.walk(path.ret) if isinstance(n, ast.Call) and chain(n.func) in payload_names] if path.ret is not None else []
        pls = list({id(n): n for n in pls}.values())          # `payload.msg_id` and `payload` are the same value
        if len(pls) != 1:
            raise AnalysisError("undecided: a return value of create_introduction_response does not contain one introduction-response payload")
        a = _args(pls[0], fields)
        if a is None:
            raise AnalysisError("undecided: starred arguments in the introduction-response payload")
        dest, lan, wan = a[0], a[3], a[4]
        src_pl = next((c.src for c in path.calls if c.call is pls[0]), fi.node)
        sends = [c for c in path.calls if c.chain == "self.endpoint.send" and isinstance(c.arg(1, "packet"), ast.Call)
                 and chain(c.arg(1, "packet").func) == "self.create_puncture_request"]
        for c in path.calls:
            if c.chain == "self.get_peer_for_introduction":
                ok = _t(c.arg(0, gf.params()[1])) == f"self.network.get_verified_by_address({sock})"
                excl_nodes[id(c.src)] = excl_nodes.get(id(c.src), True) and ok
        if dest != sock and "dest" not in seen:
            seen.add("dest")
            ctx.check(False, "puncture-accompanies", fi, src_pl, "response names the requester's address as destination",
                      "the response's introduction fields are not the ones the puncture was requested for")
        if lan == NULL_T and wan == NULL_T:
            continue
        sites.add((lan, wan))
        if len(sends) != 1:
            key = "nosend:" + lan + wan
            if key not in seen:
                seen.add(key)
                ctx.check(False, "puncture-accompanies", fi, src_pl if not sends else sends[0].src,
                          f"response introducing ({lan}, {wan}) is accompanied by one puncture request",
                          f"an introduction ({lan}, {wan}) can be handed out without asking the introduced peer to puncture towards the "
                          f"requester (path conditions: {path.extra()})")
            continue
        c = sends[0]
        any_send = any_send or c
        tgt = _t(c.arg(0, "socket_address"))
        pk = c.arg(1, "packet")
        who = tgt[: -len(".address")] if tgt.endswith(".address") else None
        ok = who is not None and _args(pk, repo.method("Community", "create_puncture_request", CM).params()[1:4]) == [lan_sock, sock, ident]
        key = f"send:{tgt}:{_t(pk)}"
        if key not in seen:
            seen.add(key)
            ctx.check(ok, "puncture-accompanies", fi, c.src, "puncture request (requester LAN, requester WAN, request identifier) goes to the introduced peer",
                      "the puncture request is sent to the wrong peer or carries other addresses/identifier than the requester's")
        # ... and is packed for the community the response is packed for (the `prefix` the caller answers on behalf of)
        packs = [n for n in ast.walk(path.ret) if isinstance(n, ast.Call) and chain(n.func) == "self._ez_pack" and n.args]
        if len({_t(n.args[0]) for n in packs}) != 1:
            raise AnalysisError("undecided: the community prefix the introduction response is packed with (no single self._ez_pack(prefix, ...) "
                                "in the value create_introduction_response returns)")
        truthy = _fact(path.facts, fi, prefix_param)
        cpr_args = _args(pk, cpr.params()[1:5]) or [None] * 4
        resp_prefix, punct_prefix = _eff_prefix(_t(packs[0].args[0]), prefix_param, truthy), _eff_prefix(cpr_args[3], prefix_param, truthy)
        key = f"prefix:{resp_prefix}:{punct_prefix}"
        if key not in seen:
            seen.add(key)
            ctx.check(resp_prefix == punct_prefix, "puncture-accompanies", fi, c.src,
                      "the puncture request is packed with the community prefix of the response it accompanies",
                      f"create_introduction_response packs the response with `{resp_prefix}` but the accompanying puncture request with `{punct_prefix}`: "
                      "an introducer answering on behalf of another community id (prefix=...) asks the introduced peer to puncture in a community that "
                      "peer's endpoint has no listener for - the request is dropped, no puncture is sent and the requester's contact attempt is filtered by "
                      "the introduced peer's NAT")
        if not ok:
            continue
        # the addresses handed out are those of the peer that is asked to puncture
        is_lan = _fact(path.facts, fi, f"isinstance({who}.address, UDPv4Address)") is True and \
            _fact(path.facts, fi, f"self.address_is_lan({who}.address[0])") is True
        if is_lan:
            want = (f"{who}.address", f"(self.my_estimated_wan[0], {who}.address[1])")
        else:
            want = (f"{who}.addresses.get(UDPv4LANAddress, {NULL_T})", f"{who}.address")
        # `D.get(k, null)` spelled as a membership test / try-except KeyError: `D[k]` where k is known to be present, null where not
        has_lan = _fact(path.facts, fi, f"UDPv4LANAddress in {who}.addresses")
        lan_slot = f"{who}.addresses[UDPv4LANAddress]"
        if _fact(path.facts, fi, lan_slot) is False:
            continue                                     # `D.get(k) or null`: an address is an (ip, port) pair, never falsy - not a path
        same = (lan, wan) == want or (not is_lan and wan == want[1] and (
            (has_lan is True and lan in (lan_slot, f"{who}.addresses.get(UDPv4LANAddress)")) or (has_lan is False and lan == NULL_T)))
        origin_ok = who == intro_param or who.startswith("self.get_peer_for_introduction(")
        key = f"derive:{is_lan}:{lan}:{wan}:{who}"
        if key not in seen:
            seen.add(key)
            ctx.check(same and origin_ok, "puncture-accompanies", fi, src_pl,
                      f"introduced (LAN, WAN) = {want} for a peer {'on our LAN' if is_lan else 'elsewhere'}; the same peer gets the puncture request",
                      f"introduction address derivation changed: the response carries ({lan}, {wan}) while the puncture request goes to {tgt}; "
                      f"expected {want}")
    ctx.floor("puncture-accompanies.sites", len(sites), 2)
    if "prefix" not in cpr.params():
        raise AnalysisError("anchor-lost: the prefix parameter of create_puncture_request")
    bad_pack = None
    n_packs = 0
    for truthy in (True, False):
        for path in _paths(cpr, _preset(cpr, {"prefix": truthy})):
            if path.end != "return" or path.ret is None:
                continue
            packs = [n for n in ast.walk(path.ret) if isinstance(n, ast.Call) and chain(n.func) == "self._ez_pack" and n.args]
            if len(packs) != 1:
                raise AnalysisError("undecided: the value create_puncture_request returns is not one self._ez_pack(prefix, ...) packet")
            n_packs += 1
            if _eff_prefix(_t(packs[0].args[0]), "prefix", truthy) != ("prefix" if truthy else "self._prefix") and bad_pack is None:
                bad_pack = next((c.src for c in path.calls if c.call is packs[0]), cpr.node)
    ctx.check(bad_pack is None and n_packs > 0, "puncture-accompanies", cpr, bad_pack or cpr.node,
              "create_puncture_request packs the request with the prefix it is given (its own one when none is given)",
              "create_puncture_request ignores its prefix argument: a puncture request sent on behalf of another community id is packed for the wrong community")
    ctx.check(bool(excl_nodes) and all(excl_nodes.values()), "puncture-accompanies", fi, fi.node, "the requester is excluded from the introduction choice",
              "the requester can be introduced to itself")

    # introduction candidates: elements of get_peers() that differ from the excluded peer
    excl = gf.params()[1]
    ok, n_choice = True, 0
    for path in _paths(gf):
        if path.end != "return" or path.ret is None or (isinstance(path.ret, ast.Constant) and path.ret.value is None):
            continue
        r = path.ret
        good = False
        if isinstance(r, ast.Call) and (chain(r.func) or "").split(".")[-1] == "choice" and len(r.args) == 1 and isinstance(r.args[0], (ast.List, ast.Tuple)):
            each = "each(self.get_peers())"
            elts = {_t(x) for x in r.args[0].elts}
            # an empty literal only arises on a path whose representative element was filtered out: nothing is chosen from it
            good = not elts or (elts == {each} and _fact(path.facts, gf, f"{each} == {excl}") is False)
            n_choice += bool(elts)
        ok = ok and good
    ctx.check(ok and n_choice > 0, "puncture-accompanies", gf, gf.node, "introduction candidates = verified peers except the excluded one", "introduction choice ignores the exclusion")

    # the introducer answers the requester and learns the requester's LAN address
    oir = repo.method("Community", "on_introduction_request", CM)
    op = oir.params()
    peer, payload = op[1], op[3]
    answered = 0
    ok_resp, ok_lan = True, True
    why_lan = ""
    lan_node = oir.node
    for path in _paths(oir):
        cr = [c for c in path.calls if c.chain == "self.create_introduction_response"]
        if not cr:
            continue
        answered += 1
        c = cr[0]
        pa = _cur(f"{peer}.address", c.ver)
        good = len(cr) == 1 and _args(c.call, p[1:4]) == [f"{payload}.destination_address", pa, f"{payload}.identifier"]
        snd = [s for s in path.calls if s.chain == "self.endpoint.send"]
        good = good and len(snd) == 1 and snd[0].arg(1, "packet") is c.call and _t(snd[0].arg(0, "socket_address")) == _cur(f"{peer}.address", snd[0].ver)
        ok_resp = ok_resp and good
        st = [s for s in path.stores if s.target == f"{peer}.address" and s.ver.get(s.target, 0) < c.ver.get(s.target, 0)]
        lan_node = next((s.src for s in path.stores if s.target == f"{peer}.address" and lan_node is oir.node), lan_node)
        is4 = _fact(c.facts, oir, f"isinstance({payload}.source_lan_address, UDPv4Address)")
        src_lan = f"{payload}.source_lan_address"
        want_store = (f"UDPv4LANAddress(*{src_lan})", f"UDPv4LANAddress({src_lan}[0], {src_lan}[1])",      # an (ip, port) pair either way
                      f"UDPv4LANAddress._make({src_lan})", f"UDPv4LANAddress(ip={src_lan}[0], port={src_lan}[1])")
        if is4 is True:
            good = len(st) == 1 and _t(st[0].value) in want_store
        elif is4 is False:
            good = not st
        else:
            good = False
        if not good and not why_lan:
            why_lan = f" (path conditions: {path.extra()})"
        ok_lan = ok_lan and good
    ctx.check(ok_resp and answered > 0, "puncture-accompanies", oir, oir.node, "introduction response answers the requester with its own identifier", "the response is not addressed to the requester / loses the identifier")
    ctx.check(ok_lan and answered > 0, "puncture-accompanies", oir, lan_node, "the requester's IPv4 LAN address is recorded with the peer before every answer",
              "the requester's LAN address is not learnt on every answered IPv4 request: the introducer later hands out a null LAN address for this peer, "
              "so a requester behind the same NAT cannot connect to it over the LAN" + why_lan)


def rule_requester_selection(ctx: Ctx) -> None:
    repo = _bind(ctx)
    fi = repo.method("Community", "on_introduction_response", CM)
    p = fi.params()
    peer, payload = p[1], p[3]
    W_, L_ = f"{payload}.wan_introduction_address", f"{payload}.lan_introduction_address"
    MY = f"UDPv4Address(self.my_estimated_lan[0], {W_}[1])"
    table = {}
    for w, l, s in itertools.product([False, True], repeat=3):
        pre = _preset(fi, {f"{W_} != {NULL_T}": w, f"{L_} != {NULL_T}": l, f"{W_}[0] == self.my_estimated_wan[0]": s})
        table[(w, l, s)] = [x for x in _paths(fi, pre) if x.end == "return"]
    # the call sites that hand introduced addresses to the peer graph
    intro_sites = set()
    for paths in table.values():
        for path in paths:
            for c in path.calls:
                if c.chain == "self.network.discover_address" and "_introduction_address" in _t(c.arg(1, "address")):
                    intro_sites.add(id(c.src))
    if not intro_sites:
        raise AnalysisError("anchor-lost: discover_address of an introduced address in on_introduction_response")

    def label(c: _Call) -> str:
        a = _t(c.arg(1, "address"))
        lab = "lan" if a == L_ else "wan" if a == W_ else "mylan:wanport" if _unver(a) == MY else "other:" + a
        if _t(c.arg(0, "peer")) != peer:
            lab += f"(introduced by {_t(c.arg(0, 'peer'))})"
        return lab

    bad = None
    for (w, l, s), paths in table.items():
        if w and not s:
            want = (["lan"] if l else []) + ["wan"]
        elif l and s:
            want = ["lan"]
        elif w:
            want = ["wan", "mylan:wanport"]
        else:
            want = []
        gots = []
        for path in paths:
            got = [label(c) for c in path.calls if id(c.src) in intro_sites]
            if got not in gots:
                gots.append(got)
            if got != want and bad is None:
                bad = (w, l, s, got, want, path.extra())
        ok = gots == [want]
        ctx.instance("requester-selection", fi.where, f"wan_known={w} lan_known={l} same_nat={s} -> {gots[0] if len(gots) == 1 else gots}", ok=ok)
    ctx.functions.add(fi.where)
    if bad:
        ctx.violation("requester-selection", fi, fi.node, f"address selection for (wan_known={bad[0]}, lan_known={bad[1]}, same_nat={bad[2]}) is {bad[3]}, must be {bad[4]} "
                      f"(different NAT: [lan?] wan; same NAT with LAN: lan; same NAT without LAN: wan + own-LAN-ip:wan-port; other path conditions: {bad[5]})")
    # own WAN estimate learnt only from non-LAN IPv4 destinations
    n, ok = 0, True
    for path in table[(True, True, True)]:
        for st in path.stores:
            if st.target == "self.my_estimated_wan":
                n += 1
                ok = ok and _t(st.value) == f"{payload}.destination_address" and \
                    _fact(st.facts, fi, f"self.address_in_lan_subnets({payload}.destination_address[0])") is False
    ctx.check(ok and n > 0, "requester-selection", fi, fi.node, "own WAN estimate is taken from responses that name a non-LAN IPv4 address",
              "the own-WAN estimate (used for the same-NAT test) is learnt from LAN addresses")
    # ... and the same-NAT test of a response reads the estimate as this response updated it (values read after a store carry
    # the store's version, so "decided on the old value" is a property of the path, not of statement positions)
    same_key = _Run(fi, {}, []).key_of(f"{W_}[0] == self.my_estimated_wan[0]")[0]
    stale = None
    for paths in table.values():
        for path in paths:
            upd = [st for st in path.stores if st.target == "self.my_estimated_wan"]
            if upd and stale is None and any(k == same_key for k in path.facts):
                stale = (upd[0].src, path.extra())
    ctx.check(stale is None, "requester-selection", fi, stale[0] if stale else fi.node,
              "the same-NAT test uses the own-WAN estimate as updated by the response being handled",
              "on_introduction_response compares the introduced WAN address with self.my_estimated_wan BEFORE it stores the public address this "
              "response reports: after the requester's public address changed, a peer behind the previous public IP is taken for a LAN neighbour "
              "(only its LAN address is stored, the punctured WAN address is dropped) and a peer behind the new one is not reached over the LAN"
              + (f" (path conditions: {stale[1]})" if stale else ""))


def rule_puncture_target(ctx: Ctx) -> None:
    repo = _bind(ctx)
    fi = repo.method("Community", "on_puncture_request", CM)
    payload = fi.params()[3]
    W_, L_ = f"{payload}.wan_walker_address", f"{payload}.lan_walker_address"
    carried = True
    first = None
    for s in (False, True):
        want = L_ if s else W_
        targets = []
        for path in _paths(fi, _preset(fi, {f"{W_}[0] == self.my_estimated_wan[0]": s})):
            snd = [c for c in path.calls if c.chain == "self.endpoint.send"]
            first = first or (snd[0] if snd else None)
            if path.end != "return" or len(snd) != 1:
                ctx.check(False, "puncture-target", fi, fi.node, "every path of on_puncture_request sends exactly one puncture",
                          f"on_puncture_request can finish without sending one puncture (path conditions: {path.extra()}): the requester's next contact "
                          "attempt is dropped by the introduced peer's NAT")
                return
            t = _t(snd[0].arg(0, "socket_address"))
            if t not in targets:
                targets.append(t)
            pk = snd[0].arg(1, "packet")
            carried = carried and isinstance(pk, ast.Call) and chain(pk.func) == "self.create_puncture" and \
                _args(pk, repo.method("Community", "create_puncture", CM).params()[1:4]) == ["self.my_estimated_lan", W_, f"{payload}.identifier"]
        ok = targets == [want]
        ctx.instance("puncture-target", fi.where, f"same_nat={s} -> puncture sent to {targets[0] if len(targets) == 1 else targets}", ok=ok)
        if not ok:
            ctx.violation("puncture-target", fi, first.src if first else fi.node, f"with same_nat={s} the puncture goes to {targets}, must go to {want}")
    ctx.check(True, "puncture-target", fi, fi.node, "every path of on_puncture_request sends exactly one puncture")
    ctx.check(carried, "puncture-target", fi, first.src if first else fi.node, "puncture carries our LAN address, the requester's WAN address and the request's identifier",
              "the puncture does not carry the identifier/addresses of the puncture request")
    for name in ("on_old_puncture_request", "on_new_puncture_request"):
        f2 = repo.method("Community", name, CM)
        ok = True
        for path in _paths(f2):
            c = [x for x in path.calls if x.chain == "self.on_puncture_request"]
            ok = ok and path.end == "return" and len(c) == 1 and _args(c[0].call, fi.params()[1:4]) == f2.params()[1:4]
        ctx.check(ok, "puncture-target", f2, f2.node, f"{name} forwards to on_puncture_request unchanged", f"{name} does not forward the request unchanged")


def _is_record_expr(cls: ClassInfo, m: FuncInfo, v, depth: int = 0) -> bool:
    """v (in method m of cls) evaluates to a WalkableAddress: a constructor call, a copy with replaced fields, a local / conditional of
    those, or a parameter of a method the reviewed tree does not have that every caller in the class binds to one"""
    from ..match import resolve
    if v is None or depth > 3:
        return False
    v = resolve(m, v)
    if isinstance(v, ast.Call) and chain(v.func) == "WalkableAddress":
        return True
    if isinstance(v, ast.Call) and isinstance(v.func, ast.Attribute) and v.func.attr == "_replace":
        return True                                      # only NamedTuple objects have _replace; it returns the same type
    if isinstance(v, ast.IfExp):
        return _is_record_expr(cls, m, v.body, depth + 1) and _is_record_expr(cls, m, v.orelse, depth + 1)
    if isinstance(v, ast.Name) and v.id in m.params() and _is_new(m):
        idx = m.params().index(v.id) - 1                 # position among the arguments of self.m(...)
        sites = [(o, n) for o in cls.methods.values() for n in walk_no_nested(o.node)
                 if isinstance(n, ast.Call) and chain(n.func) == f"self.{m.name}"]
        if idx < 0:
            return False
        if not sites:
            # no caller left in the class (the engine inlined the calls): dead unless somebody else calls it
            return _REPO is not None and not any(True for _ in _REPO.callers_of_name(m.name))
        for o, n in sites:
            a = n.args[idx] if idx < len(n.args) and not any(isinstance(x, ast.Starred) for x in n.args[: idx + 1]) else \
                next((k.value for k in n.keywords if k.arg == v.id), None)
            if not _is_record_expr(cls, o, a, depth + 1):
                return False
        return True
    return False


def _reaching_value(st: ast.stmt, name: str):
    """the value of the last `name = value` before st in st's own block when nothing in between rebinds the name, else None"""
    from ..model import parent
    par = parent(st)
    for fld in ("body", "orelse", "finalbody"):
        block = getattr(par, fld, None)
        if isinstance(block, list) and st in block:
            for prev in reversed(block[: block.index(st)]):
                if isinstance(prev, ast.Assign) and len(prev.targets) == 1 and isinstance(prev.targets[0], ast.Name) and prev.targets[0].id == name:
                    return prev.value
                if any(isinstance(n, ast.Name) and n.id == name and isinstance(n.ctx, (ast.Store, ast.Del)) for n in ast.walk(prev)):
                    return None
    return None


def _records_are_truthy(ctx: Ctx, da: FuncInfo) -> bool:
    """Every value stored in Network._all_addresses is a WalkableAddress(...) and that is a NamedTuple with fields (never falsy)."""
    wa = ctx.repo.try_cls("WalkableAddress", da.module.relpath)
    if wa is None or "NamedTuple" not in wa.base_names or not any(isinstance(x, ast.AnnAssign) for x in wa.node.body) or da.cls is None:
        return False
    for m in da.cls.methods.values():
        for st, _ in stores(m, "self._all_addresses[]"):
            if isinstance(st, ast.Delete):
                continue
            v = getattr(st, "value", None)
            if isinstance(v, ast.Name):
                v = _reaching_value(st, v.id) or v       # a local that is rebound: the definition that reaches the store
            if not (isinstance(st, ast.Assign) and _is_record_expr(da.cls, m, v)):
                return False
    return True


def rule_introduction_recorded(ctx: Ctx) -> None:
    """discover_address (re)records an introduced address whenever it is unknown or its recorded introducer is not a verified key."""
    da = _bind(ctx).method("Network", "discover_address", "ipv8/peerdiscovery/network.py")
    p = da.params()
    peer, addr, service, new_style = p[1], p[2], p[3], p[4]
    A = "self._all_addresses"
    slot = f"{A}[{addr}]"
    found, bad, bad_value = 0, None, None
    rows = []
    records_truthy = _records_are_truthy(ctx, da)
    for k, live in itertools.product([False, True], repeat=2):
        atoms = {f"{addr} in self.blacklist": False, f"{addr} in {A}": k, f"{A}[{addr}].introduced_by in self.verified_by_public_key_bin": live}
        if records_truthy:
            atoms[slot] = True                          # `self._all_addresses.get(address)` is truthy exactly when the address is known
        pre = _preset(da, atoms)
        want = (not k) or (not live)
        outcomes = set()
        for path in _paths(da, pre):
            if path.end != "return":
                continue
            st = [s for s in path.stores if s.target == slot]
            found += len(st)
            outcomes.add(bool(st))
            if bool(st) != want and bad is None:
                bad = (k, live, bool(st), path.extra(), st[0].src if st else da.node)
            for s in st:
                v = s.value
                good = isinstance(v, ast.Call) and chain(v.func) == "WalkableAddress" and \
                    _args(v, ["introduced_by", "services", "new_style"]) == [f"{peer}.public_key.key_to_bin()", service, new_style]
                if not good and bad_value is None:
                    bad_value = s.src
        rows.append((k, live, want, outcomes))
    if not found:
        raise AnalysisError("anchor-lost: _all_addresses[address] = ... in discover_address")
    for k, live, want, outcomes in rows:
        ctx.instance("introduction-recorded", da.where, f"known={k} live_introducer={live} -> recorded={sorted(outcomes)}", ok=outcomes == {want})
    ctx.functions.add(da.where)
    if bad:
        ctx.violation("introduction-recorded", da, bad[4],
                      f"discover_address {'records' if bad[2] else 'does not record'} the introduction for (known={bad[0]}, live introducer={bad[1]}; other path "
                      f"conditions: {bad[3]}); it must (re)record iff the address is unknown or its introducer is no verified key: an address known without a live "
                      "introducer (e.g. from a snapshot) keeps service=None and is never offered as walkable for the overlay")
    ctx.check(bad_value is None, "introduction-recorded", da, bad_value or da.node, "record = (introducer key, service, new_style)", "the recorded introduction loses the introducer/service/new_style")


def rule_walkable_offered(ctx: Ctx) -> None:
    """An introduced address is recorded for the overlay it was introduced in (introduction-recorded); the overlay's walker makes its
    contact attempt only to what Network.get_walkable_addresses(service) offers.  The Network is shared by all overlays of a node, so for
    a given service only the addresses of the peers verified FOR THAT SERVICE may be held back."""
    nw = "ipv8/peerdiscovery/network.py"
    gw = _bind(ctx).method("Network", "get_walkable_addresses", nw)
    service = gw.params()[1]
    want = f"self.get_peers_for_service({service})"
    sources: dict[str, ast.AST] = {}
    n_paths = 0
    for path in _paths(gw, _preset(gw, {service: True})):
        if path.end != "return":
            continue
        n_paths += 1
        roots = [(c.call, c.src, c.facts) for c in path.calls] + [(st.value, st.src, st.facts) for st in path.stores if st.value is not None]
        if path.ret is not None:
            roots.append((path.ret, gw.node, path.facts))
        for root, src, facts in roots:
            for n in ast.walk(root):
                # `<element of X>.addresses`: X is a collection of peers whose addresses this query reads (to hold them back)
                if isinstance(n, ast.Attribute) and n.attr == "addresses" and isinstance(n.value, ast.Name) and n.value.id.startswith("each("):
                    x = _unver(n.value.id[5:-1])
                    sources.setdefault(x, src or gw.node)
                    if x == "self.verified_peers" and any(re.search(rf"\b{re.escape(service)}\b", k) and _unver(k) != "t:" + service for k in facts):
                        # all verified peers, but under a condition on the service: a per-service filter spelled out in place
                        raise AnalysisError(f"undecided: get_walkable_addresses reads the addresses of self.verified_peers under a condition on {service}")
    if not n_paths or not sources:
        raise AnalysisError("anchor-lost: the peers whose addresses Network.get_walkable_addresses(service) holds back")
    other = [x for x in sources if x not in (want, "self.verified_peers")]
    if other:
        raise AnalysisError(f"undecided: get_walkable_addresses reads the addresses of the peers in `{other[0][:80]}`")
    ctx.check("self.verified_peers" not in sources, "walkable-offered", gw, sources.get("self.verified_peers", gw.node),
              "for a service, only the addresses of the peers verified for that service are held back from the walker",
              f"Network.get_walkable_addresses({service}) holds back the addresses of ALL verified peers (self.verified_peers) instead of "
              f"{want}: the Network is shared by every overlay of the node, so the working address of an introduced peer that is already "
              "verified through another overlay is never offered to this overlay's walker - the requester makes no contact attempt and the two "
              "never become verified peers of each other in this overlay")


_VERSIONED = re.compile(r"^(.*)@(\d+)$")


def _stored_value(path: _Path, v: ast.expr | None, depth: int = 0):
    """a read `T@k` of an attribute / slot this path stored to itself denotes the value of that store"""
    while v is not None and depth < 6:
        m = _VERSIONED.match(_t(v)) if isinstance(v, ast.Name) else None
        if m is None:
            break
        st = [s for s in path.stores if s.target == m.group(1) and s.ver.get(s.target, 0) + 1 == int(m.group(2))]
        if len(st) != 1 or st[0].value is None:
            break
        v, depth = st[0].value, depth + 1
    return v


_COPIES = re.compile(r"^(?:set|list|tuple|frozenset|sorted)\((.*)\)$")


def _uses_key(key: str, addr: str, who: str) -> bool:
    """the fact `key`, when true, says that `addr` is one of the addresses of `who`: `addr in who.addresses.values()` (also through a
    set / list / tuple copy of the values) or `<some element of who.addresses.values()> == addr` (any(...) over the values)"""
    vals = f"{who}.addresses.values()"
    if key in (f"eq:{addr}:each({vals})", f"eq:each({vals}):{addr}"):
        return True
    if not key.startswith(f"in:{addr}:"):
        return False
    c = key[len(f"in:{addr}:"):]
    for _ in range(3):
        m = _COPIES.match(c)
        if m is None:
            break
        c = m.group(1)
    return c == vals


def rule_requester_lookup(ctx: Ctx) -> None:
    """create_introduction_response finds the requester with Network.get_verified_by_address(<requester's address>) and excludes THAT
    peer from the introduction choice (puncture-accompanies checks the call).  The exclusion removes the requester only if the lookup
    answers with a peer that uses the address: post-condition of every path, whatever caches the lookup consults."""
    gv = _bind(ctx).method("Network", "get_verified_by_address", "ipv8/peerdiscovery/network.py")
    addr = gv.params()[1]
    n_peer, bad = 0, None
    for path in _paths(gv):
        if path.end != "return":
            continue
        r = _stored_value(path, path.ret)
        if r is None or (isinstance(r, ast.Constant) and r.value is None):
            continue
        who = _t(r)
        if any(_unver(k) == f"is:{who}:None" and v for k, v in path.facts.items()):
            continue                                     # the answer is known to be None on this path
        if isinstance(r, (ast.BoolOp, ast.IfExp, ast.Call)) and not who.startswith("self.reverse_ip_lookup."):
            raise AnalysisError(f"undecided: the peer Network.get_verified_by_address answers with (`{who[:80]}`)")
        n_peer += 1
        uses = any(v and _uses_key(_unver(k), addr, who) for k, v in path.facts.items())
        if not uses and bad is None:
            bad = (who, path.extra())
    ctx.floor("requester-lookup.answers", n_peer, 1)
    ctx.check(bad is None, "requester-lookup", gv, gv.node,
              "every peer Network.get_verified_by_address(address) answers with is known to use that address on the path that returns it",
              f"Network.get_verified_by_address({addr}) can answer with `{bad[0][:80] if bad else ''}` without `{addr} in <that peer>.addresses.values()` holding on the "
              "path: Community.create_introduction_response excludes the peer this lookup names for the requester's address from the introduction "
              "choice, so after that peer moved to another address (NAT mapping changed) and another requester shows up on the old one, the wrong peer "
              "is excluded and the requester is introduced to ITSELF - the response carries its own address, the puncture request goes to the "
              "requester and no third peer is asked to puncture"
              + (f" (path conditions: {bad[1]})" if bad else ""))


def _wrapped_callee(repo, g: FuncInfo) -> str | None:
    """name under which a wrapper function calls the function it wraps: a parameter of an enclosing function that it calls"""
    from ..model import ancestors
    outer_params = set()
    for a in ancestors(g.node):
        if isinstance(a, (ast.FunctionDef, ast.AsyncFunctionDef)):
            outer_params.update(x.arg for x in a.args.posonlyargs + a.args.args + a.args.kwonlyargs)
    own = set(g.params())
    for n in walk_no_nested(g.node):
        if isinstance(n, ast.Call) and isinstance(n.func, ast.Name) and n.func.id in outer_params and n.func.id not in own:
            return n.func.id
    return None


_WRAPPED = "<wrapped>"


def _wrapper_driver(fac: FuncInfo):
    """evaluate `fac(...)`, hand the result a symbolic handler, and call what comes back as the endpoint would:
    factory(*payloads) -> decorator(handler) -> wrapper(overlay, source address, data), whatever kind of callable each level is"""
    def drive(run: _Run):
        v = run.body_value(fac.node)
        for _ in range(4):
            names = run.signature(v)
            if not names:
                break
            if len(names) >= 2:
                run.meta["src"] = names[1]
                return run.apply(v, [ast.Name(id=n, ctx=ast.Load()) for n in names], [], None)
            v = run.apply(v, [ast.Name(id=_WRAPPED, ctx=ast.Load())], [], None)
        raise AnalysisError(f"anchor-lost: the callable that {fac.qualname} puts in place of the decorated handler")
    return drive


def rule_address_refreshed(ctx: Ctx) -> None:
    """The address the introducer hands out (and sends the puncture request to) is `introduction.address`; its only writer besides the
    LAN update of on_introduction_request is the signed-message wrapper, which must record the packet's source address with a known
    peer on EVERY signed packet before the handler runs."""
    from ..model import ancestors
    repo = _bind(ctx)
    com = repo.cls("Community", CM)
    factories: dict[str, FuncInfo] = {}
    for m in com.methods.values():
        if m.name in ("on_introduction_request", "on_introduction_response"):
            continue
        calls_handler = any(isinstance(n, ast.Call) and chain(n.func) in ("self.on_introduction_request", "self.on_introduction_response")
                            for n in walk_no_nested(m.node))
        if not calls_handler:
            continue
        for d in m.decorators:
            name = chain(d.func) if isinstance(d, ast.Call) else chain(d)
            r = repo.resolve_name(m.module, name) if name and "." not in name else None
            if isinstance(r, FuncInfo):
                factories[r.where] = r
    ctx.floor("address-refreshed.wrappers", len(factories), 1)
    n_known = 0
    for fac in factories.values():
        # the decorator factory itself, or the NEW module-level factories it delegates to (merged wrapper builders)
        homes, todo = [fac], [fac]
        while todo:
            h = todo.pop()
            for n in ast.walk(h.node):
                if isinstance(n, ast.Call) and isinstance(n.func, ast.Name):
                    r = repo.resolve_name(h.module, n.func.id)
                    if isinstance(r, FuncInfo) and _is_new(r) and r not in homes:
                        homes.append(r)
                        todo.append(r)
        wrappers = [g for h in homes for g in h.module.all_functions if h.node in list(ancestors(g.node)) and _wrapped_callee(repo, g)]
        if wrappers:
            todo = []
            for g in wrappers:
                if len(g.params()) < 2:
                    raise AnalysisError(f"undecided: {g.qualname} does not take (overlay, source address, data)")
                todo.append((g, _paths(g), _wrapped_callee(repo, g), g.params()[1]))
        else:
            # no nested function calls the decorated handler directly (it is held by a callable object, a partial, ...): evaluate
            # factory(...)(handler)(overlay, source address, data) with a symbolic handler and look at what that does
            todo = [(fac, _paths(fac, driver=_wrapper_driver(fac)), _WRAPPED, None)]
        for g, paths, callee, src_param in todo:
            bad = None
            for path in paths:
                src_addr = src_param or path.meta.get("src")
                for i, c in enumerate(path.calls):
                    if c.chain != callee:
                        continue
                    who = c.arg(1)
                    if who is None or isinstance(who, (ast.BoolOp, ast.IfExp)):
                        raise AnalysisError(f"undecided: the peer handed to the wrapped handler in {g.qualname}")
                    if isinstance(who, ast.Call) and (chain(who.func) or "").split(".")[-1] == "Peer":
                        continue                                 # unknown sender: a fresh Peer built from the source address
                    if _t(who) == src_addr:
                        continue                                 # unsigned flavour of a merged wrapper: the handler gets the address
                    n_known += 1
                    wt = _t(_Run.base(who))
                    ok = any(isinstance(x.call.func, ast.Attribute) and x.call.func.attr == "add_address"
                             and _t(_Run.base(x.call.func.value)) == wt and _t(x.arg(0, "value")) == src_addr for x in path.calls[:i])
                    if not ok and bad is None:
                        bad = (c.src or g.node, path.extra())
            ctx.check(bad is None, "address-refreshed", g, bad[0] if bad else g.node,
                      "a known peer's address is refreshed from the source address of every signed packet before the handler runs",
                      f"{g.qualname} can hand a known peer to the introduction handlers without peer.add_address(<source address>): a verified peer "
                      "whose packets arrive from a new address (NAT mapping changed) keeps its old address, so the introducer hands out that stale WAN "
                      "address and sends the puncture request (and its responses) there - the requester's contact attempt reaches nobody"
                      + (f" (path conditions: {bad[1]})" if bad else ""))
    ctx.floor("address-refreshed.known-peer-paths", n_known, 1)


def run(ctx: Ctx) -> None:
    rule_introduction_recorded(ctx)
    rule_address_refreshed(ctx)
    rule_puncture_accompanies(ctx)
    rule_requester_selection(ctx)
    rule_puncture_target(ctx)
    rule_walkable_offered(ctx)
    rule_requester_lookup(ctx)
    ctx.assume("reachability for each NAT type combination depends on NAT mapping/filtering behaviour that only a network model can provide: not decided")
    ctx.assume("address_in_lan_subnets / address_is_lan classify private addresses correctly (not analysed)")


WITNESSES = [
    {"name": "puncture only for LAN introductions", "file": CM, "rule": "puncture-accompanies",
     "old": "        if introduced and introduction is not None:\n            packet = self.create_puncture_request",
     "new": "        if introduced and introduction is not None and introduction_lan != (\"0.0.0.0\", 0):\n            packet = self.create_puncture_request"},
    {"name": "puncture request names the introducer", "file": CM, "rule": "puncture-accompanies",
     "old": "            packet = self.create_puncture_request(lan_socket_address, socket_address, identifier, prefix=prefix,",
     "new": "            packet = self.create_puncture_request(self.my_estimated_lan, self.my_estimated_wan, identifier, prefix=prefix,"},
    {"name": "puncture request sent to the requester", "file": CM, "rule": "puncture-accompanies",
     "old": "            self.endpoint.send(introduction.address, packet)\n\n        return self._ez_pack(prefix or self._prefix, payload.msg_id, [auth, dist, payload])",
     "new": "            self.endpoint.send(socket_address, packet)\n\n        return self._ez_pack(prefix or self._prefix, payload.msg_id, [auth, dist, payload])"},
    {"name": "flag not set for WAN introductions", "file": CM, "rule": "puncture-accompanies",
     "old": "                introduction_wan = introduction.address\n            introduced = True", "new": "                introduction_wan = introduction.address\n                introduced = False\n            introduced = introduced or introduction_lan != (\"0.0.0.0\", 0)"},
    {"name": "requester may be introduced to itself", "file": CM, "rule": "puncture-accompanies",
     "old": "            introduction = self.get_peer_for_introduction(exclude=other, new_style=new_style)", "new": "            introduction = self.get_peer_for_introduction(new_style=new_style)"},
    {"name": "LAN address recorded on first contact only", "file": CM, "rule": "puncture-accompanies",
     "old": "        if isinstance(payload.source_lan_address, UDPv4Address):\n            peer.address = UDPv4LANAddress(",
     "new": "        if isinstance(payload.source_lan_address, UDPv4Address) and peer not in self.network.verified_peers:\n            peer.address = UDPv4LANAddress("},
    {"name": "introduction only re-recorded for named introducers", "file": "ipv8/peerdiscovery/network.py", "rule": "introduction-recorded",
     "old": "                    or (self._all_addresses[address].introduced_by not in self.verified_by_public_key_bin)):",
     "new": "                    or (self._all_addresses[address].introduced_by\n                        and self._all_addresses[address].introduced_by not in self.verified_by_public_key_bin)):"},
    {"name": "puncture skipped for addresses we walk to ourselves", "file": CM, "rule": "puncture-target",
     "old": "        packet = self.create_puncture(self.my_estimated_lan, payload.wan_walker_address, payload.identifier,",
     "new": "        if target in self.get_walkable_addresses():\n            return\n        packet = self.create_puncture(self.my_estimated_lan, payload.wan_walker_address, payload.identifier,"},
    {"name": "same-NAT without LAN walks WAN only", "file": CM, "rule": "requester-selection",
     "old": "            introductions.append(payload.wan_introduction_address)\n            introductions.append(UDPv4Address(self.my_estimated_lan[0], payload.wan_introduction_address[1]))",
     "new": "            introductions.append(payload.wan_introduction_address)"},
    {"name": "different NAT prefers LAN only", "file": CM, "rule": "requester-selection",
     "old": "            if payload.lan_introduction_address != (\"0.0.0.0\", 0):\n                introductions.append(payload.lan_introduction_address)\n            introductions.append(payload.wan_introduction_address)\n        elif",
     "new": "            if payload.lan_introduction_address != (\"0.0.0.0\", 0):\n                introductions.append(payload.lan_introduction_address)\n            else:\n                introductions.append(payload.wan_introduction_address)\n        elif"},
    {"name": "same-NAT test inverted", "file": CM, "rule": "requester-selection",
     "old": "              and payload.wan_introduction_address[0] == self.my_estimated_wan[0]):\n            introductions.append(payload.lan_introduction_address)",
     "new": "              and payload.wan_introduction_address[0] != self.my_estimated_wan[0]):\n            introductions.append(payload.lan_introduction_address)"},
    {"name": "own WAN estimate updated after the same-NAT test", "rule": "requester-selection", "edits": [
        {"file": CM,
         "old": "            self.my_estimated_wan = payload.destination_address\n        self.my_peer.address = payload.destination_address\n\n        if peer.new_style_intro:",
         "new": "            pass\n        self.my_peer.address = payload.destination_address\n\n        if peer.new_style_intro:"},
        {"file": CM,
         "old": "        self.introduction_response_callback(peer, dist, payload)\n",
         "new": "        if (isinstance(payload.destination_address, UDPv4Address)\n"
                "                and not self.address_in_lan_subnets(payload.destination_address[0])):\n"
                "            self.my_estimated_wan = payload.destination_address\n"
                "        self.introduction_response_callback(peer, dist, payload)\n"}]},
    {"name": "known peer's address refreshed for new interfaces only", "file": "ipv8/lazy_community.py", "rule": "address-refreshed",
     "old": "            if peer:\n                peer.add_address(source_address)\n            return func(self, peer or Peer(auth.public_key_bin, source_address), *unpacked)",
     "new": "            if peer and source_address.__class__ not in peer.addresses:\n                peer.add_address(source_address)\n"
            "            return func(self, peer or Peer(auth.public_key_bin, source_address), *unpacked)"},
    {"name": "known peer's address never refreshed", "file": "ipv8/lazy_community.py", "rule": "address-refreshed",
     "old": "            if peer:\n                peer.add_address(source_address)\n            return func(self, peer or Peer(auth.public_key_bin, source_address), *unpacked)",
     "new": "            return func(self, peer or Peer(auth.public_key_bin, source_address), *unpacked)"},
    {"name": "puncture request packed for the introducer's own community", "file": CM, "rule": "puncture-accompanies",
     "old": "            packet = self.create_puncture_request(lan_socket_address, socket_address, identifier, prefix=prefix,\n                                                  new_style=new_style)",
     "new": "            packet = self.create_puncture_request(lan_socket_address, socket_address, identifier, new_style=new_style)"},
    {"name": "puncture request ignores its prefix", "file": CM, "rule": "puncture-accompanies",
     "old": "        return self._ez_pack(prefix or self._prefix, payload.msg_id, [dist, payload], False)",
     "new": "        return self._ez_pack(self._prefix, payload.msg_id, [dist, payload], False)"},
    {"name": "walkable addresses exclude every verified peer", "file": "ipv8/peerdiscovery/network.py", "rule": "walkable-offered",
     "old": "            known = self.get_peers_for_service(service_id) if service_id else self.verified_peers",
     "new": "            known = self.verified_peers"},
    {"name": "cached address entry trusted while its peer is verified", "file": "ipv8/peerdiscovery/network.py", "rule": "requester-lookup",
     "old": "            if peer is not None and (peer not in self.verified_peers or address not in peer.addresses.values()):",
     "new": "            if peer is not None and peer not in self.verified_peers:"},
    {"name": "requester looked up by IP only", "file": "ipv8/peerdiscovery/network.py", "rule": "requester-lookup",
     "old": "                for p in self.verified_peers:\n                    if address in p.addresses.values():\n                        peer = p\n                        self.reverse_ip_lookup[address] = peer",
     "new": "                for p in self.verified_peers:\n                    if address[0] in [a[0] for a in p.addresses.values()]:\n                        peer = p\n                        self.reverse_ip_lookup[address] = peer"},
    {"name": "puncture always to WAN", "file": CM, "rule": "puncture-target",
     "old": "        if payload.wan_walker_address[0] == self.my_estimated_wan[0]:\n            target = payload.lan_walker_address\n", "new": ""},
    {"name": "puncture loses identifier", "file": CM, "rule": "puncture-target",
     "old": "        packet = self.create_puncture(self.my_estimated_lan, payload.wan_walker_address, payload.identifier,",
     "new": "        packet = self.create_puncture(self.my_estimated_lan, payload.wan_walker_address, self.claim_global_time() % 65536,"},
]
