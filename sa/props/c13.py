"""C13 - Introduced peers behind cone NATs become mutually reachable (the clauses visible in code shape)."""
from __future__ import annotations

import ast
import itertools

from ..boolfn import Opaque, TableEvaluator
from ..core import Ctx
from ..match import arg, call_name, calls, facts_at, local_defs, mentions, resolve, single_def, stores
from ..model import AnalysisError, FuncInfo, ancestors, chain, const_value, enclosing_stmt, norm, parent, strip_cast, walk_no_nested

LEVEL = "other"
EXPLANATION = (
    "Only the two clauses whose truth is in the shape of the code: (1) whenever an introduction response carries a "
    "non-null introduction, every path also sends a puncture request - built from the requester's LAN/WAN addresses and "
    "the request identifier - to the introduced peer, and the requester itself is never introduced; (2) the LAN/WAN "
    "selection at the requester and the puncture target at the introduced peer are evaluated as decision tables over "
    "their atoms (wan known, lan known, same public IP) and must equal the stated tables. Reachability for the 4x4 NAT "
    "matrix needs a filtering/translating network model and is not decided."
)

CM = "ipv8/community.py"
NULL = ("0.0.0.0", 0)


def rule_puncture_accompanies(ctx: Ctx) -> None:
    repo = ctx.repo
    fi = repo.method("Community", "create_introduction_response", CM)
    cfg = ctx.cfg(fi)
    p = fi.params()
    lan_sock, sock, ident = p[1], p[2], p[3]
    # where the payload's introduction fields become non-null
    nonnull = [d[0] for name in ("introduction_lan", "introduction_wan") for d in local_defs(fi, name)
               if d[1] is not None and const_value(d[1]) != NULL]
    ctx.floor("puncture-accompanies.sites", len(nonnull), 2)
    sends = []
    for c in calls(fi, "self.endpoint.send"):
        pk = resolve(fi, arg(c, 1))
        if isinstance(pk, ast.Call) and chain(pk.func) == "self.create_puncture_request":
            sends.append((c, pk))
    ctx.check(len(sends) == 1, "puncture-accompanies", fi, fi.node, "create_introduction_response sends one puncture request", "no puncture request is sent with an introduction")
    if len(sends) != 1:
        return
    c, pk = sends[0]
    sn = cfg.nodes_for(c)
    # flag discipline: the non-null assignments sit in the `if introduction:` block that also sets `introduced = True`;
    # neither variable is rebound afterwards, so the false edges of `introduced` / `introduction is not None` are infeasible
    blocks = [a for st in nonnull for a in ancestors(st) if isinstance(a, ast.If) and norm(a.test) == "introduction"]
    flag = [s2 for s2 in walk_no_nested(fi.node) if isinstance(s2, ast.Assign) and norm(s2.targets[0]) == "introduced" and const_value(s2.value) is True]
    same_block = bool(blocks) and len({id(b) for b in blocks}) == 1 and len(flag) == 1 and any(a is blocks[0] for a in ancestors(flag[0]))
    last = max((getattr(b, "end_lineno", 0) for b in blocks), default=0)
    rebound = [d for name in ("introduced", "introduction") for d in local_defs(fi, name) if d[0].lineno > last]
    ctx.check(same_block and not rebound, "puncture-accompanies", fi, fi.node, "non-null introduction fields and `introduced = True` are set together and not rebound",
              "the `introduced` flag does not track whether the payload carries an introduction")
    infeasible = lambda u, v, lab: u.kind == "cond" and lab is False and norm(u.ast) in ("introduced", "introduction is not None")  # noqa: E731
    for st in nonnull:
        firsts = [v for n in cfg.nodes_for(st) for v, lab in n.succ if lab != "exc"]
        r = cfg.reach(firsts, cut_nodes=sn, cut_edge=infeasible, follow_exc=False)
        ok = cfg.exit not in r
        ctx.check(ok, "puncture-accompanies", fi, st, f"after `{norm(st)[:50]}` every normal path sends the puncture request",
                  "an introduction can be handed out without asking the introduced peer to puncture towards the requester")
    ok = norm(arg(c, 0)) == "introduction.address" and [norm(a) for a in pk.args[:3]] == [lan_sock, sock, ident]
    ctx.check(ok, "puncture-accompanies", fi, c, "puncture request (requester LAN, requester WAN, request identifier) goes to the introduced peer",
              "the puncture request is sent to the wrong peer or carries other addresses/identifier than the requester's")
    # the payload carries exactly those locals
    for pl in [x for x in calls(fi) if chain(x.func) in ("IntroductionResponsePayload", "NewIntroductionResponsePayload")]:
        ok = norm(arg(pl, 3)) == "introduction_lan" and norm(arg(pl, 4)) == "introduction_wan" and norm(arg(pl, 0)) == sock
        ctx.check(ok, "puncture-accompanies", fi, pl, "response carries (introduction_lan, introduction_wan) and the requester's address as destination",
                  "the response's introduction fields are not the ones the puncture was requested for")
    # requester is never introduced to itself
    gp = [x for x in calls(fi, "self.get_peer_for_introduction")]
    ok = len(gp) == 1 and norm(resolve(fi, arg(gp[0], None, "exclude"))) == f"self.network.get_verified_by_address({sock})"
    ctx.check(ok, "puncture-accompanies", fi, fi.node, "the requester is excluded from the introduction choice", "the requester can be introduced to itself")
    gf = repo.method("Community", "get_peer_for_introduction", CM)
    comp = [n for n in ast.walk(gf.node) if isinstance(n, ast.ListComp)]
    ok = bool(comp) and any("p != exclude" in norm(i) for g in comp[0].generators for i in g.ifs) and norm(comp[0].generators[0].iter) == "self.get_peers()"
    ctx.check(ok, "puncture-accompanies", gf, gf.node, "introduction candidates = verified peers except the excluded one", "introduction choice ignores the exclusion")
    # WAN/LAN of the introduction
    lanb = [s for s in walk_no_nested(fi.node) if isinstance(s, ast.Assign) and norm(s.targets[0]) == "introduction_wan"]
    texts = sorted(norm(s.value) for s in lanb)
    ok = texts == sorted(["('0.0.0.0', 0)", "(self.my_estimated_wan[0], introduction_lan[1])", "introduction.address"])
    ctx.check(ok, "puncture-accompanies", fi, fi.node, "introduced WAN = peer address, or (our WAN ip, its LAN port) for a peer on our LAN", f"introduction WAN address derivation changed: {texts}")
    oir = repo.method("Community", "on_introduction_request", CM)
    cr = [x for x in calls(oir, "self.create_introduction_response")]
    ok = len(cr) == 1 and [norm(a) for a in cr[0].args[:3]] == ["payload.destination_address", "peer.address", "payload.identifier"]
    snd = [x for x in calls(oir, "self.endpoint.send")]
    ok = ok and len(snd) == 1 and norm(arg(snd[0], 0)) == "peer.address"
    ctx.check(ok, "puncture-accompanies", oir, oir.node, "introduction response answers the requester with its own identifier", "the response is not addressed to the requester / loses the identifier")
    st = [s for s in walk_no_nested(oir.node) if isinstance(s, ast.Assign) and norm(s.targets[0]) == "peer.address"]
    cfgo = ctx.cfg(oir)
    ok = len(st) == 1 and norm(st[0].value) == "UDPv4LANAddress(*payload.source_lan_address)" and \
        any(f.op == "truthy" and f.pos and norm(f.left) == "isinstance(payload.source_lan_address, UDPv4Address)" for f in facts_at(cfgo, st[0]))
    ctx.check(ok, "puncture-accompanies", oir, oir.node, "the requester's IPv4 LAN address is recorded with the peer", "the requester's LAN address is not learnt (same-NAT peers cannot connect over LAN)")


def rule_requester_selection(ctx: Ctx) -> None:
    repo = ctx.repo
    fi = repo.method("Community", "on_introduction_response", CM)
    W_, L_ = "payload.wan_introduction_address", "payload.lan_introduction_address"
    target_if = [s for s in walk_no_nested(fi.node) if isinstance(s, ast.If) and W_ in norm(s.test) and "introductions" in norm(s)]
    target_if = [s for s in target_if if not any(isinstance(a, ast.If) and a in target_if for a in ancestors(s))]
    ctx.anchor(target_if, "LAN/WAN selection if-chain in on_introduction_response")
    node = target_if[0]

    def atom_of(e):
        t = norm(e)
        if t == f"{W_} != ('0.0.0.0', 0)":
            return "W"
        if t == f"{L_} != ('0.0.0.0', 0)":
            return "L"
        if t == f"{W_}[0] == self.my_estimated_wan[0]":
            return "S"
        if t == f"{W_}[0] != self.my_estimated_wan[0]":
            return "!S"
        if isinstance(e, ast.Compare) and ("introduction_address" in t):
            return "?" + t
        return None

    effects: list[str] = []

    def on_effect(s, env, ev):
        if isinstance(s, ast.Expr) and isinstance(s.value, ast.Call) and chain(s.value.func) == "introductions.append":
            a = norm(s.value.args[0])
            if a == L_:
                effects.append("lan")
            elif a == W_:
                effects.append("wan")
            elif a == f"UDPv4Address(self.my_estimated_lan[0], {W_}[1])":
                effects.append("mylan:wanport")
            else:
                effects.append("other:" + a)
            return
        raise AnalysisError(f"requester selection: unsupported statement `{norm(s)[:60]}`")

    ev = TableEvaluator(fi, atom_of, on_effect=on_effect)
    unknown = [n for n in ast.walk(node) if isinstance(n, ast.expr) and (atom_of(n) or "").startswith("?")]
    if unknown:
        ctx.check(False, "requester-selection", fi, unknown[0], "selection depends only on (wan known, lan known, same public IP)",
                  f"the LAN/WAN selection tests something else: `{norm(unknown[0])}`")
        return
    bad = None
    for w, l, s in itertools.product([False, True], repeat=3):
        effects.clear()
        env = {"__atoms__": {"W": w, "L": l, "S": s, "!S": not s}}
        ev._stmt(node, env)
        got = list(effects)
        if w and not s:
            want = (["lan"] if l else []) + ["wan"]
        elif l and s:
            want = ["lan"]
        elif w:
            want = ["wan", "mylan:wanport"]
        else:
            want = []
        ok = got == want
        ctx.instance("requester-selection", fi.where, f"wan_known={w} lan_known={l} same_nat={s} -> {got}", ok=ok)
        if not ok and bad is None:
            bad = (w, l, s, got, want)
    if bad:
        ctx.violation("requester-selection", fi, node, f"address selection for (wan_known={bad[0]}, lan_known={bad[1]}, same_nat={bad[2]}) is {bad[3]}, must be {bad[4]} "
                      "(different NAT: [lan?] wan; same NAT with LAN: lan; same NAT without LAN: wan + own-LAN-ip:wan-port)")
    # all selected addresses are handed to discover_address
    loops = [l for l in walk_no_nested(fi.node) if isinstance(l, ast.For) and norm(l.iter) == "introductions"]
    ok = len(loops) == 1 and any(chain(c.func) == "self.network.discover_address" and norm(arg(c, 1)) == norm(loops[0].target) and norm(arg(c, 0)) == "peer"
                                 for c in ast.walk(loops[0]) if isinstance(c, ast.Call)) and not any(isinstance(x, (ast.Break, ast.Return)) for x in ast.walk(loops[0]))
    ctx.check(ok, "requester-selection", fi, fi.node, "every selected address becomes walkable (discover_address), introduced by the responder",
              "selected introduction addresses are not all handed to the peer graph")
    d = [s for s in walk_no_nested(fi.node) if isinstance(s, ast.Assign) and norm(s.targets[0]) == "introductions"]
    ctx.check(len(d) == 1 and norm(d[0].value) == "[]", "requester-selection", fi, fi.node, "selection starts empty", "introductions list is pre-populated")
    # own WAN estimate learnt only from non-LAN IPv4 destinations
    st = [s for s in walk_no_nested(fi.node) if isinstance(s, ast.Assign) and norm(s.targets[0]) == "self.my_estimated_wan"]
    cfg = ctx.cfg(fi)
    ok = len(st) == 1 and norm(st[0].value) == "payload.destination_address" and \
        any(f.op == "truthy" and not f.pos and "address_in_lan_subnets(payload.destination_address[0])" in norm(f.left) for f in facts_at(cfg, st[0]))
    ctx.check(ok, "requester-selection", fi, fi.node, "own WAN estimate is taken from responses that name a non-LAN IPv4 address",
              "the own-WAN estimate (used for the same-NAT test) is learnt from LAN addresses")


def rule_puncture_target(ctx: Ctx) -> None:
    repo = ctx.repo
    fi = repo.method("Community", "on_puncture_request", CM)
    payload = fi.params()[3]
    W_, L_ = f"{payload}.wan_walker_address", f"{payload}.lan_walker_address"
    snd = [c for c in calls(fi, "self.endpoint.send")]
    ctx.check(len(snd) == 1, "puncture-target", fi, fi.node, "on_puncture_request sends exactly one puncture", "on_puncture_request does not send one puncture")
    if len(snd) != 1:
        return
    tvar = arg(snd[0], 0)
    cfgp = ctx.cfg(fi)
    sn_ = cfgp.nodes_for(snd[0])
    ok = cfgp.exit not in cfgp.reach(cut_nodes=sn_, follow_exc=False)
    ctx.check(ok, "puncture-target", fi, snd[0], "every normal path of on_puncture_request sends the puncture",
              "on_puncture_request can return without sending the puncture: the requester's next contact attempt is dropped by the introduced peer's NAT")
    if not ok:
        return
    # evaluate the function as a table over S = same public IP
    def atom_of(e):
        t = norm(e)
        if t == f"{W_}[0] == self.my_estimated_wan[0]":
            return "S"
        if t == f"{W_}[0] != self.my_estimated_wan[0]":
            return "!S"
        return None
    result = {}

    def on_effect(s, env, ev):
        if isinstance(s, ast.Assign) and norm(s.targets[0]) == "packet":
            env["packet"] = Opaque(norm(s.value))
            return
        if isinstance(s, ast.Expr) and s.value is snd[0]:
            v = env.get(tvar.id) if isinstance(tvar, ast.Name) else Opaque(norm(tvar))
            result["target"] = v.text if isinstance(v, Opaque) else v
            return
        raise AnalysisError(f"puncture target: unsupported statement `{norm(s)[:60]}`")
    ev = TableEvaluator(fi, atom_of, on_effect=on_effect)
    for s in (False, True):
        result.clear()
        ev.run({"S": s, "!S": not s})
        want = L_ if s else W_
        ok = result.get("target") == want
        ctx.instance("puncture-target", fi.where, f"same_nat={s} -> puncture sent to {result.get('target')}", ok=ok)
        if not ok:
            ctx.violation("puncture-target", fi, snd[0], f"with same_nat={s} the puncture goes to {result.get('target')}, must go to {want}")
    pk = resolve(fi, arg(snd[0], 1))
    ok = isinstance(pk, ast.Call) and chain(pk.func) == "self.create_puncture" and [norm(a) for a in pk.args[:3]] == ["self.my_estimated_lan", W_, f"{payload}.identifier"]
    ctx.check(ok, "puncture-target", fi, snd[0], "puncture carries our LAN address, the requester's WAN address and the request's identifier",
              "the puncture does not carry the identifier/addresses of the puncture request")
    for name, new in (("on_old_puncture_request", False), ("on_new_puncture_request", True)):
        f2 = repo.method("Community", name, CM)
        c = [x for x in calls(f2, "self.on_puncture_request")]
        ok = len(c) == 1 and [norm(a) for a in c[0].args[:3]] == f2.params()[1:4]
        ctx.check(ok, "puncture-target", f2, f2.node, f"{name} forwards to on_puncture_request unchanged", f"{name} does not forward the request unchanged")


def rule_introduction_recorded(ctx: Ctx) -> None:
    """discover_address (re)records an introduced address whenever it is unknown or its recorded introducer is not a verified key."""
    da = ctx.repo.method("Network", "discover_address", "ipv8/peerdiscovery/network.py")
    addr = da.params()[2]
    sts = [s for s, t in stores(da, "self._all_addresses[]")]
    ctx.anchor(sts, "_all_addresses[address] = ... in discover_address")
    st = sts[0]
    iff = next((a for a in ancestors(st) if isinstance(a, ast.If)), None)
    atoms = set()
    if iff is not None and isinstance(iff.test, ast.BoolOp) and isinstance(iff.test.op, ast.Or):
        atoms = {norm(v) for v in iff.test.values}
    want = {f"{addr} not in self._all_addresses", f"self._all_addresses[{addr}].introduced_by not in self.verified_by_public_key_bin"}
    ctx.check(atoms == want, "introduction-recorded", da, iff or st, "an introduced address is (re)recorded iff it is unknown or its introducer is no verified key",
              f"discover_address records the introduction under the condition {sorted(atoms)} instead of {sorted(want)}: an address known without a live introducer "
              "(e.g. from a snapshot) keeps service=None and is never offered as walkable for the overlay")
    v = st.value
    ok = isinstance(v, ast.Call) and chain(v.func) == "WalkableAddress" and [norm(a) for a in v.args] == [f"{da.params()[1]}.public_key.key_to_bin()", da.params()[3], da.params()[4]]
    ctx.check(ok, "introduction-recorded", da, st, "record = (introducer key, service, new_style)", "the recorded introduction loses the introducer/service/new_style")


def run(ctx: Ctx) -> None:
    rule_introduction_recorded(ctx)
    rule_puncture_accompanies(ctx)
    rule_requester_selection(ctx)
    rule_puncture_target(ctx)
    ctx.assume("reachability for each NAT type combination depends on NAT mapping/filtering behaviour that only a network model can provide: not decided")
    ctx.assume("address_in_lan_subnets / address_is_lan classify private addresses correctly (not analysed)")


WITNESSES = [
    {"name": "puncture only for LAN introductions", "file": CM, "rule": "puncture-accompanies",
     "old": "        if introduced and introduction is not None:\n            packet = self.create_puncture_request",
     "new": "        if introduced and introduction is not None and introduction_lan != (\"0.0.0.0\", 0):\n            packet = self.create_puncture_request"},
    {"name": "puncture request names the introducer", "file": CM, "rule": "puncture-accompanies",
     "old": "            packet = self.create_puncture_request(lan_socket_address, socket_address, identifier, prefix=prefix,",
     "new": "            packet = self.create_puncture_request(self.my_estimated_lan, self.my_estimated_wan, identifier, prefix=prefix,"},
    {"name": "puncture request sent to the requester", "file": CM, "rule": "puncture-accompanies",
     "old": "            self.endpoint.send(introduction.address, packet)\n\n        return self._ez_pack(prefix or self._prefix, payload.msg_id, [auth, dist, payload])",
     "new": "            self.endpoint.send(socket_address, packet)\n\n        return self._ez_pack(prefix or self._prefix, payload.msg_id, [auth, dist, payload])"},
    {"name": "flag not set for WAN introductions", "file": CM, "rule": "puncture-accompanies",
     "old": "                introduction_wan = introduction.address\n            introduced = True", "new": "                introduction_wan = introduction.address\n                introduced = False\n            introduced = introduced or introduction_lan != (\"0.0.0.0\", 0)"},
    {"name": "requester may be introduced to itself", "file": CM, "rule": "puncture-accompanies",
     "old": "            introduction = self.get_peer_for_introduction(exclude=other, new_style=new_style)", "new": "            introduction = self.get_peer_for_introduction(new_style=new_style)"},
    {"name": "same-NAT without LAN walks WAN only", "file": CM, "rule": "requester-selection",
     "old": "            introductions.append(payload.wan_introduction_address)\n            introductions.append(UDPv4Address(self.my_estimated_lan[0], payload.wan_introduction_address[1]))",
     "new": "            introductions.append(payload.wan_introduction_address)"},
    {"name": "different NAT prefers LAN only", "file": CM, "rule": "requester-selection",
     "old": "            if payload.lan_introduction_address != (\"0.0.0.0\", 0):\n                introductions.append(payload.lan_introduction_address)\n            introductions.append(payload.wan_introduction_address)\n        elif",
     "new": "            if payload.lan_introduction_address != (\"0.0.0.0\", 0):\n                introductions.append(payload.lan_introduction_address)\n            else:\n                introductions.append(payload.wan_introduction_address)\n        elif"},
    {"name": "same-NAT test inverted", "file": CM, "rule": "requester-selection",
     "old": "              and payload.wan_introduction_address[0] == self.my_estimated_wan[0]):\n            introductions.append(payload.lan_introduction_address)",
     "new": "              and payload.wan_introduction_address[0] != self.my_estimated_wan[0]):\n            introductions.append(payload.lan_introduction_address)"},
    {"name": "puncture always to WAN", "file": CM, "rule": "puncture-target",
     "old": "        if payload.wan_walker_address[0] == self.my_estimated_wan[0]:\n            target = payload.lan_walker_address\n", "new": ""},
    {"name": "puncture loses identifier", "file": CM, "rule": "puncture-target",
     "old": "        packet = self.create_puncture(self.my_estimated_lan, payload.wan_walker_address, payload.identifier,",
     "new": "        packet = self.create_puncture(self.my_estimated_lan, payload.wan_walker_address, self.claim_global_time() % 65536,"},
]
