"""C17 - Identity attestations and token disclosure require the owner's consent."""
from __future__ import annotations

import ast

from ..core import Ctx
from ..match import arg, call_name, calls, fact_of, facts_at, local_defs, loop_facts, mentions, resolve, single_def, stores
from ..model import AnalysisError, FuncInfo, ancestors, chain, const_value, enclosing_stmt, norm, parent, strip_cast, walk_no_nested

LEVEL = "other"
EXPLANATION = (
    "Consent as dominance facts that are history independent (each guard reads only the current registration of that "
    "hash): the single `return True` of should_sign is dominated by the negation of every refusal reason (unknown token, "
    "missing keys, unregistered hash, other subject key, older than 300 s, other name, other metadata, already "
    "attested) with tuple positions derived from add_known_hash; attestation creation and sending are dominated by a "
    "solicited, correctly substantiated disclosure and a truthy should_sign for that pseudonym and metadata; database "
    "inserts of attestations/metadata are dominated by verify() under the very key recorded, and never replace a stored "
    "row (the stored rows are the memory of the 'already attested' refusal); token hand-out derives only "
    "from token_chain[:permissions.get(peer, 0)], permissions written only for the chosen peer.  Expressions are "
    "compared after substituting single-assignment locals by their definitions, guards are read from the CFG."
)

IC = "ipv8/attestation/identity/community.py"
IM = "ipv8/attestation/identity/manager.py"
ID = "ipv8/attestation/identity/database.py"


# ------------------------------------------------------------------------------------ expression canonicalisation
def _copy(n):
    """Structural copy of an expression (fields and positions only: the engine's parent links are not followed)."""
    if isinstance(n, ast.AST):
        new = n.__class__()
        for f in n._fields:
            if hasattr(n, f):
                setattr(new, f, _copy(getattr(n, f)))
        for a in ("lineno", "col_offset", "end_lineno", "end_col_offset"):
            if hasattr(n, a):
                setattr(new, a, getattr(n, a))
        return new
    if isinstance(n, list):
        return [_copy(x) for x in n]
    return n


def _comp_bound(n: ast.AST) -> set[str]:
    return {x.id for g in n.generators for x in ast.walk(g.target) if isinstance(x, ast.Name)}


def _stable_def(fi: FuncInfo, name: str, seen: frozenset = frozenset()) -> ast.AST | None:
    """
    The defining expression of local `name` if substituting it for the name is sound: the local is assigned exactly once
    (plain / annotated / walrus assignment, no tuple position) and every local its definition reads is itself never
    rebound (parameter without assignment, or single-assignment local).  Otherwise None.
    """
    if name in seen:
        return None
    d = single_def(fi, name)
    if d is None or d[1] is not None:
        return None
    val = strip_cast(d[0])
    bound: set[str] = set()
    for n in ast.walk(val):
        if isinstance(n, (ast.ListComp, ast.SetComp, ast.DictComp, ast.GeneratorExp)):
            bound |= _comp_bound(n)
        elif isinstance(n, ast.Lambda):
            bound |= {a.arg for a in [*n.args.posonlyargs, *n.args.args, *n.args.kwonlyargs]}
    for n in ast.walk(val):
        if isinstance(n, ast.Name) and n.id not in bound and n.id != name:
            defs = local_defs(fi, n.id)
            if not defs:
                continue                      # parameter that is never rebound / global / builtin
            if n.id in fi.params() or len(defs) != 1:
                return None                   # rebound parameter or multiply assigned local: value may differ at the use
    return val


class _Expander(ast.NodeTransformer):
    def __init__(self, fi: FuncInfo, getsub: tuple[str, ...], seen: frozenset = frozenset()) -> None:
        self.fi, self.getsub, self.seen = fi, getsub, seen
        self.bound: set[str] = set()

    def visit_Name(self, n: ast.Name):  # noqa: N802
        if not isinstance(n.ctx, ast.Load) or n.id in self.bound:
            return n
        val = _stable_def(self.fi, n.id, self.seen)
        if val is None:
            return n
        return _Expander(self.fi, self.getsub, self.seen | {n.id}).visit(_copy(val))

    def _comp(self, n):
        old = self.bound
        self.bound = old | _comp_bound(n)
        r = self.generic_visit(n)
        self.bound = old
        return r
    visit_ListComp = visit_SetComp = visit_DictComp = visit_GeneratorExp = _comp

    def visit_Lambda(self, n: ast.Lambda):  # noqa: N802
        old = self.bound
        self.bound = old | {a.arg for a in [*n.args.posonlyargs, *n.args.args, *n.args.kwonlyargs]}
        r = self.generic_visit(n)
        self.bound = old
        return r

    def visit_Call(self, n: ast.Call):  # noqa: N802
        s = strip_cast(n)
        if s is not n:
            return self.visit(s)
        n = self.generic_visit(n)
        # table.get(k) / table.get(k, None) read the same entry as table[k] wherever the entry exists
        if isinstance(n.func, ast.Attribute) and n.func.attr == "get" and not n.keywords and norm(n.func.value) in self.getsub \
                and (len(n.args) == 1 or (len(n.args) == 2 and const_value(n.args[1]) is None)) and not isinstance(n.args[0], ast.Starred):
            return ast.Subscript(value=n.func.value, slice=n.args[0], ctx=ast.Load())
        return n


def _expand(fi: FuncInfo, e: ast.AST | None, getsub: tuple[str, ...] = ()) -> ast.AST | None:
    """Copy of e in which casts are dropped and every soundly substitutable local is replaced by its definition."""
    if e is None:
        return None
    return _Expander(fi, getsub).visit(_copy(e))


def _x(fi: FuncInfo, e: ast.AST | None, getsub: tuple[str, ...] = ()) -> str:
    return norm(_expand(fi, e, getsub))


def _c(text: str) -> str:
    """Canonical text of an expression given as source."""
    return norm(ast.parse(text, mode="eval").body)


def _const_set(e: ast.AST):
    if isinstance(e, (ast.List, ast.Tuple, ast.Set)):
        vals = [const_value(x) for x in e.elts]
        if all(isinstance(v, (str, bytes, int)) for v in vals):
            return set(vals)
    return None


def _simple_callee_value(ctx: Ctx, fi: FuncInfo, call: ast.AST) -> ast.AST | None:
    """
    `self.helper(a, b)` where helper's body is a single `return <expr>` (after an optional docstring): <expr> with the
    parameters replaced by the arguments.  This is what the call evaluates to; None when the callee has any other shape.
    """
    if not isinstance(call, ast.Call) or call.keywords or any(isinstance(a, ast.Starred) for a in call.args):
        return None
    if not (isinstance(call.func, ast.Attribute) and isinstance(call.func.value, ast.Name) and call.func.value.id == "self"):
        return None
    tg = ctx.repo.resolve_call(fi, call)
    if len(tg) != 1 or tg[0].is_async:
        return None
    body = [s for s in tg[0].node.body if not (isinstance(s, ast.Expr) and isinstance(s.value, ast.Constant))]
    if len(body) != 1 or not isinstance(body[0], ast.Return) or body[0].value is None:
        return None
    params = tg[0].params()
    if not params or params[0] != "self" or len(params) - 1 != len(call.args):
        return None
    a = tg[0].node.args
    if a.vararg or a.kwarg or a.kwonlyargs:
        return None
    mapping = dict(zip(params[1:], call.args))
    val = _copy(body[0].value)
    bound: set[str] = set()
    for n in ast.walk(val):
        if isinstance(n, (ast.ListComp, ast.SetComp, ast.DictComp, ast.GeneratorExp)):
            bound |= _comp_bound(n)
    if bound & set(mapping):
        return None

    class Sub(ast.NodeTransformer):
        def visit_Name(self, n):  # noqa: N802
            return _copy(mapping[n.id]) if n.id in mapping and isinstance(n.ctx, ast.Load) else n
    return Sub().visit(val)


def _edge_dominated(cfg, site_ast: ast.AST, pred) -> bool:
    """Every path entry -> site uses an edge accepted by pred(u, v, label)."""
    ns = [n for n in cfg.nodes_for(site_ast) if cfg.reachable(n)]
    return bool(ns) and all(cfg.must_pass_edges(n, pred) for n in ns)


def _reaches(cfg, starts, site_ast: ast.AST) -> bool:
    r = cfg.reach(list(starts))
    return any(n in r for n in cfg.nodes_for(site_ast))


# ------------------------------------------------------------------------------------ registration table
def known_hash_layout(ctx: Ctx) -> dict[str, int]:
    fi = ctx.repo.method("IdentityCommunity", "add_known_hash", IC)
    sts = [s for s, t in stores(fi, "self.known_attestation_hashes[]") if isinstance(s, ast.Assign) and len(s.targets) == 1]
    ctx.anchor(sts, "known_attestation_hashes[...] = (...) in add_known_hash")
    tup = resolve(fi, sts[0].value)
    if not isinstance(tup, ast.Tuple):
        raise AnalysisError("anchor-lost: add_known_hash no longer stores a tuple literal")
    p = fi.params()
    layout = {}
    for i, e in enumerate(tup.elts):
        t = _x(fi, e)
        if t == p[2]:
            layout["name"] = i
        elif t == p[3]:
            layout["public_key"] = i
        elif t == p[4]:
            layout["metadata"] = i
        else:
            e2 = _expand(fi, e)
            if isinstance(e2, ast.Call) and chain(e2.func) in ("time", "time.time") and not e2.args:
                layout["time"] = i
    if set(layout) != {"name", "public_key", "metadata", "time"}:
        raise AnalysisError(f"anchor-lost: add_known_hash tuple layout {layout}")
    # the key is (a padded form of) the attribute hash parameter and involves no other argument
    key_names = {n.id for n in ast.walk(_expand(fi, sts[0].targets[0].slice)) if isinstance(n, ast.Name)}
    key_ok = p[1] in key_names and not key_names & set(p[2:])
    ctx.check(key_ok, "should-sign", fi, sts[0], "registration keyed by the attribute hash", "registration is keyed by something other than the attribute hash")
    return layout


def _is_time_call(e: ast.AST) -> bool:
    return isinstance(e, ast.Call) and chain(e.func) in ("time", "time.time") and not e.args and not e.keywords


def rule_should_sign(ctx: Ctx) -> None:  # noqa: C901, PLR0912, PLR0915
    repo = ctx.repo
    lay = known_hash_layout(ctx)
    fi = repo.method("IdentityCommunity", "should_sign", IC)
    cfg = ctx.cfg(fi)
    pseud, meta = fi.params()[1], fi.params()[2]
    trues = [r for r in walk_no_nested(fi.node) if isinstance(r, ast.Return) and const_value(resolve(fi, r.value)) is True]
    others = [r for r in walk_no_nested(fi.node) if isinstance(r, ast.Return) and const_value(resolve(fi, r.value)) not in (True, False)]
    ctx.check(len(trues) == 1 and not others, "should-sign", fi, fi.node, "should_sign has exactly one `return True` and otherwise returns False",
              "should_sign has several approving exits (or a non-constant verdict)")
    if len(trues) != 1:
        return
    site = trues[0]
    fs = facts_at(cfg, site)
    TABLE = "self.known_attestation_hashes"
    GS = (TABLE,)
    # canonical (fully substituted) spellings; they mention only parameters and attributes of self
    AH = _c(f"{pseud}.tree.elements[{meta}.token_pointer].content_hash")
    TR = _c(f"json.loads({meta}.serialized_json_dict)")
    K = _c(f"{TABLE}[{AH}]")
    MYKEY = _c("self.my_peer.public_key.key_to_bin()")
    SUBJ = _c(f"{pseud}.public_key.key_to_bin()")
    stable_params = not local_defs(fi, pseud) and not local_defs(fi, meta)

    def X(e) -> str:  # noqa: N802
        return _x(fi, e, GS)

    def reg(field: str) -> str:
        return _c(f"{K}[{lay[field]}]")

    def local_is(name: str, *canon: str) -> bool:
        # a local of the reviewed name, if it exists, must be what the reviewed code says it is
        if not local_defs(fi, name) and name not in fi.params():
            return True
        return X(ast.Name(id=name, ctx=ast.Load())) in canon
    key_forms = (_c(f"set({TR}.keys())"), _c(f"{TR}.keys()"), TR, _c(f"set({TR})"), _c(f"frozenset({TR}.keys())"), _c(f"list({TR}.keys())"))
    ctx.check(stable_params and local_is("attribute_hash", AH) and local_is("transaction", TR), "should-sign", fi, fi.node,
              "attribute hash = content hash of the token the metadata points to; transaction = the metadata's json",
              "should_sign judges a hash / json other than the disclosed metadata's")

    def registered(f) -> bool:
        if f.op == "in" and f.pos and X(f.left) == AH and X(f.right) == TABLE:
            return True
        # entry = table.get(hash) ... `if not entry` / `if entry is None` (entries are non-empty tuples)
        raw = _x(fi, f.left)
        if raw in (_c(f"{TABLE}.get({AH})"), _c(f"{TABLE}.get({AH}, None)")):
            return (f.op == "truthy" and f.pos) or (f.op == "is" and not f.pos and const_value(f.right) is None)
        return False

    def young(f) -> bool:
        if f.op != "lt" or f.pos:
            return False
        l, r = _expand(fi, f.left, GS), _expand(fi, f.right, GS)
        # not (reg_time + 300 < time())
        if isinstance(l, ast.BinOp) and isinstance(l.op, ast.Add) and _is_time_call(r):
            return sorted([norm(l.left), norm(l.right)]) == sorted([reg("time"), "300"])
        # not (300 < time() - reg_time)
        if const_value(l) == 300 and isinstance(r, ast.BinOp) and isinstance(r.op, ast.Sub):
            return _is_time_call(r.left) and norm(r.right) == reg("time")
        return False
    reasons = {
        "token pointer known": any(f.op == "in" and f.pos and X(f.left) == _c(f"{meta}.token_pointer") and X(f.right) == _c(f"{pseud}.tree.elements") for f in fs),
        "hash registered": any(registered(f) for f in fs),
        "subject key == registered key": any(f.op == "eq" and f.pos and {X(f.left), X(f.right)} == {SUBJ, reg("public_key")} for f in fs),
        "registration younger than 300 s": any(young(f) for f in fs),
        "name == registered name": any(f.op == "eq" and f.pos and {X(f.left), X(f.right)} == {_c(f"{TR}['name']"), reg("name")} for f in fs),
    }

    def has_key(f, k: str) -> bool:
        if f.op == "in" and f.pos and const_value(f.left) == k and X(f.right) in key_forms:
            return True
        # {"name", ...} <= keys  /  keys >= {...}   (fact_of spells both as: not (keys < literal))
        if f.op == "lt" and not f.pos and isinstance(f.atom, ast.Compare) and isinstance(f.atom.ops[0], (ast.LtE, ast.GtE)):
            rr = _expand(fi, f.right)
            lit = _const_set(rr) if isinstance(rr, ast.Set) else None
            return lit is not None and k in lit and X(f.left) in key_forms[:2]
        if f.op == "truthy" and f.pos and isinstance(f.left, ast.Call) and isinstance(f.left.func, ast.Attribute) and len(f.left.args) == 1 and not f.left.keywords:
            recv, a = f.left.func.value, f.left.args[0]
            if f.left.func.attr == "issubset" and isinstance(recv, ast.Set):
                return k in (_const_set(recv) or ()) and X(a) in key_forms
            if f.left.func.attr == "issuperset" and X(recv) in (key_forms[0], key_forms[3], key_forms[4]):
                return k in (_const_set(a) or ())
        return False
    for k in ("name", "date", "schema"):
        reasons[f"required key {k}"] = any(has_key(f, k) for f in fs)
    reasons["requested_keys = keys of the transaction"] = local_is("requested_keys", *key_forms)
    for what, ok in reasons.items():
        ctx.check(ok, "should-sign", fi, site, f"`return True` dominated by: {what}",
                  f"should_sign can approve although the condition `{what}` does not hold", [str(f) for f in fs])
    # registered metadata present => extra fields equal: every path to `return True` takes the "no metadata registered" edge
    # or the "extra fields == registered metadata" edge
    absent_edges: dict = {}
    equal_edges: dict = {}
    for n in cfg.nodes:
        if n.kind != "cond":
            continue
        f = fact_of(n.ast, True)
        if f.op == "is" and const_value(f.right) is None and X(f.left) == reg("metadata"):
            absent_edges[n] = f.pos            # label under which `... is None` holds
        elif f.op == "eq":
            for a, b in ((f.left, f.right), (f.right, f.left)):
                if X(b) == reg("metadata") and _extra_fields_of(fi, _expand(fi, a, GS), TR):
                    equal_edges[n] = f.pos     # label under which the two are equal
    ok = bool(absent_edges) and bool(equal_edges) and _edge_dominated(
        cfg, site, lambda u, v, lab: (u in absent_edges and lab is absent_edges[u]) or (u in equal_edges and lab is equal_edges[u]))
    ctx.check(ok, "should-sign", fi, site, "`return True` unreachable when registered metadata exists and differs from the extra fields",
              "should_sign approves metadata that differs from the metadata fixed at registration")
    # already attested by us
    ga = repo.method("IdentityDatabase", "get_authority", ID)
    ga_ret = norm(ga.node.returns) if ga.node.returns is not None else ""
    single_key = ga_ret in ("bytes", "'bytes'")
    over = _c(f"{pseud}.database.get_attestations_over({meta})")

    def authority_eq(e: ast.AST, att: str) -> bool:
        return isinstance(e, ast.Compare) and len(e.ops) == 1 and isinstance(e.ops[0], ast.Eq) and \
            {norm(e.left), norm(e.comparators[0])} == {_c(f"{pseud}.database.get_authority({att})"), MYKEY}

    def any_over_bytes(e: ast.AST) -> bool:
        return isinstance(e, ast.Call) and chain(e.func) == "any" and MYKEY in norm(e) and "get_authority" in norm(e) and \
            any(isinstance(g, (ast.GeneratorExp, ast.ListComp)) and any("get_authority" in norm(c.iter) for c in g.generators) for g in ast.walk(e))
    ok = False
    loops = [l for l in walk_no_nested(fi.node) if isinstance(l, ast.For) and X(l.iter) == over and isinstance(l.target, ast.Name)]
    for l in loops:
        att = l.target.id
        refused = False
        for r in [r for r in ast.walk(l) if isinstance(r, ast.Return) and const_value(resolve(fi, r.value)) is False]:
            for f in facts_at(cfg, r):
                e = _expand(fi, f.atom, GS)
                if f.op == "eq" and f.pos and {X(f.left), X(f.right)} == {_c(f"{pseud}.database.get_authority({att})"), MYKEY}:
                    # once the comparison succeeds the approving exit is out of reach
                    cn = [n for n in cfg.nodes_for(f.atom) if n.kind == "cond"]
                    lab = fact_of(f.atom, True).pos      # label of the edge on which the two keys are equal
                    if cn and not _reaches(cfg, [v for n in cn for v, la in n.succ if la is lab], site):
                        refused = single_key
                if f.op == "truthy" and f.pos and any_over_bytes(e):
                    if single_key:
                        ctx.check(False, "should-sign", fi, f.left, "already-attested test compares whole keys",
                                  f"the 'already attested' refusal iterates over get_authority(), which returns ONE key as `{ga_ret}`: each element is an int and never equals "
                                  "our key (bytes), so the refusal is dead code and a replayed disclosure is attested again")
                    else:
                        refused = True
        # the approving exit lies behind the exhausted loop (every attestation over this metadata has been looked at)
        after = any(a is l and pol is False for a, pol in loop_facts(cfg, site))
        ok = ok or (refused and after)
    if not loops:
        # comprehension spelling: `if any(get_authority(a) == our key for a in get_attestations_over(metadata)): return False`
        for f in fs:
            e = _expand(fi, f.left, GS)
            if f.op == "truthy" and not f.pos and isinstance(e, ast.Call) and chain(e.func) == "any" and len(e.args) == 1 \
                    and isinstance(e.args[0], (ast.GeneratorExp, ast.ListComp)) and len(e.args[0].generators) == 1:
                g = e.args[0].generators[0]
                if norm(g.iter) == over and isinstance(g.target, ast.Name) and not g.ifs and authority_eq(e.args[0].elt, g.target.id):
                    ok = single_key
    ctx.check(ok, "should-sign", fi, site, "refuses when one of the attestations over this metadata is already by us", "should_sign attests the same metadata twice")
    # registrations are written only by add_known_hash
    for m, f2, a in repo.attribute_uses("known_attestation_hashes"):
        p = parent(a)
        w = isinstance(a.ctx, ast.Store) or (isinstance(p, ast.Subscript) and isinstance(p.ctx, (ast.Store, ast.Del))) or \
            (isinstance(p, ast.Attribute) and p.attr in ("update", "setdefault", "pop", "clear", "popitem", "__setitem__", "__delitem__") and isinstance(parent(p), ast.Call))
        if w:
            ctx.check(f2 is not None and f2.qualname in ("IdentityCommunity.add_known_hash", "IdentityCommunity.__init__"), "should-sign", f2 or m.relpath, enclosing_stmt(a),
                      "registrations written only by add_known_hash", "the consent table is written outside add_known_hash")


def _extra_fields_of(fi: FuncInfo, dc: ast.AST | None, tr: str) -> bool:
    """dc is `{k: v for k, v in <transaction>.items() if k not in <name, date, schema>}` (any literal kind for the three names)."""
    if not isinstance(dc, ast.DictComp) or len(dc.generators) != 1:
        return False
    g = dc.generators[0]
    if g.is_async or not (isinstance(g.target, ast.Tuple) and len(g.target.elts) == 2 and all(isinstance(t, ast.Name) for t in g.target.elts)):
        return False
    k, v = g.target.elts[0].id, g.target.elts[1].id
    if not (isinstance(dc.key, ast.Name) and dc.key.id == k and isinstance(dc.value, ast.Name) and dc.value.id == v and k != v):
        return False
    if norm(g.iter) != _c(f"{tr}.items()") or len(g.ifs) != 1:
        return False
    t = g.ifs[0]
    neg = False
    while isinstance(t, ast.UnaryOp) and isinstance(t.op, ast.Not):
        t, neg = t.operand, not neg
    if not (isinstance(t, ast.Compare) and len(t.ops) == 1 and isinstance(t.left, ast.Name) and t.left.id == k):
        return False
    excluded = (isinstance(t.ops[0], ast.NotIn) and not neg) or (isinstance(t.ops[0], ast.In) and neg)
    return excluded and _const_set(t.comparators[0]) == {"name", "date", "schema"}


def rule_attested_memory(ctx: Ctx) -> None:
    """
    The 'already attested' refusal of should_sign asks the database for attestations over the STORED metadata of the
    token (get_credentials -> get_attestations_over(metadata)).  That memory is only as good as the rows are permanent:
    Metadata is keyed (public_key, token_pointer) and Attestations (public_key, metadata_pointer), so an insert that
    replaces an existing row lets a re-issued metadata (other hash, no attestation over it yet) take the place of the
    attested one and the same registered attribute is signed again within the five minutes.  First write must win.
    """
    repo = ctx.repo
    for meth, table in (("insert_metadata", "Metadata"), ("insert_attestation", "Attestations")):
        fi = repo.method("IdentityDatabase", meth, ID)
        texts = []
        doc = fi.node.body[0].value if isinstance(fi.node.body[0], ast.Expr) and isinstance(fi.node.body[0].value, ast.Constant) else None
        cands = [n for n in ast.walk(fi.node) if isinstance(n, ast.Constant) and isinstance(n.value, str) and n is not doc]
        cands += [a for c in calls(fi, nested=True) for a in [*c.args, *[k.value for k in c.keywords]] if isinstance(a, (ast.Name, ast.Attribute, ast.BinOp))]
        for n in cands:
            if isinstance(n, ast.Constant):
                v = n.value
            else:
                try:
                    v = repo.resolve_const(fi.module, resolve(fi, n), fi.cls)
                except Exception:  # noqa: BLE001
                    v = None
            if isinstance(v, str) and f"INTO {table.upper()}" in " ".join(v.upper().split()):
                texts.append((n, " ".join(v.upper().split())))
        if not texts:
            raise AnalysisError(f"anchor-lost: no SQL statement writing table {table} found in IdentityDatabase.{meth}")
        for n, sql in texts:
            keeps = sql.startswith("INSERT OR IGNORE INTO") or ("ON CONFLICT" in sql and "DO NOTHING" in sql and "DO UPDATE" not in sql)
            replaces = sql.startswith(("REPLACE", "INSERT OR REPLACE")) or "DO UPDATE" in sql
            if not keeps and not replaces:
                raise AnalysisError(f"undecided: conflict behaviour of `{sql[:60]}` in IdentityDatabase.{meth}")
            ctx.check(keeps, "should-sign", fi, enclosing_stmt(n) if not isinstance(n, ast.stmt) else n,
                      f"{meth}: a stored {table} row is never replaced (first write wins), so the 'already attested' memory stays attached to the attested metadata",
                      f"IdentityDatabase.{meth} replaces an existing {table} row: re-issued metadata for an already attested token displaces the attested one, "
                      "should_sign's 'already attested' lookup finds nothing for it and the same registered attribute is attested again")


# ------------------------------------------------------------------------------------ attesting
def _solicited_expr(e: ast.AST | None, lay: dict[str, int], peerkey: str) -> bool:
    """e says: some registration's subject key equals the sender's key."""
    def reg_key(x: ast.AST, var: str) -> bool:
        return isinstance(x, ast.Subscript) and isinstance(x.value, ast.Name) and x.value.id == var and const_value(x.slice) == lay["public_key"]

    def over_table(g: ast.comprehension) -> str | None:
        if g.is_async or g.ifs or not isinstance(g.target, ast.Name) or norm(g.iter) != "self.known_attestation_hashes.values()":
            return None
        return g.target.id
    if isinstance(e, ast.Call) and chain(e.func) == "any" and len(e.args) == 1 and not e.keywords \
            and isinstance(e.args[0], (ast.GeneratorExp, ast.ListComp, ast.SetComp)) and len(e.args[0].generators) == 1:
        var = over_table(e.args[0].generators[0])
        c = e.args[0].elt
        if var and isinstance(c, ast.Compare) and len(c.ops) == 1 and isinstance(c.ops[0], ast.Eq):
            a, b = c.left, c.comparators[0]
            return (reg_key(a, var) and norm(b) == peerkey) or (reg_key(b, var) and norm(a) == peerkey)
    if isinstance(e, ast.Compare) and len(e.ops) == 1 and isinstance(e.ops[0], ast.In) and norm(e.left) == peerkey:
        s = e.comparators[0]
        if isinstance(s, (ast.GeneratorExp, ast.ListComp, ast.SetComp)) and len(s.generators) == 1:
            var = over_table(s.generators[0])
            return bool(var) and reg_key(s.elt, var)
    return False


def _tuple_elem(fi: FuncInfo, e: ast.AST | None):
    """(producer expression, position) when e is one element of an unpacked / indexed call result."""
    e = strip_cast(e) if e is not None else None
    if isinstance(e, ast.Name):
        d = single_def(fi, e.id)
        if d is not None and d[1] is not None:
            return resolve(fi, d[0]), d[1]
        if d is not None:
            return _tuple_elem(fi, d[0])
    if isinstance(e, ast.Subscript) and isinstance(const_value(e.slice), int):
        return resolve(fi, e.value), const_value(e.slice)
    return None, None


def rule_attest(ctx: Ctx) -> None:  # noqa: C901, PLR0912
    repo = ctx.repo
    lay = known_hash_layout(ctx)
    fi = repo.method("IdentityCommunity", "_received_disclosure_for_attest", IC)
    cfg = ctx.cfg(fi)
    peer, disc = fi.params()[1], fi.params()[2]
    peerkey = _c(f"{peer}.public_key.key_to_bin()")
    stable = not local_defs(fi, peer) and not local_defs(fi, disc)
    creates = [c for c in calls(fi) if call_name(c) == "create_attestation"]
    sites = creates + [c for c in calls(fi, "self.ez_send") if mentions(c, "AttestPayload")]
    ctx.floor("attest-only-if-consented", len(sites), 2)
    sub = [c for c in calls(fi, "self.identity_manager.substantiate")]
    ok_sub = stable and len(sub) == 1 and _x(fi, arg(sub[0], 0)) == f"{peer}.public_key" and len(sub[0].args) == 2 \
        and isinstance(sub[0].args[1], ast.Starred) and _x(fi, sub[0].args[1].value) == disc and not sub[0].keywords
    ctx.check(ok_sub, "attest-only-if-consented", fi, fi.node, "disclosure substantiated under the authenticated sender's key", "the disclosure is validated under a key other than the sender's")
    for s in sites:
        fs = facts_at(cfg, s)
        sol = cor = False
        ss = None
        for f in fs:
            e = _expand(fi, f.atom)
            via = _simple_callee_value(ctx, fi, e)
            if f.pos and (_solicited_expr(e, lay, peerkey) or (via is not None and _solicited_expr(via, lay, peerkey))):
                sol = True
            if f.op == "truthy" and f.pos:
                prod, idx = _tuple_elem(fi, f.left)
                if sub and prod is sub[0] and idx == 0:
                    cor = True
                r = resolve(fi, f.left)
                if isinstance(r, ast.Call) and chain(r.func) == "self.should_sign":
                    ss = r
        ss_ok = False
        if ss is not None and len(ss.args) == 2 and not ss.keywords:
            prod, idx = _tuple_elem(fi, ss.args[0])
            ss_ok = bool(sub) and prod is sub[0] and idx == 1 and _x(fi, ss.args[1]) == "credential.metadata"
        ctx.check(sol and cor and ss_ok, "attest-only-if-consented", fi, s,
                  "attesting dominated by: solicited sender, correct substantiation, should_sign(pseudonym, credential.metadata)",
                  f"an attestation can be created/sent without the owner's consent checks (solicited={sol} correct={cor} should_sign={ss_ok})", [str(f) for f in fs])
    for c in creates:
        ok = _x(fi, arg(c, 0)) == "credential.metadata" and _x(fi, arg(c, 1)) == "self.my_peer.key"
        ctx.check(ok, "attest-only-if-consented", fi, c, "attestation is over the approved metadata, signed with our key", "the attestation is over other metadata than the approved one")
    _substantiate(ctx)


def _substantiate(ctx: Ctx) -> None:  # noqa: C901
    """
    The flag returned by substantiate is a conjunction: it starts as the verdict of tree.unserialize_public(tokens) of the
    given key's pseudonym and can only be lowered (&=) afterwards, and every add_attestation verdict is and-ed into it.
    Any other way of computing it (an `or` alternative, a reset to True, |=) lets a disclosure whose chain or attestations
    did not verify count as correct, and the caller signs on the strength of it.
    """
    sb = ctx.repo.method("IdentityManager", "substantiate", IM)
    cfg = ctx.cfg(sb)
    p = sb.params()
    pseudo = _c(f"self.get_pseudonym({p[1]})")
    rets = [r for r in walk_no_nested(sb.node) if isinstance(r, ast.Return)]
    rv = resolve(sb, rets[0].value) if len(rets) == 1 else None
    ok = isinstance(rv, ast.Tuple) and len(rv.elts) == 2 and isinstance(rv.elts[0], ast.Name) and not local_defs(sb, p[1]) and not local_defs(sb, p[3])
    why = "substantiate no longer returns (flag, pseudonym) from a single exit"
    flag = rv.elts[0].id if ok else None
    if ok:
        def and_update(s, v) -> ast.AST | None:
            """the operand and-ed into the flag by this definition, or None"""
            if isinstance(s, ast.AugAssign) and isinstance(s.op, ast.BitAnd):
                return s.value
            if isinstance(v, ast.BinOp) and isinstance(v.op, ast.BitAnd):
                if isinstance(v.left, ast.Name) and v.left.id == flag:
                    return v.right
                if isinstance(v.right, ast.Name) and v.right.id == flag:
                    return v.left
            if isinstance(v, ast.BoolOp) and isinstance(v.op, ast.And) and len(v.values) == 2:
                if isinstance(v.values[0], ast.Name) and v.values[0].id == flag:
                    return v.values[1]
                if isinstance(v.values[1], ast.Name) and v.values[1].id == flag:
                    return v.values[0]
            return None
        defs = local_defs(sb, flag)
        inits = [(s, v) for s, v, i in defs if and_update(s, v) is None]
        anded = [and_update(s, v) for s, v, i in defs if and_update(s, v) is not None]

        def is_chain_verdict(e: ast.AST | None) -> bool:
            e = _expand(sb, e)
            if isinstance(e, ast.BoolOp) and isinstance(e.op, ast.And):
                return any(is_chain_verdict(v) for v in e.values)
            return isinstance(e, ast.Call) and norm(e.func) == _c(f"{pseudo}.tree.unserialize_public") and len(e.args) == 1 \
                and not e.keywords and norm(e.args[0]) == p[3]
        ok = len(inits) == 1 and inits[0][1] is not None and is_chain_verdict(inits[0][1]) and not isinstance(inits[0][0], (ast.For, ast.With))
        why = "the flag of substantiate is not `tree.unserialize_public(tokens)` lowered only by `&=`"
        if ok:
            # the initial verdict is taken on every path to the return
            init_nodes = cfg.nodes_for(inits[0][0])
            ok = bool(init_nodes) and all(cfg.must_complete(n, init_nodes) for r in rets for n in cfg.nodes_for(r))
        if ok:
            adds = [c for c in calls(sb) if call_name(c) == "add_attestation"]
            folded = [resolve(sb, a) for a in anded]
            ok = bool(adds) and all(any(c is f for f in folded) for c in adds) and all(_x(sb, c.func.value) == pseudo for c in adds if isinstance(c.func, ast.Attribute))
            why = "an add_attestation verdict is not and-ed into the flag of substantiate"
        ok = ok and _x(sb, rv.elts[1]) == pseudo
    ctx.check(bool(ok), "attest-only-if-consented", sb, sb.node, "substantiate ANDs tree.unserialize_public and every add_attestation result",
              f"substantiate reports a disclosure as correct although a token or attestation failed verification ({why})")
    ctx.check(flag is not None and _x(sb, rv.elts[1]) == pseudo, "attest-only-if-consented", sb, sb.node,
              "the pseudonym is the one of the given key", "substantiate loads the disclosure into another key's pseudonym")


# ------------------------------------------------------------------------------------ storing
def _verify_fact(fi: FuncInfo, fs, obj: str, key: str) -> bool:
    """A dominating fact `obj.verify(key)` is truthy (possibly through a local holding the verdict)."""
    for f in fs:
        if f.op == "truthy" and f.pos:
            e = _expand(fi, f.left)
            if isinstance(e, ast.Call) and isinstance(e.func, ast.Attribute) and e.func.attr == "verify" and norm(e.func.value) == obj \
                    and len(e.args) == 1 and not e.keywords and norm(e.args[0]) == key:
                return True
    return False


def rule_store(ctx: Ctx) -> None:
    repo = ctx.repo
    pm = repo.cls("PseudonymManager", IM)
    n = 0
    for m, fi, c in [*repo.callers_of_name("insert_attestation"), *repo.callers_of_name("insert_metadata")]:
        if fi is None or not m.relpath.startswith("ipv8/attestation/identity/") or m.relpath.endswith("database.py"):
            continue
        n += 1
        ctx.check(fi.cls is pm, "store-only-valid", fi, c, f"{call_name(c)} called from PseudonymManager", f"{call_name(c)} is called outside PseudonymManager's verifying methods")
        if fi.cls is not pm:
            continue
        cfg = ctx.cfg(fi)
        fs = facts_at(cfg, c)
        if call_name(c) == "insert_attestation":
            att, auth = _x(fi, arg(c, 2)), _x(fi, arg(c, 1))
            ok = _verify_fact(fi, fs, att, auth) and _x(fi, arg(c, 0)) == "self.public_key"
            ctx.check(ok, "store-only-valid", fi, c, "attestation stored only if it verifies under the key recorded as its authority",
                      "an attestation is stored without being validly signed by the recorded authority", [str(f) for f in fs])
        else:
            md = _x(fi, arg(c, 1))
            ok = _verify_fact(fi, fs, md, "self.public_key") and _x(fi, arg(c, 0)) == "self.public_key"
            ctx.check(ok, "store-only-valid", fi, c, "metadata stored only if signed by the pseudonym's key", "metadata is stored without a valid owner signature", [str(f) for f in fs])
    ctx.floor("store-only-valid", n, 3)
    oa = repo.method("IdentityCommunity", "on_attest", IC)
    from .c01 import classify_handler
    ctx.check(classify_handler(ctx, oa) == "authenticated", "store-only-valid", oa, oa.node, "on_attest is authenticated", "on_attest is not authenticated")
    peer = oa.params()[1]
    aa = [c for c in calls(oa) if call_name(c) == "add_attestation"]
    un = [c for c in calls(oa, "Attestation.unserialize")]
    ok = len(aa) == 1 and _x(oa, arg(aa[0], 0)) == f"{peer}.public_key" and len(un) == 1 and _x(oa, arg(un[0], 1)) == f"{peer}.public_key" \
        and chain(aa[0].func) == "self.pseudonym_manager.add_attestation" and not local_defs(oa, peer)
    ctx.check(ok, "store-only-valid", oa, oa.node, "incoming attestation verified and recorded under the authenticated sender's key",
              "an incoming attestation is attributed to a key other than the authenticated sender's")


# ------------------------------------------------------------------------------------ token hand-out
def _permission_bound(e: ast.AST | None, peer: str) -> bool:
    """e is the position opened to `peer`, 0 when nothing was opened: permissions.get(peer, 0) or its if-expression spelling."""
    if isinstance(e, ast.Call) and chain(e.func) == "self.permissions.get" and not e.keywords and len(e.args) == 2:
        return norm(e.args[0]) == peer and const_value(e.args[1]) == 0 and not isinstance(const_value(e.args[1]), bool)
    if isinstance(e, ast.IfExp):
        t, a, b = e.test, e.body, e.orelse
        while isinstance(t, ast.UnaryOp) and isinstance(t.op, ast.Not):
            t, a, b = t.operand, b, a
        if isinstance(t, ast.Compare) and len(t.ops) == 1 and isinstance(t.ops[0], ast.NotIn):
            t, a, b = ast.Compare(left=t.left, ops=[ast.In()], comparators=t.comparators), b, a
        return isinstance(t, ast.Compare) and len(t.ops) == 1 and isinstance(t.ops[0], ast.In) and norm(t.left) == peer \
            and norm(t.comparators[0]) == "self.permissions" and norm(a) == f"self.permissions[{peer}]" \
            and const_value(b) == 0 and not isinstance(const_value(b), bool)
    return False


def _permitted_tokens(fi: FuncInfo, e: ast.AST | None, peer: str) -> bool:
    """e evaluates to (a slice of) self.token_chain[:<position opened to peer>]."""
    e = _expand(fi, e)
    for _ in range(4):
        if not (isinstance(e, ast.Subscript) and isinstance(e.slice, ast.Slice)):
            return False
        if norm(e.value) == "self.token_chain":
            return e.slice.lower is None and e.slice.step is None and _permission_bound(e.slice.upper, peer)
        if e.slice.step is not None:
            return False
        e = e.value          # a plain sub-slice of a permitted list is permitted
    return False


def rule_permitted(ctx: Ctx) -> None:  # noqa: C901, PLR0912
    repo = ctx.repo
    fi = repo.method("IdentityCommunity", "on_request_missing", IC)
    from .c01 import classify_handler
    ctx.check(classify_handler(ctx, fi) == "authenticated", "permitted-range", fi, fi.node, "on_request_missing is authenticated", "token requests are not authenticated")
    peer = fi.params()[1]
    snd = [c for c in calls(fi, "self.ez_send") if mentions(c, "MissingResponsePayload")]
    ctx.anchor(snd, "MissingResponsePayload send")
    for c in snd:
        pl = resolve(fi, arg(c, 1))
        out = arg(pl, 0) if isinstance(pl, ast.Call) and call_name(pl) == "MissingResponsePayload" else None
        ok = _x(fi, arg(c, 0)) == peer and isinstance(out, ast.Name) and not local_defs(fi, peer)
        if ok:
            # every definition of `out` is b"" or out += <serialized token of the permitted enumeration>
            for st, v, _ in local_defs(fi, out.id):
                added = None
                if isinstance(st, ast.AugAssign) and isinstance(st.op, ast.Add):
                    added = st.value
                elif isinstance(v, ast.BinOp) and isinstance(v.op, ast.Add) and isinstance(v.left, ast.Name) and v.left.id == out.id:
                    added = v.right
                if added is not None:
                    src = resolve(fi, added)
                    good = isinstance(src, ast.Call) and call_name(src) == "get_plaintext_signed" and isinstance(src.func, ast.Attribute) \
                        and isinstance(src.func.value, ast.Name) and not src.args and not src.keywords
                    if good:
                        tokvar = src.func.value.id
                        tdefs = local_defs(fi, tokvar)
                        loop = tdefs[0][0] if len(tdefs) == 1 and isinstance(tdefs[0][0], ast.For) else None
                        good = loop is not None and loop in list(ancestors(st))
                        if good:
                            it = resolve(fi, loop.iter)
                            if isinstance(it, ast.Call) and chain(it.func) == "enumerate" and it.args and not it.keywords:
                                good = isinstance(loop.target, ast.Tuple) and len(loop.target.elts) == 2 and norm(loop.target.elts[1]) == tokvar
                                base = it.args[0]
                            else:
                                good = isinstance(loop.target, ast.Name)
                                base = it
                            good = good and _permitted_tokens(fi, base, peer)
                    ok = ok and good
                else:
                    ok = ok and v is not None and isinstance(st, (ast.Assign, ast.AnnAssign)) and const_value(v) == b""
        ctx.check(ok, "permitted-range", fi, c, "response bytes derive only from token_chain[:permissions.get(peer, 0)] and go to the requester",
                  "tokens beyond the position opened to the requester (or to an unpermitted peer) can be handed out")
    n = 0
    for m, f2, a in repo.attribute_uses("permissions"):
        if not m.relpath.startswith("ipv8/attestation/identity/"):
            continue
        p = parent(a)
        w = isinstance(a.ctx, ast.Store) or (isinstance(p, ast.Subscript) and isinstance(p.ctx, (ast.Store, ast.Del))) or \
            (isinstance(p, ast.Attribute) and p.attr in ("update", "setdefault", "pop", "clear", "popitem", "__setitem__", "__delitem__") and isinstance(parent(p), ast.Call))
        if not w:
            continue
        n += 1
        st = enclosing_stmt(a)
        if f2 is not None and f2.qualname == "IdentityCommunity.__init__":
            continue
        ok = f2 is not None and f2.qualname == "IdentityCommunity.request_attestation_advertisement" and isinstance(st, ast.Assign) \
            and len(st.targets) == 1 and norm(st.targets[0]) == f"self.permissions[{f2.params()[1]}]" and not local_defs(f2, f2.params()[1]) \
            and _x(f2, st.value) == "len(self.token_chain)"
        ctx.check(ok, "permitted-range", f2 or m.relpath, st, "permissions written only for the peer chosen by the user, with the current chain length",
                  "the disclosure permission of a peer is written outside request_attestation_advertisement")
    ctx.floor("permitted-range", n, 2)


def run(ctx: Ctx) -> None:
    rule_should_sign(ctx)
    rule_attested_memory(ctx)
    rule_attest(ctx)
    rule_store(ctx)
    rule_permitted(ctx)
    ctx.assume("sequences of registrations are covered because every guard reads only the current registration of the hash (no accumulated state)")
    ctx.assume("signature primitives sound (trusted); chain verification is C16")


WITNESSES = [
    {"name": "pre-fix: already-attested check iterates over key bytes", "file": IC, "rule": "should-sign",
     "old": "            if pseudonym.database.get_authority(attestation) == self.my_peer.public_key.key_to_bin():",
     "new": "            if any(authority == self.my_peer.public_key.key_to_bin()\n                   for authority in pseudonym.database.get_authority(attestation)):"},
    {"name": "subject key check dropped", "file": IC, "rule": "should-sign",
     "old": "        if pseudonym.public_key.key_to_bin() != self.known_attestation_hashes[attribute_hash][2]:\n            self.logger.debug(\"Not signing %s, attribute doesn't belong to key!\", str(metadata))\n            return False\n",
     "new": ""},
    {"name": "wrong tuple index for key", "file": IC, "rule": "should-sign",
     "old": "        if pseudonym.public_key.key_to_bin() != self.known_attestation_hashes[attribute_hash][2]:",
     "new": "        if pseudonym.public_key.key_to_bin() != self.known_attestation_hashes[attribute_hash][0]:"},
    {"name": "registration never expires", "file": IC, "rule": "should-sign",
     "old": "        if time() > self.known_attestation_hashes[attribute_hash][1] + 300:", "new": "        if time() > self.known_attestation_hashes[attribute_hash][1] + 300 * 300:"},
    {"name": "name mismatch tolerated", "file": IC, "rule": "should-sign",
     "old": "        if transaction[\"name\"] != self.known_attestation_hashes[attribute_hash][0]:\n            self.logger.debug(\"Not signing %s, name does not match!\", str(metadata))\n            return False\n",
     "new": "        if transaction[\"name\"] != self.known_attestation_hashes[attribute_hash][0]:\n            self.logger.debug(\"Not signing %s, name does not match!\", str(metadata))\n"},
    {"name": "extra metadata accepted", "file": IC, "rule": "should-sign",
     "old": "        if (self.known_attestation_hashes[attribute_hash][3] is not None\n                and ({k: v for k, v in transaction.items() if k not in [\"name\", \"date\", \"schema\"]}\n                     != self.known_attestation_hashes[attribute_hash][3])):",
     "new": "        if (self.known_attestation_hashes[attribute_hash][3] is not None\n                and not ({k: v for k, v in transaction.items() if k not in [\"name\", \"date\", \"schema\"]}.items()\n                         >= self.known_attestation_hashes[attribute_hash][3].items())):"},
    {"name": "double attestation allowed", "file": IC, "rule": "should-sign",
     "old": "                self.logger.debug(\"Not signing %s, already attested!\", str(metadata))\n                return False\n",
     "new": "                self.logger.debug(\"Not signing %s, already attested!\", str(metadata))\n"},
    {"name": "time slot stores expiry not registration", "file": IC, "rule": "should-sign",
     "old": "        self.known_attestation_hashes[attribute_hash] = (name, time(), public_key, metadata)",
     "new": "        self.known_attestation_hashes[attribute_hash] = (name, public_key, time(), metadata)"},
    {"name": "attest without should_sign", "file": IC, "rule": "attest-only-if-consented",
     "old": "                    if self.should_sign(pseudonym, credential.metadata):\n", "new": "                    if credential.metadata is not None:\n"},
    {"name": "attest although disclosure incorrect", "file": IC, "rule": "attest-only-if-consented",
     "old": "            if correct and any(attribute_hash in known_attributes for attribute_hash in required_attributes):",
     "new": "            if any(attribute_hash in known_attributes for attribute_hash in required_attributes):"},
    {"name": "substantiate ignores bad attestation", "file": IM, "rule": "attest-only-if-consented",
     "old": "            correct &= pseudonym.add_attestation(authority,", "new": "            correct |= pseudonym.add_attestation(authority,"},
    {"name": "chain verdict overruled after the fact", "file": IM, "rule": "attest-only-if-consented",
     "old": "        correct = pseudonym.tree.unserialize_public(serialized_tokens)\n",
     "new": "        correct = pseudonym.tree.unserialize_public(serialized_tokens)\n        correct = correct or len(pseudonym.tree.elements) > 0\n"},
    {"name": "stored attestation replaced by a later one", "file": ID, "rule": "should-sign",
     "old": "INSERT OR IGNORE INTO Attestations ", "new": "INSERT OR REPLACE INTO Attestations "},
    {"name": "attestation stored unverified", "file": IM, "rule": "store-only-valid",
     "old": "        if attestation.verify(public_key):\n            self.database.insert_attestation(self.public_key, public_key, attestation)\n            return True\n        return False",
     "new": "        self.database.insert_attestation(self.public_key, public_key, attestation)\n        return attestation.verify(public_key)"},
    {"name": "attestation attributed to our own key", "file": IC, "rule": "store-only-valid",
     "old": "        if self.pseudonym_manager.add_attestation(peer.public_key, attestation):", "new": "        if self.pseudonym_manager.add_attestation(attestation.get_hash() and peer.public_key or self.my_peer.public_key, attestation):"},
    {"name": "tokens handed out beyond permission", "file": IC, "rule": "permitted-range",
     "old": "        permitted = self.token_chain[:self.permissions.get(peer, 0)]", "new": "        permitted = self.token_chain[:self.permissions.get(peer, len(self.token_chain))]"},
    {"name": "permission granted on request", "file": IC, "rule": "permitted-range",
     "old": "        out = b\"\"\n        permitted = self.token_chain", "new": "        out = b\"\"\n        self.permissions.setdefault(peer, request.known + 1)\n        permitted = self.token_chain"},
]
